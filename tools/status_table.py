#!/venv/bin/python
"""Print a markdown table: one row per registered check from evidence/*.json and seeded/*/meta.json."""
import glob, json, os
V = os.path.dirname(os.path.dirname(os.path.abspath(__file__)))
AUTHOR = {k: 'main' for k in 'C01 C02 C03 C05 C06 C07 C08 C10 C14 C19'.split()}
seeded = {}
for mp in glob.glob(os.path.join(V, 'seeded', '*', 'meta.json')):
    m = json.load(open(mp))
    name = os.path.basename(os.path.dirname(mp))
    for c, v in m.get('detection', {}).items():
        seeded.setdefault(c, []).append((name, v['exit'] == 1, m.get('status', '')))
man = json.load(open(os.path.join(V, 'MANIFEST.json')))
print('| Id | written by | deciding method | quick tier: cases / distinct non-trivial / wall | seeded changes run against it (caught/total) |')
print('|---|---|---|---|---|')
for c in man['checks']:
    pid = c['property_id']
    try:
        ev = json.load(open(os.path.join(V, 'evidence', pid + '.json')))
        cov = ev['coverage']
        q = '%d / %d / %.0f s (%s)' % (cov['evaluations'], cov['distinct_nontrivial'], ev['wall_s'], ev['tier'])
    except Exception:
        q = '-'
    s = seeded.get(pid, [])
    print('| %s | %s | %s | %s | %d/%d |' % (pid, AUTHOR.get(pid, 'builder agent'), c.get('technique', '')[:150], q, sum(1 for x in s if x[1]), len(s)))
