#!/venv/bin/python
"""Diagnostic: do the known-finding predicates swallow other defects? For every kept seeded change of a property that has
listed findings, run the quick tier on the changed tree and compare the per-finding counters with those of the unchanged
tree: a listed mechanism that is reproduced far more often on the changed tree means its predicate also matches the seeded
defect. Usage: tools/known_audit.py [Cnn ...]"""
import json, os, re, subprocess, sys
from concurrent.futures import ThreadPoolExecutor
VERIF = os.path.dirname(os.path.dirname(os.path.abspath(__file__)))

def counters(out):
    return {m.group(1): int(m.group(2)) for m in re.finditer(r'known:([A-Za-z0-9-]+)=(\d+)', out)}

def run(prop, repo=None):
    env = dict(os.environ, VERIF_NO_EVIDENCE='1')
    if repo:
        env['VERIF_REPO'] = repo
    r = subprocess.run([os.path.join(VERIF, 'check'), prop, 'quick', '--jobs', '5'], cwd=VERIF, env=env, capture_output=True, text=True)
    return r.returncode, counters(r.stdout), sum(1 for l in r.stdout.splitlines() if l.startswith('VIOLATION'))

def main():
    kf = json.load(open(os.path.join(VERIF, 'known_findings.json')))
    props = sorted({f['property'] for f in kf['findings']})
    if len(sys.argv) > 1:
        props = [p for p in props if p in sys.argv[1:]]
    base = {p: run(p) for p in props}
    for p in props:
        print(p, 'unchanged tree:', base[p][1], flush=True)
    jobs = []
    for name in sorted(os.listdir(os.path.join(VERIF, 'seeded'))):
        mp = os.path.join(VERIF, 'seeded', name, 'meta.json')
        if os.path.isfile(mp):
            meta = json.load(open(mp))
            if meta['property'] in props and not meta.get('status', '').startswith('neutralised'):
                jobs.append((name, meta['property']))
    slots = list(range(3))
    def one(job):
        name, p = job
        slot = slots.pop()
        wt = '/tmp/knownaudit.%d.%d' % (os.getpid(), slot)
        subprocess.run(['git', '-C', '/repo', 'worktree', 'add', '-q', '--detach', wt, 'HEAD'], check=True)
        try:
            if subprocess.run(['git', 'apply', os.path.join(VERIF, 'seeded', name, 'patch.diff')], cwd=wt).returncode:
                return name, p, None
            return name, p, run(p, wt)
        finally:
            subprocess.run(['git', '-C', '/repo', 'worktree', 'remove', '--force', wt])
            slots.append(slot)
    with ThreadPoolExecutor(3) as ex:
        for name, p, res in ex.map(one, jobs):
            if res is None:
                print(name, 'patch does not apply')
                continue
            code, cnt, nviol = res
            infl = {k: (base[p][1].get(k, 0), v) for k, v in cnt.items() if v > 2 * base[p][1].get(k, 0) + 3}
            print('%-70s exit=%d violations=%d %s' % (name, code, nviol, ('INFLATED ' + str(infl)) if infl else ''), flush=True)

if __name__ == '__main__':
    main()
