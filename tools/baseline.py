#!/venv/bin/python
"""Run the repository's own test suite with the verif guard OFF and compare with /root/.vp/BASELINE.json.
exit 0 iff every stable_pass test passes."""
import json, os, subprocess, sys, tempfile
import xml.etree.ElementTree as ET

def main():
    repo = sys.argv[1] if len(sys.argv) > 1 else '/repo'
    if repo != '/repo':
        inc = '/root/.pyenv/versions/3.12.1/include/python3.12'
        for name, extra in (('csimulator', []), ('ccmiosimulator', ['-DCONTENTION'])):
            subprocess.run(['gcc', '-O2', '-shared', '-fPIC', '-I', inc] + extra + [repo + '/c/csimulator.c', '-o',
                           '%s/skoolkit/%s.cpython-312-x86_64-linux-gnu.so' % (repo, name)], check=True)
    env = dict(os.environ)
    env.pop('SKOOLKIT_VERIF', None)
    env.pop('PYTHONPATH', None)
    out = tempfile.mktemp(suffix='.xml', dir='/verif/.scratch' if os.path.isdir('/verif/.scratch') else None)
    jobs = os.environ.get('BASELINE_JOBS', '8')
    cmd = ['/venv/bin/python', '-m', 'pytest', '-q', '-p', 'no:cacheprovider', '--timeout=900',
           '--continue-on-collection-errors', '--junitxml=' + out]
    if jobs != '0':
        cmd += ['-n', jobs]
    r = subprocess.run(cmd, cwd=repo, env=env, capture_output=True, text=True)
    passed = set()
    for tc in ET.parse(out).getroot().iter('testcase'):
        if not any(c.tag in ('failure', 'error', 'skipped') for c in tc):
            passed.add('%s::%s' % (tc.get('classname'), tc.get('name')))
    os.unlink(out)
    with open('/root/.vp/BASELINE.json') as f:
        stable = set(json.load(f)['stable_pass'])
    missing = sorted(stable - passed)
    if 0 < len(missing) <= 3:
        # load-sensitive tests (timing assertions) are run again on their own before they count as not passing
        for m in list(missing):
            cls, _, name = m.rpartition('::')
            mod, _, klass = cls.rpartition('.')
            node = '%s.py::%s::%s' % (mod.replace('.', '/'), klass, name)
            r2 = subprocess.run(['/venv/bin/python', '-m', 'pytest', '-q', '-p', 'no:cacheprovider', '--timeout=900', node], cwd=repo, env=env, capture_output=True, text=True)
            if r2.returncode == 0:
                missing.remove(m)
                passed.add(m)
                print('  (passed when run again on its own: %s)' % m, file=sys.stderr)
    print('passed=%d stable=%d missing=%d' % (len(passed), len(stable), len(missing)))
    for m in missing[:30]:
        print('  NOT PASSING:', m)
    return 1 if missing else 0

if __name__ == '__main__':
    sys.exit(main())
