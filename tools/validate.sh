#!/bin/bash
# validate MANIFEST.json and every evidence file against the schemas
cd "$(dirname "$0")/.."
python3-vt - <<'P'
import json, jsonschema, glob
jsonschema.validate(json.load(open('MANIFEST.json')), json.load(open('/root/.vp/MANIFEST.schema.json')))
print('MANIFEST ok')
s = json.load(open('/root/.vp/EVIDENCE.schema.json'))
for f in sorted(glob.glob('evidence/*.json')):
    jsonschema.validate(json.load(open(f)), s)
    print(f, 'ok')
P
