#!/venv/bin/python
"""Diagnostic (not a registered check): run a check's quick tier with the workers under coverage.py and print, for the
repository modules named on the command line, the lines the workload never reached.
Usage: tools/coverage_gaps.py <Cnn> <module.py> [<module.py> ...]     (needs /venv's coverage package)"""
import glob
import os
import shutil
import subprocess
import sys
import tempfile

VERIF = os.path.dirname(os.path.dirname(os.path.abspath(__file__)))

def main():
    prop = sys.argv[1]
    mods = sys.argv[2:]
    tier = os.environ.get('TIER', 'quick')
    d = tempfile.mkdtemp(prefix='verifcov.')
    try:
        env = dict(os.environ, VERIF_COVERAGE=d, VERIF_NO_EVIDENCE='1')
        r = subprocess.run([os.path.join(VERIF, 'check'), prop, tier, '--jobs', '8'], cwd=VERIF, env=env, capture_output=True, text=True)
        print(r.stdout.strip().splitlines()[-1])
        import coverage
        cov = coverage.Coverage(data_file=os.path.join(d, 'combined'))
        cov.combine(glob.glob(os.path.join(d, 'cov.*')))
        repo = os.environ.get('VERIF_REPO', '/repo')
        for m in mods:
            fn = os.path.join(repo, 'skoolkit', m)
            try:
                _, stmts, _, missing, mtext = cov.analysis2(fn)
            except Exception as e:
                print(m, 'no data:', e)
                continue
            print('%s: %d statements, %d never executed: %s' % (m, len(stmts), len(missing), mtext))
    finally:
        shutil.rmtree(d, ignore_errors=True)

if __name__ == '__main__':
    main()
