#!/venv/bin/python
"""Diagnostic (not a registered check): run checks' quick tiers with the workers under coverage.py and print, for the
repository modules named on the command line, the functions that contain lines the combined workload never reached.
Usage: tools/coverage_gaps.py <Cnn>[,<Cnn>...] <module.py> [<module.py> ...]     (needs /venv's coverage package)"""
import ast
import glob
import os
import shutil
import subprocess
import sys
import tempfile

VERIF = os.path.dirname(os.path.dirname(os.path.abspath(__file__)))

def functions(fn):
    tree = ast.parse(open(fn).read())
    out = []
    def walk(node, prefix):
        for ch in ast.iter_child_nodes(node):
            if isinstance(ch, (ast.FunctionDef, ast.AsyncFunctionDef, ast.ClassDef)):
                name = prefix + ch.name
                if not isinstance(ch, ast.ClassDef):
                    out.append((ch.lineno, ch.end_lineno, name))
                walk(ch, name + '.')
    walk(tree, '')
    return out

def main():
    props = sys.argv[1].split(',')
    mods = sys.argv[2:]
    tier = os.environ.get('TIER', 'quick')
    d = tempfile.mkdtemp(prefix='verifcov.')
    try:
        env = dict(os.environ, VERIF_COVERAGE=d, VERIF_NO_EVIDENCE='1')
        for prop in props:
            r = subprocess.run([os.path.join(VERIF, 'check'), prop, tier, '--jobs', '8'], cwd=VERIF, env=env, capture_output=True, text=True)
            print(prop, r.stdout.strip().splitlines()[-1])
        import coverage
        cov = coverage.Coverage(data_file=os.path.join(d, 'combined'))
        cov.combine(glob.glob(os.path.join(d, 'cov.*')))
        repo = os.environ.get('VERIF_REPO', '/repo')
        for m in mods:
            fn = os.path.join(repo, 'skoolkit', m)
            try:
                _, stmts, _, missing, mtext = cov.analysis2(fn)
            except Exception as e:
                print(m, 'no data:', e)
                continue
            print('%s: %d statements, %d never executed' % (m, len(stmts), len(missing)))
            miss = set(missing)
            st = set(stmts)
            for lo, hi, name in functions(fn):
                body = [l for l in st if lo < l <= hi]
                mm = sorted(l for l in body if l in miss)
                if mm:
                    print('  %-50s %3d/%3d missing: %s' % (name, len(mm), len(body), 'ALL' if len(mm) == len(body) else ','.join(map(str, mm[:14])) + ('...' if len(mm) > 14 else '')))
    finally:
        shutil.rmtree(d, ignore_errors=True)

if __name__ == '__main__':
    main()
