#!/bin/bash
# tools/try_seeded.sh <patch.diff> <check-id> [tier] ... : apply a seeded change to /repo, run checks, always undo.
patch="$1"; shift
cd /repo || exit 9
if ! git diff --quiet; then echo "/repo has uncommitted changes; refusing"; exit 9; fi
git apply "$patch" || { echo "patch does not apply"; exit 9; }
trap 'git -C /repo checkout -- . ' EXIT
cd /verif
tier="${TIER:-quick}"
for id in "$@"; do
  ./check "$id" "$tier" > /verif/.scratch/seeded.$id.log 2>&1
  rc=$?
  echo "== $id $tier exit=$rc: $(grep -c '^VIOLATION' /verif/.scratch/seeded.$id.log) VIOLATION lines; first: $(grep -A1 -m1 '^VIOLATION' /verif/.scratch/seeded.$id.log | tail -1 | cut -c1-220)"
done
