#!/bin/bash
# tools/try_seeded.sh <patch.diff> <check-id>... : run checks against a seeded change.
# The change is applied to a scratch worktree of /repo HEAD (VERIF_REPO points the checks at it), so /repo itself is
# never modified while other work is running; evidence files are not rewritten (VERIF_NO_EVIDENCE=1).
patch="$1"; shift
wt=/tmp/seedrun.$$
git -C /repo worktree add -q --detach $wt HEAD || exit 9
trap 'git -C /repo worktree remove --force '$wt EXIT
(cd $wt && git apply "$patch") || { echo "patch does not apply"; exit 9; }
cd /verif
tier="${TIER:-quick}"
for id in "$@"; do
  VERIF_REPO=$wt VERIF_NO_EVIDENCE=1 ./check "$id" "$tier" > /verif/.scratch/seeded.$id.$$.log 2>&1
  rc=$?
  echo "== $id $tier exit=$rc: $(grep -c '^VIOLATION' /verif/.scratch/seeded.$id.$$.log) VIOLATION lines; first: $(grep -A1 -m1 '^VIOLATION' /verif/.scratch/seeded.$id.$$.log | tail -1 | cut -c1-220)"
  rm -f /verif/.scratch/seeded.$id.$$.log
done
