#!/bin/bash
# tools/keep_seeded.sh <name> <outdir-with patch.diff+demo> <property> : confirm a seeded change in a scratch worktree
# (demo passes pristine / fails changed; repository tests unchanged) and store it under /verif/seeded/<name>/
name="$1"; out="$2"; prop="$3"
wt=/tmp/seedchk.$$
git -C /repo worktree add -q --detach $wt HEAD || exit 9
trap 'git -C /repo worktree remove --force '$wt EXIT
demo=$(ls $out/demo.py $out/demo.sh 2>/dev/null | head -1)
run_demo() { if [[ $demo == *.py ]]; then (cd $wt && timeout 900 /venv/bin/python $demo $wt); else (cd $wt && timeout 900 bash $demo $wt); fi; }
# the C extension may be needed by the demo
inc=/root/.pyenv/versions/3.12.1/include/python3.12
build() { gcc -O2 -shared -fPIC -I$inc $wt/c/csimulator.c -o $wt/skoolkit/csimulator.cpython-312-x86_64-linux-gnu.so && gcc -O2 -shared -fPIC -DCONTENTION -I$inc $wt/c/csimulator.c -o $wt/skoolkit/ccmiosimulator.cpython-312-x86_64-linux-gnu.so; }
build
run_demo > /tmp/seedchk.$$.pristine.log 2>&1; r0=$?
(cd $wt && git apply $out/patch.diff) || { echo "patch does not apply"; exit 9; }
build
run_demo > /tmp/seedchk.$$.changed.log 2>&1; r1=$?
tests=$(/verif/tools/baseline.py $wt | head -1)
echo "demo pristine exit=$r0 changed exit=$r1 ; tests: $tests"
if [ $r0 -eq 0 ] && [ $r1 -ne 0 ] && [[ "$tests" == *"missing=0"* ]]; then
  mkdir -p /verif/seeded/$name
  cp $out/patch.diff /verif/seeded/$name/
  cp $demo /verif/seeded/$name/
  [ -f $out/notes.md ] && cp $out/notes.md /verif/seeded/$name/
  cat > /verif/seeded/$name/meta.json <<J
{"property": "$prop", "name": "$name", "confirmed": {"demo_pristine_exit": $r0, "demo_changed_exit": $r1, "repo_tests": "$tests"},
 "ran": "tools/keep_seeded.sh in a scratch worktree of /repo HEAD ($(git -C /repo rev-parse --short HEAD)); demo run before and after git apply; tools/baseline.py on the changed tree",
 "needs_to_manifest": "see notes.md", "detected_by": []}
J
  echo KEPT /verif/seeded/$name
else
  echo "NOT KEPT"; tail -5 /tmp/seedchk.$$.pristine.log; tail -5 /tmp/seedchk.$$.changed.log
fi
rm -f /tmp/seedchk.$$.*.log
