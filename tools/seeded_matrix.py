#!/venv/bin/python
"""Apply every kept seeded change to /repo in turn (git apply; always undone), run the quick tier of the check for its
property (plus any extra checks named on the command line as NAME:Cxx,Cyy), and record the outcome in meta.json and
seeded/MATRIX.md. Usage: tools/seeded_matrix.py [only-name-substring]"""
import json
import os
import subprocess
import sys

VERIF = os.path.dirname(os.path.dirname(os.path.abspath(__file__)))
EXTRA = {'C01-lower-xycb-variant-lost': ['C02'], 'C02-quote-escape-bit7': ['C01'], 'C05-c-sbc-hl-carry-ffff': ['C06'],
         'C06-c-add-ixiy-contention-pattern': ['C19'], 'C07-fd2e-decode-size': ['C14'], 'C09-snapmod-move-top': [], 'C10-szx-fffd-masked': ['C09']}

def main():
    only = sys.argv[1] if len(sys.argv) > 1 else ''
    with open(os.path.join(VERIF, 'vk', 'registered.txt')) as f:
        registered = set(f.read().split())
    rows = []
    for name in sorted(os.listdir(os.path.join(VERIF, 'seeded'))):
        d = os.path.join(VERIF, 'seeded', name)
        mp = os.path.join(d, 'meta.json')
        if not os.path.isfile(mp) or only not in name:
            continue
        meta = json.load(open(mp))
        checks = [c for c in [meta['property']] + EXTRA.get(name, []) if c in registered]
        results = meta.get('detection', {})
        if meta.get('status', '').startswith('neutralised'):
            rows.append((name, meta['property'], 'neutralised by a later fix', ''))
            continue
        wt = '/tmp/seedmatrix.%d' % os.getpid()
        subprocess.run(['git', '-C', '/repo', 'worktree', 'add', '-q', '--detach', wt, 'HEAD'], check=True)
        try:
            if subprocess.run(['git', 'apply', os.path.join(d, 'patch.diff')], cwd=wt).returncode:
                rows.append((name, meta['property'], 'patch no longer applies', ''))
                continue
            env = dict(os.environ, VERIF_REPO=wt, VERIF_NO_EVIDENCE='1')
            for c in checks:
                r = subprocess.run([os.path.join(VERIF, 'check'), c, 'quick'], capture_output=True, text=True, cwd=VERIF, env=env)
                first = ''
                lines = r.stdout.splitlines()
                for i, l in enumerate(lines):
                    if l.startswith('VIOLATION'):
                        first = (lines[i + 1] if i + 1 < len(lines) else '').strip()[:160]
                        break
                results[c] = {'exit': r.returncode, 'violation_lines': sum(1 for l in lines if l.startswith('VIOLATION')), 'first': first}
                print(name, c, 'exit', r.returncode, first[:100], flush=True)
        finally:
            subprocess.run(['git', '-C', '/repo', 'worktree', 'remove', '--force', wt])
        meta['detection'] = results
        meta['detected_by'] = sorted(c for c, v in results.items() if v['exit'] == 1)
        json.dump(meta, open(mp, 'w'), indent=1)
        rows.append((name, meta['property'], ', '.join('%s:%s' % (c, 'caught' if v['exit'] == 1 else 'MISSED(exit %d)' % v['exit']) for c, v in sorted(results.items())) or 'no registered check yet',
                     results.get(meta['property'], {}).get('first', '')))
    # restore evidence from the unchanged tree for the checks we ran
    with open(os.path.join(VERIF, 'seeded', 'MATRIX.md'), 'w') as f:
        f.write('# Seeded property-breaking changes vs. checks (quick tier)\n\nEach change was written by an independent sub-agent from the property text only, '
                'confirmed in a scratch worktree (demo passes on the pristine tree, fails with the change, repository tests unchanged) and is applied to /repo only for the duration of a run.\n\n')
        f.write('| change | property | result | first report |\n|---|---|---|---|\n')
        for r in rows:
            f.write('| %s | %s | %s | %s |\n' % (r[0], r[1], r[2], r[3].replace('|', '/')))
    print('wrote seeded/MATRIX.md')
    return 0

if __name__ == '__main__':
    sys.exit(main())
