#!/venv/bin/python
"""Apply every kept seeded change to a scratch worktree of /repo HEAD in turn, run the quick tier of the check for its
property (plus the extra checks in EXTRA) with VERIF_REPO pointing at that worktree, and record the outcome in meta.json
and seeded/MATRIX.md. /repo itself is never modified. Usage: tools/seeded_matrix.py [only-name-substring] [--jobs N]"""
import json
import os
import subprocess
import sys
from concurrent.futures import ThreadPoolExecutor

VERIF = os.path.dirname(os.path.dirname(os.path.abspath(__file__)))
EXTRA = {'C01-lower-xycb-variant-lost': ['C02'], 'C02-quote-escape-bit7': ['C01'], 'C05-c-sbc-hl-carry-ffff': ['C06'],
         'C06-c-add-ixiy-contention-pattern': ['C19'], 'C07-fd2e-decode-size': ['C14'], 'C09-snapmod-move-top': [], 'C10-szx-fffd-masked': ['C09'],
         'C10-pagingtracer-plus2a-decode-diverges-from-c': ['C08'], 'C01-jr-displacement-0x80-read-as-plus-128': ['C02', 'C07'], 'C18-skool2ctl-prev-ctl-not-reset-after-mixed-group': ['C03'],
         'C05-ldir-fast-flags-from-destination-byte': ['C06'], 'C08-ldir-fast-rom-guard-includes-3fff': ['C06'], 'C19-pycmio-cpir-match-keeps-repeat-cycles': ['C06'],
         'C13-fast-load-rom-guard-tested-on-unwrapped-address': [], 'C09-szx-128k-tstates-modulo-48k-frame': ['C10'], 'C10-szx-128k-tstates-wrapped-at-48k-frame': ['C09'],
         'C10-z80-short-ed-run-before-other-byte-dropped': ['C09'], 'C08-c-cpi-memptr-wrap-before-increment': ['C06']}

def one(name, registered, slot):
    d = os.path.join(VERIF, 'seeded', name)
    mp = os.path.join(d, 'meta.json')
    meta = json.load(open(mp))
    if meta.get('status', '').startswith('neutralised'):
        return (name, meta['property'], 'neutralised by a later fix', '')
    checks = [c for c in [meta['property']] + EXTRA.get(name, []) if c in registered]
    results = {}
    wt = '/tmp/seedmatrix.%d.%d' % (os.getpid(), slot)
    subprocess.run(['git', '-C', '/repo', 'worktree', 'add', '-q', '--detach', wt, 'HEAD'], check=True)
    try:
        if subprocess.run(['git', 'apply', os.path.join(d, 'patch.diff')], cwd=wt).returncode:
            return (name, meta['property'], 'patch no longer applies', '')
        env = dict(os.environ, VERIF_REPO=wt, VERIF_NO_EVIDENCE='1')
        for c in checks:
            r = subprocess.run([os.path.join(VERIF, 'check'), c, 'quick', '--jobs', '6'], capture_output=True, text=True, cwd=VERIF, env=env)
            first = ''
            lines = r.stdout.splitlines()
            for i, l in enumerate(lines):
                if l.startswith('VIOLATION'):
                    first = (lines[i + 1] if i + 1 < len(lines) else '').strip()[:160]
                    break
            results[c] = {'exit': r.returncode, 'violation_lines': sum(1 for l in lines if l.startswith('VIOLATION')), 'first': first}
            print(name, c, 'exit', r.returncode, first[:100], flush=True)
    finally:
        subprocess.run(['git', '-C', '/repo', 'worktree', 'remove', '--force', wt])
    meta['detection'] = results
    meta['detected_by'] = sorted(c for c, v in results.items() if v['exit'] == 1)
    json.dump(meta, open(mp, 'w'), indent=1)
    return (name, meta['property'], ', '.join('%s:%s' % (c, 'caught' if v['exit'] == 1 else 'MISSED(exit %d)' % v['exit']) for c, v in sorted(results.items())) or 'no registered check yet',
            results.get(meta['property'], {}).get('first', '') or meta.get('note', ''))

def main():
    args = sys.argv[1:]
    jobs = 3
    if '--jobs' in args:
        i = args.index('--jobs')
        jobs = int(args[i + 1])
        del args[i:i + 2]
    only = args[0] if args else ''
    with open(os.path.join(VERIF, 'vk', 'registered.txt')) as f:
        registered = set(f.read().split())
    names = [n for n in sorted(os.listdir(os.path.join(VERIF, 'seeded'))) if os.path.isfile(os.path.join(VERIF, 'seeded', n, 'meta.json'))]
    todo = [n for n in names if any(o in n for o in only.split(','))]   # comma-separated substrings
    slots = list(range(jobs))
    def run(n):
        slot = slots.pop()
        try:
            return one(n, registered, slot)
        finally:
            slots.append(slot)
    with ThreadPoolExecutor(jobs) as ex:
        done = dict(zip(todo, ex.map(run, todo)))
    rows = []
    for n in names:
        if n in done:
            rows.append(done[n])
            continue
        meta = json.load(open(os.path.join(VERIF, 'seeded', n, 'meta.json')))
        res = meta.get('detection', {})
        rows.append((n, meta['property'], 'neutralised by a later fix' if meta.get('status', '').startswith('neutralised') else
                     (', '.join('%s:%s' % (c, 'caught' if v['exit'] == 1 else 'MISSED(exit %d)' % v['exit']) for c, v in sorted(res.items())) or 'not run yet'),
                     res.get(meta['property'], {}).get('first', '') or meta.get('note', '')))
    with open(os.path.join(VERIF, 'seeded', 'MATRIX.md'), 'w') as f:
        f.write('# Seeded property-breaking changes vs. checks (quick tier)\n\nEach change was written by an independent sub-agent from the property text only, '
                'confirmed in a scratch worktree (demo passes on the pristine tree, fails with the change, repository tests unchanged) and is applied only to a scratch worktree for the duration of a run.\n\n')
        f.write('| change | property | result | first report |\n|---|---|---|---|\n')
        for r in rows:
            f.write('| %s | %s | %s | %s |\n' % (r[0], r[1], r[2], r[3].replace('|', '/')))
    print('wrote seeded/MATRIX.md')
    return 0

if __name__ == '__main__':
    sys.exit(main())
