#!/venv/bin/python
"""Regenerate /verif/MANIFEST.json from the property modules that exist under vk/props (run after adding one)."""
import importlib
import json
import os
import subprocess
import sys

VERIF = os.path.dirname(os.path.dirname(os.path.abspath(__file__)))
sys.path.insert(0, VERIF)

def main():
    ids = []
    with open(os.path.join(VERIF, 'properties.jsonl')) as f:
        for line in f:
            if line.strip():
                ids.append(json.loads(line)['id'])
    checks = []
    na = []
    with open(os.path.join(VERIF, 'vk', 'registered.txt')) as f:
        registered = set(f.read().split())
    for pid in ids:
        path = os.path.join(VERIF, 'vk', 'props', pid.lower() + '.py')
        if not os.path.isfile(path) or pid not in registered:
            na.append({'property_id': pid, 'reason': 'no check registered yet: the monitor for this property is designed in DESIGN.md section 2 but is not implemented/validated in this tree (runtime monitoring does apply to it)'})
            continue
        mod = importlib.import_module('vk.props.' + pid.lower())
        if getattr(mod, 'NOT_REGISTERED', None):
            na.append({'property_id': pid, 'reason': mod.NOT_REGISTERED})
            continue
        checks.append({
            'property_id': pid,
            'quick_cmd': './check %s quick' % pid,
            'thorough_cmd': './check %s thorough' % pid,
            'evidence_file': 'evidence/%s.json' % pid,
            'replay_cmd_template': './check %s --replay {path}' % pid,
            'engine': 'vk',
            'level_claimed': {
                'category': getattr(mod, 'LEVEL', 'exploration'),
                'text': mod.LEVEL_TEXT,
                'design_ref': 'DESIGN.md section 2, ' + pid,
            },
            'level_note': mod.LEVEL_NOTE,
            'technique': mod.TECHNIQUE,
        })
    commits = subprocess.run(['git', '-C', '/repo', 'log', '--format=%h %s', 'ae59a6a..HEAD'], capture_output=True, text=True).stdout.splitlines()
    hook_commits = [c.split()[0] for c in commits if not c.split(' ', 1)[1].startswith('fix:')]
    manifest = {
        'version': 1,
        'setup_cmd': './setup.sh',
        'hooks': {
            'guard': 'SKOOLKIT_VERIF',
            'enable': 'No source hooks are needed so far: every monitor attaches from outside (wrappers on the real functions, '
                      'stepping the real simulators, sys.addaudithook, sanitizer builds of c/csimulator.c made by vk/build.py). '
                      'Workers export SKOOLKIT_VERIF=1 and the harness builds pass -DSKOOLKIT_VERIF=1 so that a guarded hook, if one is ever added, is compiled in only there.',
            'baseline_off_cmd': '/verif/tools/baseline.py',
            'source_commits': hook_commits,
            'add_only': True,
        },
        'engines': [{
            'name': 'vk',
            'path': 'vk/',
            'serves_properties': [c['property_id'] for c in checks],
            'kind_free_text': 'runtime monitoring: sharded workloads drive the real code (in-process tool entry points, real simulator objects, '
                              'gcc and clang ASan/UBSan builds of the C extension rebuilt from the working tree); online monitors and offline '
                              'oracles (round-trip identity, differential comparison, executable reference models) decide recorded executions',
        }],
        'checks': checks,
        'not_applicable': na,
        'notes': 'Exit codes: 0 held on what was observed; 1 VIOLATION (replay file written); 2 INCONCLUSIVE (never folded into held). '
                 'Known findings: known_findings.json (mechanism-keyed; fixed entries suppress nothing). Seeded property-breaking changes used to '
                 'validate the monitors are under seeded/.',
    }
    with open(os.path.join(VERIF, 'MANIFEST.json'), 'w') as f:
        json.dump(manifest, f, indent=1)
        f.write('\n')
    # validate
    try:
        sys.path.insert(0, '/opt/veriftools/pyvenv/lib/python3.11/site-packages')
        import jsonschema
        with open('/root/.vp/MANIFEST.schema.json') as f:
            jsonschema.validate(manifest, json.load(f))
        print('MANIFEST.json valid: %d checks, %d not_applicable' % (len(checks), len(na)))
    except ImportError:
        print('MANIFEST.json written (jsonschema not importable here)')

if __name__ == '__main__':
    main()
