"""python -m vk.worker <prop> <tier> <seed> <index> <count> <specfile> <outfile>"""
import importlib
import json
import os
import sys
import traceback

def main(argv):
    prop, tier, seed, index, count, specfile, outfile = argv
    seed, index, count = int(seed), int(index), int(count)
    with open(specfile) as f:
        spec = json.load(f)
    from vk import boot, harness
    mod = importlib.import_module('vk.props.' + prop.lower())
    boot.init(flavour=spec.get('flavour', 'plain'), use_c=getattr(mod, 'NEEDS_C', False))
    if getattr(mod, 'NEEDS_C', False) and boot.c_build_error():
        with open(outfile, 'w') as f:
            json.dump({'build_error': boot.c_build_error()}, f)
        return 4
    shard = harness.Shard(prop, tier, seed, index, count, spec)
    if spec.get('budget_s'):
        shard.set_budget(spec['budget_s'])
    status = 0
    try:
        if 'replay' in spec:
            mod.replay(shard, spec['replay'])
        else:
            mod.run(shard, spec)
    except Exception:
        res = shard.result()
        res['worker_exception'] = traceback.format_exc()
        with open(outfile, 'w') as f:
            json.dump(res, f)
        return 3
    with open(outfile, 'w') as f:
        json.dump(shard.result(), f)
    return status

def main_with_coverage(argv):
    # diagnostic only (tools/coverage_gaps.py): which lines of the repository's modules does this workload reach?
    import coverage
    from vk import paths
    d = os.environ['VERIF_COVERAGE']
    cov = coverage.Coverage(data_file=os.path.join(d, 'cov.%d' % os.getpid()), include=[os.path.join(paths.REPO, 'skoolkit', '*')], branch=True)
    cov.start()
    try:
        return main(argv)
    finally:
        cov.stop()
        cov.save()

if __name__ == '__main__':
    sys.exit(main_with_coverage(sys.argv[1:]) if os.environ.get('VERIF_COVERAGE') else main(sys.argv[1:]))
