"""C08 - simulated code cannot corrupt ROM, break register ranges or mis-page 128K RAM.

Monitors: (1) an invariant evaluated after every step of each of the four real simulators (register ranges, T
monotonic, ROM unchanged, stored values in 0..255, 128K mapping identities of the Memory object);
(2) a store-guard matrix: every opcode slot with every pointer aimed at the ROM/RAM boundary addresses;
(3) paging histories made unambiguous with bank tags and unique ids, decided by a 15-line sequential model of
port 0x7FFD, through real OUT/LD instructions on all implementations (and skoolutils.Memory);
(4) the same workloads under the clang ASan+UBSan build (out-of-range address in C = out-of-bounds access).
"""
from vk import harness, sims
from vk.gens import proggen
from vk.ref import paging

ID = 'C08'
NEEDS_C = True
LEVEL = 'exploration'
EXHAUSTIVE = False
EXHAUSTIVE_NOTE = 'paging histories of length <= 2 over all 256x256 values on port 0x7FFD are enumerated completely for every implementation (all four simulators + the skool-macro Memory/PagingTracer pair)'
RULE = ('(prog) random programs as in C06, each implementation stepped alone with the invariant evaluated after every step; (guard) every opcode slot x pointer '
        'targets {0x0000,0x3FFE,0x3FFF,0x4000,0xFFFF} x 4 implementations; (hist) every 0x7FFD history of length<=2 (65536) plus random length-3 histories on '
        'matching/non-matching ports through OUT (C),r / OUT (n),A / OUTI, with tagged banks, ROM probes and unique-id stores through all four 16K slots. '
        'A case is non-trivial when at least one store or port write was observed; distinct by (part, inputs)')
ASSUMPTIONS = ['the 0x7FFD model: a write is accepted iff (port & 0x8002)==0 and bit 5 of the last accepted value is clear; bank = value&7 at 0xC000, ROM = (value>>4)&1',
               'C-internal mapping state is observed only through executed loads/stores and the shared bank buffers']
MIN_NONTRIVIAL = {'quick': 20000, 'thorough': 200000}

def plan(tier, seed):
    specs = []
    q = tier == 'quick'
    for i in range(4):
        specs.append({'part': 'prog', 'shard': i, 'of': 4, 'timeout': 600 if q else 14000, 'budget_s': 80 if q else 2400})
    for i in range(2):
        specs.append({'part': 'guard', 'shard': i, 'of': 2, 'timeout': 600 if q else 14000, 'budget_s': 80 if q else 2400})
    kinds = ['py', 'pycmio', 'c', 'ccmio', 'py-skoolutils']
    for k in kinds:
        nsh = 2 if k.startswith('py') else 1
        for i in range(nsh):
            specs.append({'part': 'hist', 'kind': k, 'shard': i, 'of': nsh, 'timeout': 900 if q else 14000, 'budget_s': 240 if q else 6000})
    specs.append({'part': 'hist3', 'shard': 0, 'of': 1, 'timeout': 600 if q else 14000, 'budget_s': 80 if q else 2400})
    # sanitizer build: guard matrix and a slice of the histories
    specs.append({'part': 'guard', 'shard': 0, 'of': 1, 'flavour': 'asan', 'only_c': True, 'timeout': 900 if q else 14000, 'budget_s': 100 if q else 2400})
    specs.append({'part': 'hist3', 'shard': 0, 'of': 1, 'flavour': 'asan', 'only_c': True, 'timeout': 900 if q else 14000, 'budget_s': 60 if q else 2400})
    specs.append({'part': 'prog', 'shard': 0, 'of': 1, 'flavour': 'asan', 'only_c': True, 'scale': 0.1, 'timeout': 900 if q else 14000, 'budget_s': 60 if q else 2400})
    return specs

# ------------------------------------------------------------------ the invariant

def reg_invariant(before, after):
    """Returns None or text. before/after: 30-slot lists."""
    for i in list(range(0, 12)) + [14, 15] + list(range(16, 24)):
        if not 0 <= after[i] <= 255:
            return '8-bit register %s = %d' % (sims.REGNAMES[i], after[i])
    for i in (12, 24, 29):
        if not 0 <= after[i] <= 65535:
            return '%s = %d' % (sims.REGNAMES[i], after[i])
    if after[26] not in (0, 1):
        return 'IFF = %d' % after[26]
    if after[27] not in (0, 1, 2):
        return 'IM = %d' % after[27]
    if after[28] not in (0, 1):
        return 'HALT = %d' % after[28]
    if after[25] < before[25]:
        return 'T-state clock went backwards: %d -> %d' % (before[25], after[25])
    return None

def mapping_invariant(memory):
    """128K Memory object: identities of the four slots."""
    o = memory.o7ffd
    m = memory.memory
    if m[1] is not memory.banks[5]:
        return 'slot 1 is not bank 5'
    if m[2] is not memory.banks[2]:
        return 'slot 2 is not bank 2'
    if m[3] is not memory.banks[o & 7]:
        return 'slot 3 is not bank %d (o7ffd=%d)' % (o & 7, o)
    if m[0] is not memory.roms[(o >> 4) & 1]:
        return 'slot 0 is not ROM %d (o7ffd=%d)' % ((o >> 4) & 1, o)
    return None

# ------------------------------------------------------------------ part prog

def run_prog(shard, spec):
    from vk.props import c06
    n = int((600 if shard.tier == 'quick' else 20000) * spec.get('scale', 1))
    kinds = ('c', 'ccmio') if spec.get('only_c') else sims.KINDS
    for case in range(spec['shard'], n, spec['of']):
        rng = shard.rng('prog', case)
        is128 = rng.random() < 0.4
        image, regs, o7ffd, org, code = c06.make_program(rng, is128)
        for kind in kinds:
            m = sims.Machine(kind, image, regs, o7ffd, True, case, logmem=True)
            mem = m.sim.memory
            if is128:
                rom_ref = (bytes(mem.roms[0]), bytes(mem.roms[1]))
            else:
                rom_ref = bytes(image[:0x4000])
            model = paging.Model(o7ffd) if is128 else None
            nst = 0
            for step in range(200):
                before = m.regs
                pc = before[24]
                if m.tracer:
                    m.tracer.events.clear()
                if not is128 and kind in ('py', 'pycmio'):
                    mem.log.clear()
                try:
                    m.step()
                except Exception as e:
                    shard.violation('%s raised %r at PC=%d' % (kind, e, pc), {'part': 'prog', 'case': case, 'kind': kind})
                    break
                after = m.regs
                shard.inc('monitor:invariant_evaluations')
                err = reg_invariant(before, after)
                if err is None and not is128:
                    if kind in ('py', 'pycmio'):
                        for a, v in mem.log:
                            nst += 1
                            if not (isinstance(v, int) and 0 <= v <= 255):
                                err = 'memory[%d] = %r' % (a, v)
                            elif a < 0x4000:
                                err = 'store to ROM address %d' % a
                    if err is None and kind in ('c', 'ccmio') and mem[:0x4000] != rom_ref:
                        err = 'ROM area modified'
                if err is None and is128:
                    for ev in m.tracer.events:
                        if ev[0] == 'out':
                            model.out(ev[1], ev[2])
                    if mem.o7ffd != model.value:
                        err = 'o7ffd is %d, the last accepted write was %d (port events %r)' % (mem.o7ffd, model.value, m.tracer.events)
                    elif kind in ('py', 'pycmio'):
                        err = mapping_invariant(mem)
                    if err is None and (step % 16 == 15 or step == 199):
                        if (bytes(mem.roms[0]), bytes(mem.roms[1])) != rom_ref:
                            err = '128K ROM modified'
                if err:
                    shard.violation('%s after the instruction at %d (%s): %s' % (kind, pc, bytes(code[:0]).hex() or '..', err),
                                    {'part': 'prog', 'case': case, 'kind': kind, 'step': step, 'flavour': spec.get('flavour', 'plain')})
                    break
            shard.case(('prog', case, kind), True, sample={'machine': '128K' if is128 else '48K', 'kind': kind, 'org': org, 'stores_seen': nst} if case < 1 else None)
        if shard.out_of_time():
            shard.inc('stopped_on_budget')
            break

# ------------------------------------------------------------------ part guard: store-guard matrix

TARGETS = [0x0000, 0x3FFE, 0x3FFF, 0x4000, 0xFFFF, 0x3FFD, 0x0001]

def guard_fast_paths(shard, rom, rom_b):
    """The Python simulator's block-copy and delay-loop shortcuts (fast_ldir / fast_djnz: trace.py without -v/-m/-M, #SIM):
    one run() may make thousands of stores; the copy is driven through and around the ROM/RAM boundary and the wrap."""
    from skoolkit import simutils
    from skoolkit.simulator import Simulator
    base = rom + [0] * 0xC000
    for i in range(0xC000):
        base[0x4000 + i] = (i * 11 + 5) & 0xFF
    edges = [0x3FF0, 0x3FFD, 0x3FFE, 0x3FFF, 0x4000, 0x4001, 0x0000, 0xFFFF, 0xFFF8]
    n = 0
    for inc, op in ((1, 0xB0), (-1, 0xB8)):
        for de0 in edges:
            for bc in (1, 2, 3, 17, 0x41):
                for hl0 in (0x8000, 0x0000, 0x3FFE, (de0 - inc) & 0xFFFF, 0xFFFE):
                    for iff in (0, 1):
                        mem = sims.LogMem(base)
                        mem.log = []
                        sim = simutils.from_memory(Simulator, mem, config={'fast_djnz': True, 'fast_ldir': True})
                        regs = [0x5A] * 30
                        de = (de0 - inc * (bc // 2)) & 0xFFFF            # the boundary is crossed in the middle of the copy
                        regs[2], regs[3], regs[4], regs[5], regs[6], regs[7] = bc >> 8, bc & 0xFF, de >> 8, de & 0xFF, hl0 >> 8, hl0 & 0xFF
                        regs[12], regs[13], regs[24], regs[25], regs[26], regs[27], regs[28] = 0x9000, 0, 0xA000, 1000, iff, 1, 0
                        list.__setitem__(mem, 0xA000, 0xED)
                        list.__setitem__(mem, 0xA001, op)
                        sims.set_regs(sim, regs)
                        before = list(regs)
                        try:
                            sim.run()
                        except Exception as e:
                            shard.violation('fast Python simulator raised %r on ED%02X with DE=%d BC=%d HL=%d' % (e, op, de, bc, hl0), {'part': 'guard', 'fast': [op, de, bc, hl0, iff]})
                            continue
                        n += 1
                        err = reg_invariant(before, list(sim.registers))
                        for a, v in mem.log:
                            if not (isinstance(v, int) and 0 <= v <= 255):
                                err = 'memory[%d] = %r' % (a, v)
                            if a < 0x4000:
                                err = 'ROM modified at [%d]' % a
                        if bytes(mem[:0x4000]) != rom_b:
                            err = 'ROM modified at %s' % [a for a in range(0x4000) if mem[a] != rom[a]][:4]
                        if err:
                            shard.violation('fast Python simulator (fast_ldir): %s after one run() of ED%02X with DE=%d BC=%d HL=%d IFF=%d' % (err, op, de, bc, hl0, iff),
                                            {'part': 'guard', 'fast': [op, de, bc, hl0, iff]})
                        shard.case(('guard-fast', op, de0, bc, hl0, iff), True)
    shard.inc('monitor:fast_path_guard_runs', n)

def guard_interrupts(shard, spec, kinds, machine, ms, rom, rom_b):
    """The push made when a maskable interrupt is accepted, with SP on and around the ROM/RAM boundary and the wrap: through
    the accept_interrupt() API and through run(start, stop, interrupts=True) with the clock at the start of a frame."""
    from skoolkit.pagingtracer import Memory
    sps = [0x0000, 0x0001, 0x0002, 0x0003, 0x3FFE, 0x3FFF, 0x4000, 0x4001, 0x4002, 0xFFFF, 0x8000]
    for kind in kinds:
        m = machine(kind)
        mem = m.sim.memory
        logged = kind in ('py', 'pycmio')
        for sp in sps:
            for im in (0, 1, 2):
                for ireg in (0x00, 0x3F, 0x80, 0xFF):           # IM 2 vector table in ROM, RAM, at the wrap
                    for route in ('api', 'run'):
                        for pc in (0x8000, 0x9ABC, 0xFFFF):
                            regs = [0x5A] * 30
                            regs[12], regs[13], regs[14], regs[15] = sp, 0, ireg, 0x7F
                            regs[26], regs[27], regs[28], regs[29] = 1, im, 0, 0
                            if route == 'api':
                                regs[24], regs[25] = pc, 3
                                mem[0x7000] = 0x00
                            else:
                                regs[24], regs[25] = pc, 69888 * 3 - 4       # the NOP ends exactly at the frame boundary
                                mem[pc] = 0x00
                            if logged:
                                mem.log.clear()
                            sims.set_regs(m.sim, regs)
                            before = list(regs)
                            try:
                                if route == 'api':
                                    took = m.sim.accept_interrupt(m.sim.registers, mem, 0x7000)
                                else:
                                    if im == 2:
                                        va = 256 * ireg + 255
                                        stop = mem[va] + 256 * mem[(va + 1) & 0xFFFF]
                                    else:
                                        stop = 56
                                    with harness.time_limit(20):
                                        m.sim.run(pc, stop, True)      # stops on arrival at the interrupt routine
                                    took = None
                            except harness.CaseTimeout:
                                shard.violation('%s: run(%d, %d, interrupts=True) did not reach the interrupt routine (SP=%d IM=%d I=%d)' % (kind, pc, stop, sp, im, ireg),
                                                {'part': 'guard', 'interrupt': [sp, im, ireg, route, pc], 'kind': kind})
                                ms.pop(kind, None)
                                m = machine(kind)
                                mem = m.sim.memory
                                continue
                            except Exception as e:
                                shard.violation('%s raised %r accepting an interrupt (%s) with SP=%d IM=%d I=%d' % (kind, e, route, sp, im, ireg),
                                                {'part': 'guard', 'interrupt': [sp, im, ireg, route, pc], 'kind': kind})
                                continue
                            after = m.regs
                            shard.inc('monitor:interrupt_pushes')
                            err = reg_invariant(before, after)
                            if route == 'api' and not took:
                                err = err or 'accept_interrupt refused although the previous instruction was a NOP'
                            if after[12] == (sp - 2) & 0xFFFF:
                                shard.inc('observed:interrupt_accepted_sp_moved')
                            if logged:
                                for a, v in mem.log:
                                    if not (isinstance(v, int) and 0 <= v <= 255):
                                        err = 'memory[%d] = %r' % (a, v)
                                    if a < 0x4000:
                                        err = 'ROM modified at [%d]' % a
                            else:
                                romnow = mem[:0x4000]
                                if romnow != rom_b:
                                    err = 'ROM modified at %s' % [a for a in range(0x4000) if romnow[a] != rom_b[a]][:4]
                            if err:
                                shard.violation('%s: %s after accepting an interrupt (%s) with SP=%d IM=%d I=%d PC=%d' % (kind, err, route, sp, im, ireg, pc),
                                                {'part': 'guard', 'interrupt': [sp, im, ireg, route, pc], 'kind': kind, 'flavour': spec.get('flavour', 'plain')})
                                for a in range(0x4000):
                                    if logged:
                                        list.__setitem__(mem, a, rom[a])
                                    else:
                                        mem[a] = rom[a]
                            for a in (sp - 2, sp - 1, sp, pc, 0x7000):
                                if a & 0xFFFF >= 0x4000:
                                    mem[a & 0xFFFF] = 0
                            if logged:
                                mem.log.clear()
                            shard.case(('guard-int', kind, sp, im, ireg, route, pc), True)

def run_guard(shard, spec):
    from vk.props.c07 import sequences
    seqs = list(sequences())
    kinds = ('c', 'ccmio') if spec.get('only_c') else sims.KINDS
    zero = [0] * 65536
    rom = [(i * 7 + 3) & 0xFF for i in range(0x4000)]
    base = rom + [0] * 0xC000
    rom_b = bytes(rom)
    ms = {}
    def machine(kind):
        if kind not in ms:
            ms[kind] = sims.Machine(kind, base, [0] * 30, 0, True, 0, logmem=True)
        return ms[kind]
    storing = set()
    if spec['shard'] == 0:
        guard_interrupts(shard, spec, kinds, machine, ms, rom, rom_b)
    if spec['shard'] == 1 % spec['of'] and not spec.get('only_c'):
        guard_fast_paths(shard, rom, rom_b)
    for ci, (table, seq) in enumerate(seqs):
        if ci % spec['of'] != spec['shard']:
            continue
        for ti, tgt in enumerate(TARGETS):
            for variant in range(2 if ti else 14):
                rng = shard.rng('guard', ci, ti, variant)
                d = rng.choice([0, 1, 0x7F, 0x80, 0xFF]) if variant else 0
                ds = d - 256 if d > 127 else d
                b = list(seq)
                # operand bytes: displacement d (for indexed forms), or the target as a word operand
                filled = []
                opi = 0
                for x in b:
                    if x is None:
                        filled.append(d)
                    else:
                        filled.append(x)
                b = filled
                if table in ('DD', 'FD') and b[1] != 0xCB:
                    b += [d, rng.randrange(256)]
                else:
                    b += [tgt & 0xFF, tgt >> 8]
                b += [0, 0]
                # a second form for (nn) operands following a prefix: ED/DD/FD xx lo hi
                if variant and table in ('ED', 'DD', 'FD'):
                    b[2], b[3] = tgt & 0xFF, tgt >> 8
                addr = 0x8000
                regs = [0x5A] * 30
                ptr = tgt
                regs[2], regs[3] = ptr >> 8, ptr & 0xFF          # BC
                regs[4], regs[5] = ptr >> 8, ptr & 0xFF          # DE
                regs[6], regs[7] = ptr >> 8, ptr & 0xFF          # HL
                ix = (tgt - ds) & 0xFFFF
                regs[8], regs[9] = ix >> 8, ix & 0xFF
                regs[10], regs[11] = ix >> 8, ix & 0xFF
                # SP: pushes store at SP-1, SP-2; EX (SP) stores at SP, SP+1
                regs[12] = (tgt + rng.choice([0, 1, 2])) & 0xFFFF if variant else tgt
                regs[13] = 0
                regs[14] = 0x80
                regs[24] = addr
                regs[25] = 1000
                regs[26], regs[27], regs[28] = 1, 1, 0
                regs[29] = 0
                if variant and (b[0] in (0xED,) and b[1] & 0xF4 == 0xB0):
                    regs[2], regs[3] = 0, 2       # repeating block instruction: BC=2
                if variant >= 2:
                    # arithmetic boundary states (range of every register after the step), and placements at the top
                    # of memory (PC must wrap to 0..65535); variants 8..13 repeat the placements with the stack in RAM
                    # (a return address pushed from the top of memory must be two bytes in 0..255) and other fills
                    v6 = (variant - 2) % 6
                    high = variant >= 8
                    fillv = ([0x00, 0x7F, 0xFF, 0x80, 0x01, 0x00] if high else [0xFF, 0x80, 0x00, 0x01, 0x7F, 0xFF])[v6]
                    for i in range(24):
                        if i not in (12, 13):
                            regs[i] = fillv
                    regs[12] = ([0x8000, 0x7FFF, 0x8001, 0x8000, 0xC000, 0x5B00] if high else [0xFFFF, 0x8000, 0x0000, 0x0001, 0x7FFF, 0xFFFE])[v6]
                    if variant == 5:
                        regs[6], regs[7], regs[2], regs[3] = 0xFF, 0xFF, 0x00, 0x01      # HL=0xFFFF, BC=1: sum exactly 65536
                    addr = [0x8000, 0x8000, 65534, 65533, 65532, 65535][v6] if not high else [65533, 65534, 65535, 65533, 65532, 65531][v6]
                    regs[24] = addr
                    if high and v6 in (0, 3):
                        regs[1] = [0xFF, 0, 0, 0x00][v6]            # all flags set / clear: conditional CALLs taken either way
                for kind in kinds:
                    m = machine(kind)
                    mem = m.sim.memory
                    for i, x in enumerate(b[:6]):
                        if (addr + i) & 0xFFFF >= 0x4000:
                            mem[(addr + i) & 0xFFFF] = x
                    if kind in ('py', 'pycmio'):
                        mem.log.clear()
                    sims.set_regs(m.sim, regs)
                    m.tracer.reset(0, ci)
                    before = list(regs)
                    try:
                        m.step()
                    except Exception as e:
                        shard.violation('%s raised %r on %s' % (kind, e, bytes(b[:4]).hex()), {'part': 'guard', 'seq': b, 'tgt': tgt, 'kind': kind})
                        ms.pop(kind, None)
                        continue
                    after = m.regs
                    shard.inc('monitor:guard_steps')
                    err = reg_invariant(before, after)
                    if kind in ('py', 'pycmio'):
                        # every store of the Python simulators goes through LogMem.__setitem__: the log is exact
                        for a, v in mem.log:
                            if not (isinstance(v, int) and 0 <= v <= 255):
                                err = 'memory[%d] = %r' % (a, v)
                            if a < 0x4000:
                                err = 'ROM modified at [%d]' % a
                    else:
                        romnow = mem[:0x4000]
                        if romnow != rom_b:
                            bad = [a for a in range(0x4000) if romnow[a] != rom_b[a]][:4]
                            err = 'ROM modified at %s' % bad
                    if kind in ('py', 'pycmio'):
                        if mem.log:
                            storing.add((ci, ti))
                            shard.inc('observed:ram_stores', len(mem.log))
                    if err:
                        shard.violation('%s: %s after one step of %s with pointers at %d (d=%d): %s' % (kind, err, bytes(b[:4]).hex(), tgt, ds, sims.fmt_regs(regs)),
                                        {'part': 'guard', 'seq': b, 'tgt': tgt, 'kind': kind, 'regs': regs, 'flavour': spec.get('flavour', 'plain')})
                        # repair the machine's ROM
                        for a in range(0x4000):
                            mem[a] = rom[a]
                    # undo RAM changes: rebuild RAM cells touched around the targets and the code
                    for a in set([(addr + i) & 0xFFFF for i in range(6)] + [(t + k) & 0xFFFF for t in (tgt, (tgt - ds) & 0xFFFF, regs[12]) for k in range(-3, 4)]):
                        if a >= 0x4000:
                            mem[a] = 0
                    if kind in ('py', 'pycmio'):
                        for a, v in list(mem.log):
                            if a >= 0x4000:
                                list.__setitem__(mem, a, 0)
                        mem.log.clear()
                shard.case(('guard', ci, ti, variant), True,
                           sample={'slot': bytes(b[:4]).hex(), 'target': tgt, 'd': ds} if ci < 3 and ti == 2 and not variant else None)
        if shard.out_of_time():
            shard.inc('stopped_on_budget')
            break
    shard.inc('observed:storing_slot_target_pairs', len(storing))

# ------------------------------------------------------------------ part hist: paging histories

PORTS_MATCH = [0x7FFD, 0x00FD, 0x7FFC, 0x3FF5, 0x0000, 0x7D75]
PORTS_NOMATCH = [0x7FFF, 0xFFFD, 0xBFFD, 0x8000, 0x0002, 0xFFFF]
TAG_OFF = 0x0010
ID_OFF = 0x0020

class Rig:
    """One implementation on 128K memory with tagged banks; harness-driven real instructions."""
    def __init__(self, kind):
        from skoolkit import simutils
        self.kind = kind
        self.skoolutils = kind.endswith('-skoolutils')
        base = kind.split('-')[0]
        self.cls = sims.sim_class(base)
        self.py = base in ('py', 'pycmio')
        self.new()

    def new(self):
        from skoolkit import simutils
        banks = [[0] * 16384 for _ in range(8)]
        for k in range(8):
            banks[k][TAG_OFF] = 0xB0 + k
            banks[k][0x3FF0] = 0xB8 + k
        # stubs in bank 5 (always at 0x4000): 0x6000..
        b5 = banks[5]
        def put(off, data):
            for i, x in enumerate(data):
                b5[off - 0x4000 + i] = x
        put(0x6000, [0xED, 0x79])            # OUT (C),A
        put(0x6010, [0xD3, 0x00])            # OUT (n),A  (n patched)
        put(0x6020, [0xED, 0xA3])            # OUTI
        put(0x6030, [0x3A, 0x00, 0x00])      # LD A,(nn)
        put(0x6040, [0x32, 0x00, 0x00])      # LD (nn),A
        put(0x6050, [0xED, 0x41])            # OUT (C),B
        if self.skoolutils:
            from skoolkit.skoolutils import Memory
            mem = Memory(banks, banks[0], None, None, 0)
            mem.memory[0] = mem.roms[0]
        else:
            from skoolkit.pagingtracer import Memory
            mem = Memory(banks, 0)
        self.sim = simutils.from_memory(self.cls, mem)
        if self.skoolutils:
            # the skool-macro simulations (#SIM, #AUDIO, #TSTATES) use their own paging tracer on skoolutils.Memory
            from skoolkit import skoolmacro
            self.tracer = skoolmacro.PagingTracer(mem, 0, 0, [0] * 16)
        else:
            self.tracer = sims.LockTracer(self.sim, 0, 0)
        self.sim.set_tracer(self.tracer)
        self.mem = self.sim.memory
        self.b5 = self.mem.banks[5]
        self.roms_ref = (bytes(self.mem.roms[0]), bytes(self.mem.roms[1]))
        self.dirty = False

    def reset(self, locked=True):
        """Back to o7ffd=0, unlocked. The C simulators keep the lock internally: when the previous history set it
        they are rebuilt (on a Memory object cloned from the first, real one); otherwise a real OUT of 0 unlocks nothing
        and simply selects bank 0 / ROM 0 again."""
        if not self.py:
            if not locked:
                self.exec_at(0x6000, a=0, bc=0x7FFD)
                self.mem.o7ffd = 0
                return
            self.clone()
            return
        self.mem.out7ffd(0)
        if self.skoolutils:
            self.tracer.out7ffd = 0
        else:
            self.tracer.reset(0, 0)

    def clone(self):
        from skoolkit import simutils
        old = self.mem
        mem = object.__new__(type(old))
        mem.banks = [bytearray(b) for b in old.banks]
        for k in range(8):
            mem.banks[k][ID_OFF] = 0
        mem.roms = old.roms
        mem.memory = [mem.roms[0], mem.banks[5], mem.banks[2], mem.banks[0]]
        mem.o7ffd = 0
        mem.machine = old.machine
        self.sim = simutils.from_memory(self.cls, mem)
        self.tracer = sims.LockTracer(self.sim, 0, 0)
        self.sim.set_tracer(self.tracer)
        self.mem = self.sim.memory
        self.b5 = self.mem.banks[5]

    def exec_at(self, pc, a=0, bc=0, hl=0):
        r = self.sim.registers
        r[0] = a
        r[2], r[3] = bc >> 8, bc & 0xFF
        r[6], r[7] = hl >> 8, hl & 0xFF
        r[24] = pc
        r[25] = 100
        self.sim.run()

    def out(self, port, value, form):
        if form == 0:
            self.exec_at(0x6000, a=value, bc=port)
        elif form == 1:
            self.b5[0x2011] = port & 0xFF
            # OUT (n),A puts A on the high address lines: only usable when value == port high byte
            self.exec_at(0x6010, a=value, bc=0)
        elif form == 2:
            # OUTI: port = BC after B is decremented; value from (HL)
            self.b5[0x2100] = value
            self.exec_at(0x6020, bc=(port + 0x100) & 0xFFFF, hl=0x6100)
        else:
            self.exec_at(0x6050, a=0, bc=port) if False else self.exec_at(0x6000, a=value, bc=port)

    def read(self, addr):
        self.b5[0x2031], self.b5[0x2032] = addr & 0xFF, addr >> 8
        self.exec_at(0x6030)
        return self.sim.registers[0]

    def write(self, addr, value):
        self.b5[0x2041], self.b5[0x2042] = addr & 0xFF, addr >> 8
        self.exec_at(0x6040, a=value)

def rom_probe_addr(roms):
    for a in range(0x100, 0x4000):
        if roms[0][a] != roms[1][a]:
            return a
    raise RuntimeError('ROMs identical?')

def check_history(shard, rig, hist, uid, probe, rp):
    """hist: list of (port, value, form). Returns True if held."""
    model = paging.Model(0)
    mem = rig.mem
    for port, value, form in hist:
        try:
            rig.out(port, value, form)
        except Exception as e:
            shard.violation('%s raised %r during OUT' % (rig.kind, e), rp)
            rig.new()
            return False
        if form == 1:
            port = (value << 8) | (port & 0xFF)
        model.out(port, value)
        shard.inc('monitor:port_writes')
    bank, romn = model.bank, model.rom
    # reads through the four slots
    got = (rig.read(0xC000 + TAG_OFF), rig.read(0x4000 + TAG_OFF), rig.read(0x8000 + TAG_OFF), rig.read(probe))
    exp = (0xB0 + bank, 0xB5, 0xB2, rig.roms_ref[romn][probe])
    shard.inc('monitor:probe_reads', 4)
    if got != exp:
        shard.violation('%s after 0x7FFD history %s: reads through 0xC000/0x4000/0x8000/ROM gave %s, the model (bank %d, ROM %d) predicts %s' % (
            rig.kind, [(hex(p), v) for p, v, f in hist], [hex(x) for x in got], bank, romn, [hex(x) for x in exp]), rp)
        rig.new()
        return False
    # stores of a unique id through all four slots
    u = uid & 0xFF or 1
    for base in (0xC000, 0x8000, 0x4000, 0x0000):
        rig.write(base + ID_OFF, u)
    shard.inc('monitor:id_stores', 4)
    banks = mem.banks
    where = [k for k in range(8) if banks[k][ID_OFF] == u]
    expw = sorted({bank, 2, 5})
    ok = where == expw
    roms_now = (bytes(mem.roms[0]), bytes(mem.roms[1]))
    if roms_now != rig.roms_ref:
        shard.violation('%s: a store through 0x0000 modified a ROM after history %s' % (rig.kind, hist), rp)
        rig.new()
        return False
    if not ok:
        shard.violation('%s after history %s: id stores through 0xC000/0x8000/0x4000 landed in banks %s, expected exactly %s' % (rig.kind, hist, where, expw), rp)
        rig.new()
        return False
    for k in where:
        banks[k][ID_OFF] = 0
    if rig.py and not rig.skoolutils:
        err = mapping_invariant(mem)
        shard.inc('monitor:mapping_invariant')
        if err or mem.o7ffd != model.value:
            shard.violation('%s Memory object after history %s: %s (o7ffd=%d, model %d)' % (rig.kind, hist, err, mem.o7ffd, model.value), rp)
            rig.new()
            return False
    return True

def run_hist(shard, spec):
    rig = Rig(spec['kind'])
    probe = rom_probe_addr(rig.roms_ref)
    n = 0
    locked = ok = True
    # length 1 and 2, all values, port 0x7FFD via OUT (C),A
    for v1 in range(spec['shard'], 256, spec['of']):
        for v2 in range(-1, 256):
            hist = [(0x7FFD, v1, 0)] + ([(0x7FFD, v2, 0)] if v2 >= 0 else [])
            rig.reset(locked)
            locked = bool(v1 & 0x20 or (v2 >= 0 and v2 & 0x20)) or not ok
            ok = check_history(shard, rig, hist, v1 ^ v2 ^ 0x5A, probe, {'part': 'hist', 'kind': spec['kind'], 'hist': hist})
            n += 1
        if shard.out_of_time():
            shard.note_inconclusive('paging histories of length<=2 not enumerated completely for %s within the budget (reached v1=%d)' % (spec['kind'], v1))
            break
    shard.bulk(n, n)
    shard.sample({'kind': spec['kind'], 'histories': n, 'example': [[0x7FFD, 0x13, 'OUT (C),A'], [0x7FFD, 0x27, 'OUT (C),A']]})

def run_hist3(shard, spec):
    kinds = ['c', 'ccmio'] if spec.get('only_c') else ['py', 'pycmio', 'c', 'ccmio', 'py-skoolutils']
    rigs = {k: Rig(k) for k in kinds}
    probe = rom_probe_addr(rigs[kinds[0]].roms_ref)
    n = 3000 if shard.tier == 'quick' else 150000
    for case in range(n):
        rng = shard.rng('hist3', case)
        hist = []
        for _ in range(rng.choice([1, 2, 3, 3, 3, 4])):
            form = rng.choice([0, 0, 1, 2])
            if rng.random() < 0.7:
                port = rng.choice(PORTS_MATCH) if rng.random() < 0.6 else (rng.randrange(65536) & ~0x8002)
            else:
                port = rng.choice(PORTS_NOMATCH) if rng.random() < 0.6 else (rng.randrange(65536) | rng.choice([0x8000, 0x0002]))
            value = rng.choice([0, 7, 0x10, 0x17, 0x20, 0x27, 0x37, 0x3F, 0x40, 0xFF, rng.randrange(256)])
            hist.append((port, value, form))
        for k, rig in rigs.items():
            rig.reset(True)
            check_history(shard, rig, hist, case, probe, {'part': 'hist3', 'case': case, 'kind': k, 'hist': hist, 'flavour': spec.get('flavour', 'plain')})
        locked = any((p & 0x8002) == 0 and v & 0x20 for p, v, f in hist[:-1])
        shard.case(('hist3', case), True, sample={'history': [[hex(p), v, ['OUT (C),A', 'OUT (n),A', 'OUTI'][f]] for p, v, f in hist], 'implementations': kinds} if case < 2 else None)
        shard.hist('history_has_lock_before_last_write', locked)
        if shard.out_of_time():
            shard.inc('stopped_on_budget')
            break

def run(shard, spec):
    {'prog': run_prog, 'guard': run_guard, 'hist': run_hist, 'hist3': run_hist3}[spec['part']](shard, spec)

def finalize(agg, tier):
    probs = []
    c = agg['counters']
    for k in ('monitor:invariant_evaluations', 'monitor:guard_steps', 'monitor:fast_path_guard_runs', 'monitor:interrupt_pushes', 'observed:interrupt_accepted_sp_moved', 'monitor:port_writes', 'monitor:probe_reads', 'monitor:id_stores', 'observed:ram_stores'):
        if not c.get(k):
            probs.append('monitor %s observed nothing' % k)
    if c.get('observed:storing_slot_target_pairs', 0) < 500:
        probs.append('store-guard matrix thin: only %d (slot,target) pairs were seen storing' % c.get('observed:storing_slot_target_pairs', 0))
    return probs

def replay(shard, rp):
    if rp.get('part') in ('hist', 'hist3'):
        rig = Rig(rp['kind'])
        probe = rom_probe_addr(rig.roms_ref)
        ok = check_history(shard, rig, [tuple(h) for h in rp['hist']], 0x5A, probe, rp)
        shard.case(('replay',), True)
        print('history', rp['hist'], 'on', rp['kind'], '->', 'held' if ok else 'VIOLATED')
    else:
        print('re-run ./check C08 (part %s)' % rp.get('part'))

TECHNIQUE = 'online invariant after every real simulator step + tagged-bank paging histories decided by a sequential 0x7FFD model, also under ASan/UBSan'
LEVEL_TEXT = ('Each real simulator (Python/C, plain/contended) is stepped with an invariant monitor (register ranges, T monotonic, ROM unchanged, byte-valued stores, '
              'Memory-object mapping identities); every opcode slot is executed with every pointer aimed at the ROM/RAM boundary and from the top of memory, interrupts are accepted (API and run()) with SP on the boundary, '
              'the fast_ldir shortcut copies through it; all 65536 port-0x7FFD histories of '
              'length<=2 and random longer ones on matching/non-matching ports are driven through real OUT instructions against bank tags, ROM probes and unique-id stores, '
              'decided by a small sequential paging model; the C paths repeat under clang ASan+UBSan so that an out-of-range address is an observed out-of-bounds access.')
LEVEL_NOTE = 'Histories longer than 2 are sampled; programs are bounded (200 steps); a clean sanitizer run is not memory safety beyond the paths reached.'
