"""C05 - the simulators implement documented Z80 instruction semantics.

One real instruction step of each of the four implementations from a chosen state; oracle = the reference
interpreter vk.ref.refz80 (arithmetic, table-free, written from the instruction-set description).
Exhaustive over every (A, operand, carry) triple of the 8-bit ALU and every (A, F) pair of the accumulator/flag
operations (which is exactly the index space of the simulators' lookup tables), sampled with boundary bias over
all 1792 opcode slots. Repeated under ASan/UBSan in the thorough tier.
"""
from vk import harness, sims
from vk.gens import proggen
from vk.ref import refz80

ID = 'C05'
NEEDS_C = True
LEVEL = 'exploration'
EXHAUSTIVE = False
EXHAUSTIVE_NOTE = ('part "alu" enumerates completely: 8 ALU operations x 256 A x 256 operands x carry in {0,1}; (A,F) over all 65536 pairs for DAA, CPL, SCF, CCF, NEG, '
                   'RLCA, RRCA, RLA, RRA; INC/DEC r and all CB rotate/shift/BIT/RES/SET over 256 values x 8 flag bytes - on all four implementations')
RULE = ('(alu) exhaustive operand spaces of the flag lookup tables executed as real instructions; (slots) every opcode slot (1792) x boundary-biased states (registers, '
        'pointers and PC/SP at 0x0000/0x3FFF/0x4000/0x7FFF/0x8000/0xFFFF, all IM, IFF, HALT-free) x 4 implementations; a case is one (instruction bytes, state); it is '
        'non-trivial when the instruction changed a register other than PC/R/T or accessed memory/ports; distinct by (bytes, state)')
ASSUMPTIONS = ['compared: all registers except MEMPTR, flags masked to S,Z,H,P/V,N,C (0xD7); memory stores (ROM stores dropped); port events; T-states (contended pair run in the top border where no delay applies)',
               'repeating block I/O instructions (INIR/INDR/OTIR/OTDR while B != 0): only S,Z,N,C compared (the H/PV behaviour of interrupted repeats is recent lore)',
               'HALT is compared outside the interrupt-acceptance window (the simulators model the pending interrupt inside HALT)',
               'one repetition of a block instruction = one step; a lone DD/FD prefix = one 4-T step (the simulators\' convention)']
MIN_NONTRIVIAL = {'quick': 300000, 'thorough': 2000000}

FMASK = 0xD7

def plan(tier, seed):
    q = tier == 'quick'
    specs = []
    for i in range(12):
        specs.append({'part': 'alu', 'shard': i, 'of': 12, 'timeout': 900 if q else 14000})
    ns = 4 if q else 16
    for i in range(ns):
        specs.append({'part': 'slots', 'shard': i, 'of': ns, 'timeout': 900 if q else 14000, 'budget_s': 100 if q else 3000})
    specs.append({'part': 'fast', 'shard': 0, 'of': 1, 'timeout': 900 if q else 14000, 'budget_s': 60 if q else 1500})
    if not q:
        for i in range(2):
            specs.append({'part': 'alu', 'shard': i, 'of': 2, 'flavour': 'asan', 'only_c': True, 'timeout': 14000})
        specs.append({'part': 'slots', 'shard': 0, 'of': 1, 'flavour': 'asan', 'only_c': True, 'scale': 0.2, 'timeout': 14000, 'budget_s': 3000})
    else:
        specs.append({'part': 'slots', 'shard': 0, 'of': 1, 'flavour': 'asan', 'only_c': True, 'scale': 0.1, 'timeout': 900, 'budget_s': 60})
    return specs

class Rig:
    """The four real simulators on zeroed 48K memory, reused across cases."""
    def __init__(self, kinds):
        self.kinds = kinds
        self.ms = {}

    def machine(self, kind):
        if kind not in self.ms:
            self.ms[kind] = sims.Machine(kind, [0] * 65536, [0] * 30, 0, True, 0, logmem=True)
        return self.ms[kind]

    def run(self, kind, patches, regs, seed):
        """Returns (regs after, sorted stores [(addr, final value)], port events without T) and undoes the memory changes."""
        m = self.machine(kind)
        mem = m.sim.memory
        py = kind in ('py', 'pycmio')
        for a, v in patches.items():
            mem[a] = v
        if py:
            mem.log.clear()
        sims.set_regs(m.sim, regs)
        m.tracer.reset(0, seed)
        m.step()
        out = m.regs
        if py:
            st = {}
            for a, v in mem.log:
                st[a] = mem[a]
            stores = sorted(st.items())
            for a in st:
                list.__setitem__(mem, a, 0)
            mem.log.clear()
        else:
            stores = None
        ev = [(e[0], e[1], e[2]) for e in m.tracer.events]
        return out, stores, ev

    def cleanup_c(self, kind, patches, addrs):
        mem = self.machine(kind).sim.memory
        for a in patches:
            mem[a] = 0
        for a in addrs:
            mem[a] = 0

def ref_step(patches, regs, seed):
    n = [0]
    def port_in(port):
        v = ((seed * 2654435761 + n[0] * 40503 + port * 7) >> 3) & 0xFF
        n[0] += 1
        return v
    return refz80.step(regs, lambda a: patches.get(a, 0), port_in)

def compare_case(shard, rig, b, addr, regs, patches, seed, rp, repeat_io_mask=True):
    """Run the reference and every implementation; returns True if the case was non-trivial."""
    try:
        ref = ref_step(patches, regs, seed)
    except Exception as e:
        shard.note_inconclusive('reference model raised %r on %s' % (e, bytes(b[:4]).hex()))
        return False
    rr = ref.regs
    fmask = FMASK
    op0, op1 = b[0], b[1]
    if ref.repeat and op0 == 0xED and op1 in (0xB2, 0xB3, 0xBA, 0xBB):
        fmask = 0xC3           # S Z N C
    rstores = sorted({a: v for a, v in ref.writes}.items())
    rev = ref.ports
    for kind in rig.kinds:
        try:
            out, stores, ev = rig.run(kind, patches, regs, seed)
        except Exception as e:
            shard.violation('%s raised %r executing %s' % (kind, e, bytes(b[:4]).hex()), dict(rp, kind=kind))
            rig.ms.pop(kind, None)
            continue
        shard.inc('monitor:steps_vs_reference')
        bad = []
        for i in range(29):
            if i == 13:
                continue
            x, y = out[i], rr[i]
            if i in (1, 17):
                x &= fmask
                y &= fmask
            if x != y:
                bad.append((sims.REGNAMES[i], x, y))
        cmem = None
        if stores is not None:
            if stores != rstores:
                bad.append(('stores', stores, rstores))
        else:
            cmem = rig.machine(kind).sim.memory
            exp = dict(patches)
            exp.update(dict(rstores))
            for a, v in exp.items():
                if cmem[a] != v:
                    bad.append(('memory[%d]' % a, cmem[a], v))
            rig.cleanup_c(kind, patches, [a for a, v in rstores])
            if seed % 16 == 0 and cmem.count(0) != 65536:
                bad.append(('stray store in C memory', [i for i in range(65536) if cmem[i]][:4], []))
                cmem[:] = bytes(65536)
        if ev != rev:
            bad.append(('port events', ev, rev))
        if bad:
            shard.violation('%s executing %s at %d differs from the Z80 reference: %s (implementation value, reference value); state %s' % (
                kind, bytes(b[:4]).hex(), addr, bad[:5], sims.fmt_regs(regs)), dict(rp, kind=kind))
    return rr[:24] != regs[:24] or bool(rstores) or bool(rev) or any(c[0] == 'm' and c[2] == 3 for c in ref.cycles)

# ------------------------------------------------------------------ part alu (exhaustive)

def alu_cases(spec):
    """Yields (bytes, regs overrides) for this shard. Every (A, n, carry) of the 8 ALU ops etc."""
    shard, of = spec['shard'], spec['of']
    k = 0
    # ALU A,n : C6 CE D6 DE E6 EE F6 FE  x A x n x carry
    for op in (0xC6, 0xCE, 0xD6, 0xDE, 0xE6, 0xEE, 0xF6, 0xFE):
        for a in range(256):
            k += 1
            if k % of != shard:
                continue
            for n in range(256):
                for f in (0x00, 0x01) if op in (0xCE, 0xDE) else (0x00, 0xFF) if a % 4 == 0 and n % 16 == 0 else ((a ^ n) & 1,):
                    yield [op, n], {sims.A: a, sims.F: f}
    # ALU A,r with r == A (the simulators have dedicated ADC_A_A / SBC_A_A tables)
    for op in (0x87, 0x8F, 0x97, 0x9F, 0xA7, 0xAF, 0xB7, 0xBF):
        k += 1
        if k % of != shard:
            continue
        for a in range(256):
            for f in (0, 1, 0xFF, 0xFE):
                yield [op], {sims.A: a, sims.F: f}
    # accumulator / flag operations over every (A, F)
    for seq in ([0x27], [0x2F], [0x37], [0x3F], [0xED, 0x44], [0x07], [0x0F], [0x17], [0x1F]):
        for a in range(256):
            k += 1
            if k % of != shard:
                continue
            for f in range(256):
                yield seq, {sims.A: a, sims.F: f}
    # INC/DEC r, CB page on register B and on (HL), over all values x 8 flag bytes
    FL = (0x00, 0x01, 0xFF, 0xFE, 0x10, 0x11, 0x44, 0x82)
    for seq in [[0x04], [0x05], [0x3C], [0x3D]] + [[0xCB, o] for o in range(256) if o & 7 in (0, 6, 7)]:
        k += 1
        if k % of != shard:
            continue
        for v in range(256):
            for f in FL:
                yield seq, {sims.A: v, sims.B: v, sims.F: f, 'mem_hl': v}

def run_alu(shard, spec):
    kinds = ('c', 'ccmio') if spec.get('only_c') else sims.KINDS
    rig = Rig(kinds)
    addr = 0x8000
    base = [0] * 30
    base[sims.SP] = 0x7000
    base[sims.H], base[sims.L] = 0x90, 0x10
    base[sims.PC] = addr
    base[sims.T] = 500
    base[sims.IM] = 1
    n = nt = 0
    for seq, over in alu_cases(spec):
        regs = list(base)
        patches = {addr + i: x for i, x in enumerate(seq)}
        for kx, v in over.items():
            if kx == 'mem_hl':
                patches[0x9010] = v
            else:
                regs[kx] = v
        rp = {'part': 'alu', 'seq': seq, 'regs': regs}
        if compare_case(shard, rig, seq + [0, 0, 0], addr, regs, patches, n, rp):
            nt += 1
        n += 1
    shard.bulk(n, nt)
    shard.sample({'part': 'alu', 'cases_in_this_shard': n, 'example': {'bytes': 'ce7f', 'A': 0x80, 'F': 1}})

# ------------------------------------------------------------------ part slots

W16 = [0x0000, 0x0001, 0x00FF, 0x0100, 0x3FFE, 0x3FFF, 0x4000, 0x4001, 0x7FFF, 0x8000, 0x8001, 0xBFFF, 0xC000, 0xFFFE, 0xFFFF]

def slot_state(rng, addr):
    r = proggen.regs30(rng, pc=addr)
    for hi in (2, 4, 6, 8, 10, 18, 20, 22):
        if rng.random() < 0.6:
            v = rng.choice(W16)
            r[hi], r[hi + 1] = v >> 8, v & 0xFF
    if rng.random() < 0.6:
        r[12] = rng.choice(W16)
    r[1] = rng.choice([0x00, 0x01, 0xFF, 0xFE, 0x40, 0x41, 0x10, 0x11, 0x02, 0x03, 0x80, 0x04, rng.randrange(256)])
    r[25] = rng.choice([0, 100, 5000, 13000]) + 69888 * rng.choice([0, 1, 17])      # top border: no contention for the contended pair
    r[28] = 0
    r[13] = 0
    return r

def run_slots(shard, spec):
    from vk.props.c07 import sequences
    seqs = list(sequences())
    kinds = ('c', 'ccmio') if spec.get('only_c') else sims.KINDS
    rig = Rig(kinds)
    k = int((48 if shard.tier == 'quick' else 1200) * spec.get('scale', 1)) or 4
    for ci, (table, seq) in enumerate(seqs):
        if ci % spec['of'] != spec['shard']:
            continue
        for j in range(k):
            rng = shard.rng('slots', table, ci, j)
            addr = rng.choice([0x8000, 0x7FFE, 0xBFFD, 0xFFFD, 0xFFFE, 0xFFFF, 0x3FFE, 0x3FFF, 0x4000, 0x0000, rng.randrange(65536)])
            b = [x if x is not None else rng.choice([0, 1, 0x7F, 0x80, 0xFF, rng.randrange(256)]) for x in seq] + [rng.randrange(256) for _ in range(3)]
            regs = slot_state(rng, addr)
            if b[0] == 0x76 and rng.random() < 0.5:
                regs[28] = 1
            if regs[26] and (b[0] == 0x76 or (b[0] == 0xED and b[1] in (0x57, 0x5F))) and (regs[25] + 9) % 69888 < 48:
                # the simulators model a pending frame interrupt inside HALT and LD A,I/R (P/V reset quirk of the NMOS
                # Z80): that is interrupt behaviour, not instruction semantics - keep these away from the window
                regs[25] += 128
            patches = {}
            for hi in (2, 4, 6, 8, 10, 12):
                a = (regs[hi] * 256 + regs[hi + 1]) & 0xFFFF if hi != 12 else regs[12]
                for d in (-2, -1, 0, 1, 2):
                    patches[(a + d) & 0xFFFF] = rng.randrange(256)
            if table in ('DD', 'FD', 'DDCB', 'FDCB'):
                ixh = 8 if b[0] == 0xDD else 10
                dd = b[2] - 256 if b[2] > 127 else b[2]
                a = (regs[ixh] * 256 + regs[ixh + 1] + dd) & 0xFFFF
                patches[a] = rng.randrange(256)
            # (nn) operands
            for off in (1, 2):
                nn = b[off] | (b[off + 1] << 8)
                for d in (0, 1):
                    patches.setdefault((nn + d) & 0xFFFF, rng.randrange(256))
            if b[0] == 0xED and b[1] & 0xE4 == 0xA0:
                # block instructions: aim at the values that decide the repeat and the flags (BC/B = 1, 2, 0; C = 0x00/0xFF
                # for the IN/OUT blocks' carry rule; the compare finds A at (HL))
                if rng.random() < 0.5:
                    regs[2], regs[3] = rng.choice([(0, 1), (0, 2), (0, 0), (1, 0), (1, 1), (2, 0xFF), (1, 0xFF), (0xFF, 0x00), (0, 0xFF)])
                if b[1] & 0x03 == 0x01 and rng.random() < 0.5:
                    patches[(regs[6] * 256 + regs[7]) & 0xFFFF] = regs[0]
            for i, x in enumerate(b):
                patches[(addr + i) & 0xFFFF] = x
            rp = {'part': 'slots', 'seq': b, 'regs': regs, 'addr': addr}
            nt = compare_case(shard, rig, b, addr, regs, patches, j, rp)
            shard.case(('slots', ci, j), nt, sample={'bytes': bytes(b[:4]).hex(), 'addr': addr, 'regs': sims.fmt_regs(regs)} if ci < 2 and j == 0 else None)
            shard.inc('observed:slots_executed:' + (table or 'main'))
        if shard.out_of_time():
            shard.inc('stopped_on_budget')
            shard.note_inconclusive('slot sweep stopped on its time budget before all 1792 slots were visited')
            break

def run_ldair_window(shard):
    """LD A,I / LD A,R: P/V is IFF2, except that it reads 0 when a maskable interrupt is accepted at the end of the instruction
    (documented NMOS Z80 behaviour, which the simulators model with the frame clock: interrupts are accepted in the first
    32 T-states of a 69888 T-state frame on the 48K machine). Plain simulators, every clock phase around both edges of the
    acceptance window, several frames."""
    zero = [0] * 65536
    n = 0
    for kind in ('py', 'c'):
        m = sims.Machine(kind, zero, [0] * 30, 0, False, 0)
        for op in (0x57, 0x5F):
            m.sim.memory[0x8000], m.sim.memory[0x8001] = 0xED, op
            for fr in (1, 2, 5, 61500):
                for d in list(range(-12, 13)) + list(range(20, 45)):
                    for iff in (0, 1):
                        t_end = 69888 * fr + d
                        regs = [0x33] * 30
                        regs[12], regs[13], regs[24], regs[25], regs[26], regs[27], regs[28] = 0x9000, 0, 0x8000, t_end - 9, iff, 1, 0
                        sims.set_regs(m.sim, regs)
                        m.step()
                        f = m.regs[1]
                        expect = 1 if iff and not (t_end % 69888) < 32 else 0
                        n += 1
                        if (f >> 2) & 1 != expect or m.regs[25] != t_end:
                            shard.violation('%s: LD A,%s ending at frame position %d with IFF=%d leaves P/V=%d (T=%d), expected P/V=%d (T=%d)' % (
                                kind, 'IR'[op == 0x5F], t_end % 69888, iff, (f >> 2) & 1, m.regs[25], expect, t_end), {'part': 'ldair', 'kind': kind, 'op': op, 't_end': t_end, 'iff': iff})
                        shard.case(('ldair', kind, op, fr, d, iff), True)
    shard.inc('monitor:ldair_window_steps', n)

def run_fast(shard, spec):
    """The Python simulator built with fast_ldir/fast_djnz (trace.py without -v/-m/-M, #SIM) runs LDIR/LDDR/DJNZ loops in one
    call: its end state must be that of the same instruction iterated on the ordinary Python simulator and on the C one -
    which the other parts of this check hold against the reference model. The workload is the one C06 uses for the same
    comparison (boundary-aimed block copies and delay loops)."""
    from vk.props import c06
    run_ldair_window(shard)
    c06.run_fast(shard, spec)

def run(shard, spec):
    {'alu': run_alu, 'slots': run_slots, 'fast': run_fast}[spec['part']](shard, spec)

def finalize(agg, tier):
    c = agg['counters']
    probs = []
    if not c.get('monitor:steps_vs_reference'):
        probs.append('no step was compared with the reference')
    if not c.get('monitor:fast_path_comparisons') or not c.get('observed:fast_path_multi_iteration'):
        probs.append('the fast-path comparison observed nothing')
    if not c.get('monitor:ldair_window_steps'):
        probs.append('the LD A,I/R interrupt-window sweep observed nothing')
    return probs

def replay(shard, rp):
    rig = Rig(sims.KINDS)
    b = rp['seq'] + [0, 0, 0]
    addr = rp.get('addr', 0x8000)
    patches = {(addr + i) & 0xFFFF: x for i, x in enumerate(rp['seq'])}
    compare_case(shard, rig, b, addr, rp['regs'], patches, 0, rp)
    shard.case(('replay',), True)
    print('replayed', bytes(rp['seq'][:4]).hex(), 'violations:', shard.nviolations)

TECHNIQUE = 'differential single-step execution of the four real simulators against an executable reference model of the Z80 (arithmetic, table-free), exhaustive over the flag-table index spaces'
LEVEL_TEXT = ('Every (A, operand, carry) triple of the eight ALU operations, every (A, F) pair of DAA/CPL/SCF/CCF/NEG/RLCA/RRCA/RLA/RRA and all INC/DEC/CB operand values are executed as real '
              'instructions on the Python and C, plain and contended simulators and compared with a reference interpreter written from the instruction-set description; all 1792 opcode slots '
              'are additionally executed from boundary-biased states (registers, flags S Z H P/V N C, stores, port events, T-states, PC/SP wrap points; block instructions aimed at their repeat decision), '
              'and the Python simulator built with its fast_ldir/fast_djnz shortcuts must end one run() in the state of the iterated instruction.')
LEVEL_NOTE = 'The reference was debugged against the unchanged tree until silent, so a misreading shared with the authors is invisible; bits 5/3 and MEMPTR are excluded as the property says.'
