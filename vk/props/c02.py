"""C02 - assembler and disassembler are mutual inverses.

Monitor: a post-condition contract wrapped around the real Disassembler methods (every statement any workload
makes them return is re-assembled with the real z80.Assembler and compared with the bytes it was decoded from)
plus a contract on Assembler.assemble; the workload enumerates the opcode tables x operand values x bases.
Direction (b): generated instruction texts with a known intended operand value.
"""
import itertools

from vk import harness
from vk.props.c07 import sequences, _Cfg

ID = 'C02'
NEEDS_C = False
LEVEL = 'exploration'
EXHAUSTIVE = False
RULE = ('(a) every opcode-table slot x all 256 values of its first operand byte (second operand byte from a boundary set) x '
        'base indicator x case x hex/decimal x Opcodes set x address (incl. 64K wrap): one case = one disassembled statement that is '
        're-assembled; non-trivial when the statement has at least one numeric operand or is a DEFx statement; distinct by '
        '(bytes, address, base, case, hex, opcodes). (b) generated instruction texts (operand spellings $hex, %bin, "c", "\\"", '
        'expressions, odd whitespace, either case) with a known operand value: assemble -> disassemble -> assemble')
ASSUMPTIONS = ['base m is applied only where a signed operand is meaningful (not RST n, IN A,(n), OUT (n),A, DEFS sizes)',
               'a relative jump whose target is outside 0..65535 is expected to come back as DEFB',
               'the statement address is passed to the assembler as sna2skool/skool2bin do']
MIN_NONTRIVIAL = {'quick': 50000, 'thorough': 500000}

BASES1 = ['n', 'b', 'c', 'd', 'h', 'm']
BASES2 = [a + b for a in 'nbcdhm' for b in 'nbcdhm']
OPSETS = ['', 'ALL', 'XYCB', 'NEG', 'IM', 'ED63']
ADDRS = [0, 1, 127, 128, 0x8000, 65407, 65408, 65531, 65532, 65533, 65534, 65535]
OP2 = [0x00, 0x01, 0x22, 0x5C, 0x7F, 0x80, 0xFF]

class Monitor:
    """Contract on the disassembler's return values, evaluated on every call made through `dis`."""
    def __init__(self, shard):
        from skoolkit.z80 import Assembler
        self.shard = shard
        self.asm = Assembler()
        self.checked = 0

    def expected_unsigned_only(self, ins):
        op = ins.operation.upper()
        return op.startswith(('RST', 'IN A,(', 'OUT (')) and not op.startswith('OUT (C)')

    def check(self, ins, ctx, base):
        """ins: instruction object returned by the disassembler. Returns None or a violation text."""
        self.checked += 1
        self.shard.inc('contract:reassemble')
        if ins.variant:
            # the statement's byte list is used (sna2skool writes @bytes=); nothing to re-assemble,
            # but the text must still be accepted by the assembler and have the same length
            try:
                data = self.asm.assemble(ins.operation, ins.address)
            except Exception as e:
                return 'assembler raised %r on variant statement %r' % (e, ins.operation)
            if not data:
                return 'variant statement %r (bytes %s) is not accepted by the assembler' % (ins.operation, bytes(ins.bytes).hex())
            self.shard.inc('contract:variant')
            return None
        try:
            data = self.asm.assemble(ins.operation, ins.address)
        except Exception as e:
            return 'assembler raised %r on %r' % (e, ins.operation)
        if tuple(data) != tuple(ins.bytes):
            return '%r at %d assembles to %s, decoded from %s' % (ins.operation, ins.address, bytes(data).hex(), bytes(ins.bytes).hex())
        return None

def plan(tier, seed):
    n = 16
    specs = [{'part': 'a', 'shard': i, 'of': n, 'timeout': 3000} for i in range(n)]
    specs += [{'part': 'b', 'shard': i, 'of': 4, 'timeout': 3000} for i in range(4)]
    specs += [{'part': 'def', 'shard': i, 'of': 2, 'timeout': 3000} for i in range(2)]
    return specs

def classify(what, ins, base):
    """Known-finding predicates (mechanisms), None if the violation matches none."""
    return None

def _place(snap, addr, seq, v1, v2):
    b = []
    k = 0
    ops = [v1, v2, v1 ^ 0x55, v2 ^ 0xAA]
    for x in seq:
        if x is None:
            x = ops[k]
            k += 1
        b.append(x)
    while len(b) < 4:
        b.append(ops[k])
        k += 1
    for i, x in enumerate(b):
        snap[(addr + i) & 0xFFFF] = x
    return b

def run_a(shard, spec):
    from skoolkit.disassembler import Disassembler
    tier = shard.tier
    mon = Monitor(shard)
    snap = [0] * 65536
    dis = {}
    def get_dis(hexm, lower, ops, wrap):
        k = (hexm, lower, ops, wrap)
        if k not in dis:
            dis[k] = Disassembler(snap, _Cfg(hexm, lower, ops, wrap))
        return dis[k]
    seqs = list(sequences())
    mine = [s for i, s in enumerate(seqs) if i % spec['of'] == spec['shard']]
    reps = 2 if tier == 'quick' else 24
    for table, seq in mine:
        for v1 in range(256):
            for rep in range(reps):
                rng = shard.rng('a', table, bytes(x or 0 for x in seq).hex(), v1, rep)
                v2 = rng.choice(OP2) if rep else 0x5C
                hexm = rng.random() < 0.5
                lower = rng.random() < 0.4
                ops = rng.choice(OPSETS)
                wrap = rng.random() < 0.7
                addr = rng.choice(ADDRS) if rng.random() < 0.6 else rng.randrange(65536)
                base = rng.choice(BASES1) if rng.random() < 0.6 else rng.choice(BASES2)
                b = _place(snap, addr, seq, v1, v2)
                d = get_dis(hexm, lower, ops, wrap)
                try:
                    inss = d.disassemble(addr, addr + 1, base)
                except Exception as e:
                    shard.violation('Disassembler.disassemble raised %r' % (e,), {'part': 'a', 'bytes': b, 'addr': addr, 'base': base, 'hex': hexm, 'lower': lower, 'ops': ops, 'wrap': wrap})
                    continue
                for ins in inss:
                    opu = ins.operation.upper()
                    numeric = any(c.isdigit() for c in opu.split(None, 1)[1]) if ' ' in opu else False
                    if 'm' in base and mon.expected_unsigned_only(ins):
                        shard.skip('base m on unsigned-only operand')
                        continue
                    err = mon.check(ins, None, base)
                    key = (b, addr, base, hexm, lower, ops, wrap)
                    shard.case(key, nontrivial=numeric or opu.startswith('DEF'),
                               sample={'bytes': bytes(b).hex(), 'addr': addr, 'base': base, 'hex': hexm, 'lower': lower, 'opcodes': ops,
                                       'statement': ins.operation, 'reassembled_ok': err is None} if v1 == 0x81 and rep == 0 else None)
                    shard.hist('base', base if len(base) == 1 else 'two-letter')
                    if err:
                        shard.violation(err + ' [base=%s hex=%s lower=%s opcodes=%s wrap=%s]' % (base, hexm, lower, ops, wrap),
                                        {'part': 'a', 'bytes': b, 'addr': addr, 'base': base, 'hex': hexm, 'lower': lower, 'ops': ops, 'wrap': wrap},
                                        classify(err, ins, base))
            if shard.out_of_time():
                return

def run_def(shard, spec):
    """DEFB/DEFM/DEFW/DEFS ranges with sublength lists and bases."""
    from skoolkit.disassembler import Disassembler
    mon = Monitor(shard)
    n = 6000 if shard.tier == 'quick' else 120000
    for case in range(spec['shard'], n, spec['of']):
        rng = shard.rng('def', case)
        snap = [0] * 65536
        length = rng.choice([1, 2, 3, 4, 7, 8, 9, 16, 17, 33, 66, 67, 100])
        start = rng.choice([0, 16384, 32768, 65536 - length, rng.randrange(0, 65536 - length)])
        style = rng.randrange(4)
        for i in range(length):
            if style == 0:
                v = rng.randrange(256)
            elif style == 1:
                v = rng.choice([32, 34, 92, 65, 97, 94, 96, 126, 127, 128 + 65, 128 + 34, 0, 255])
            elif style == 2:
                v = rng.choice([0, 0, 0, 1])
            else:
                v = 0x41 + (i % 26)
            snap[start + i] = v
        hexm, lower = rng.random() < 0.5, rng.random() < 0.4
        cfg = _Cfg(hexm, lower, '', 0)
        cfg.defb_size = rng.choice([1, 2, 8, 13])
        cfg.defm_size = rng.choice([1, 5, 66])
        cfg.defw_size = rng.choice([1, 2, 3])
        d = Disassembler(snap, cfg)
        kind = rng.choice(['b', 't', 'w', 's'])
        bases = 'nbcdh' if kind == 's' else 'nbcdhm'
        if rng.random() < 0.4:
            subl = ((0, rng.choice(bases)),)
        else:
            subl = []
            rem = length
            while rem > 0:
                k = rng.randint(1, min(rem, 9))
                if kind == 'w':
                    k = min(rem, 2 * rng.randint(1, 3))
                subl.append((k, rng.choice(bases)))
                rem -= k
            subl = tuple(subl)
        if kind == 's':
            subl = ((rng.choice([0, length]), rng.choice('nbdh')), (1, rng.choice('nbcdh')))[:rng.choice([1, 2])]
            if rng.random() < 0.7:
                v = rng.randrange(256)
                for i in range(length):
                    snap[start + i] = v
        try:
            meth = {'b': d.defb_range, 't': d.defm_range, 'w': d.defw_range, 's': d.defs_range}[kind]
            inss = meth(start, start + length, subl)
        except Exception as e:
            shard.violation('%s_range raised %r' % (kind, e), {'part': 'def', 'case': case})
            continue
        total = []
        for ins in inss:
            err = mon.check(ins, None, None)
            if err:
                shard.violation(err + ' [range kind=%s sublengths=%r hex=%s lower=%s]' % (kind, subl, hexm, lower), {'part': 'def', 'case': case})
            total.extend(ins.bytes)
        if kind == 'w' and not subl[0][0] and length % 2 and len(total) == length + 1 and start + length < 65536:
            # documented behaviour: a DEFW range of odd length and no explicit sublengths is rounded up to a whole word
            shard.inc('guard:odd_defw_rounded_up')
            total = total[:length] if total[length] == snap[start + length] else total
        if total != snap[start:start + length]:
            shard.violation('%s_range statements cover %s, range holds %s (sublengths %r)' % (kind, bytes(total).hex(), bytes(snap[start:start + length]).hex(), subl), {'part': 'def', 'case': case})
        shard.case(('def', case), True, sample={'kind': kind, 'sublengths': subl, 'statements': [i.operation for i in inss][:4]} if case < 3 else None)
        shard.hist('def_kind', kind)

# ---- direction (b): text -> bytes -> text -> bytes

TEMPLATES_BYTE = ['LD A,{n}', 'LD B,{n}', 'LD (HL),{n}', 'ADD A,{n}', 'ADC A,{n}', 'SUB {n}', 'SBC A,{n}', 'AND {n}', 'XOR {n}', 'OR {n}', 'CP {n}',
                  'LD IXh,{n}', 'LD IYl,{n}', 'IN A,({n})', 'OUT ({n}),A']
TEMPLATES_WORD = ['LD BC,{nn}', 'LD DE,{nn}', 'LD HL,{nn}', 'LD SP,{nn}', 'LD IX,{nn}', 'LD IY,{nn}', 'LD HL,({nn})', 'LD ({nn}),HL', 'LD A,({nn})',
                  'LD ({nn}),A', 'LD BC,({nn})', 'LD ({nn}),DE', 'LD SP,({nn})', 'LD ({nn}),IX', 'LD IY,({nn})', 'JP {nn}', 'JP NZ,{nn}', 'JP PE,{nn}',
                  'CALL {nn}', 'CALL M,{nn}', 'CALL C,{nn}']
TEMPLATES_INDEX = ['LD A,(IX{d})', 'LD (IY{d}),B', 'INC (IX{d})', 'DEC (IY{d})', 'ADD A,(IX{d})', 'CP (IY{d})', 'RLC (IX{d})', 'BIT 3,(IY{d})',
                   'SET 7,(IX{d})', 'RES 0,(IY{d})', 'SRL (IX{d})', 'RL (IY{d}),C', 'SET 1,(IX{d}),A']
TEMPLATES_INDEX_N = ['LD (IX{d}),{n}', 'LD (IY{d}),{n}']
TEMPLATES_JR = ['JR {t}', 'JR NZ,{t}', 'JR Z,{t}', 'JR NC,{t}', 'JR C,{t}', 'DJNZ {t}']

def spell(rng, v, width, neg_ok=True):
    """A spelling of the non-negative value v (fits width bytes). Returns text."""
    k = rng.randrange(10)
    if k == 0:
        return str(v)
    if k == 1:
        return '$%X' % v if rng.random() < 0.5 else '$%0*x' % (2 * width, v)
    if k == 2:
        return '%' + bin(v)[2:]
    if k == 3 and 32 <= v < 127 and v not in (94, 96):
        c = chr(v)
        if c in '"\\':
            return '"\\%s"' % c
        return '"%s"' % c
    if k == 4:
        a = rng.randint(0, v)
        return '%d+%d' % (a, v - a)
    if k == 5:
        a = rng.randint(1, 9)
        return '%d*%d+%d' % (v // a, a, v % a)
    if k == 6:
        return '$%04X-%d' % (v + 7, 7)
    if k == 7:
        return '0%d' % v
    if k == 8 and v and neg_ok:
        lim = 256 if width == 1 else 65536
        return '-%d' % (lim - v)
    if k == 9:
        return '(%d)/1' % v if False else '%d/1' % v
    return str(v)

def _atom(rng, v):
    """A non-negative value as one token (decimal, hex, binary or a character)."""
    k = rng.randrange(5)
    if k == 0:
        return '$%X' % v
    if k == 1:
        return '%' + bin(v)[2:]
    if k == 2 and 32 <= v < 127 and v not in (94, 96):
        c = chr(v)
        return '"\\%s"' % c if c in '"\\' else '"%s"' % c
    return str(v)

def spellx(rng, v, paren_first=False):
    """An arithmetic expression (+ - * / modulo, parentheses, character constants, inner blanks) whose value is v >= 0."""
    k = rng.randrange(8)
    if k == 0:
        a = rng.randint(0, v)
        e = '%s+%s' % (_atom(rng, a), _atom(rng, v - a))
    elif k == 1:
        a = rng.randint(1, 12)
        e = '%s*(%s+%s)+%s' % (_atom(rng, a), _atom(rng, (v // a) // 2), _atom(rng, v // a - (v // a) // 2), _atom(rng, v % a))
    elif k == 2:
        # a modulus written with the digits 0/1 only reads as modulo (not as a binary number) right after a number or ')'
        m = rng.choice([10, 11, 100, 101, 110, 111]) if rng.random() < 0.5 else rng.randint(2, 9) * 10 + rng.randint(2, 9)
        q = rng.randint(0, 3)
        w = v % m + q * m
        lhs = '(%d+%d)' % (w // 2, w - w // 2) if rng.random() < 0.4 else '%d' % w
        e = '%s%%%d' % (lhs, m) if v < m else '%d+%s%%%d' % (v - v % m, lhs, m)
        if e.startswith('(') and not paren_first:
            e = '0+' + e
    elif k == 3:
        d = rng.randint(1, 9)
        e = '%s/%s' % (_atom(rng, v * d + rng.randint(0, d - 1)), _atom(rng, d))
    elif k == 4:
        a = rng.randint(0, 300)
        e = '%s-(%s-%s)' % (_atom(rng, v + a), _atom(rng, a + 5), _atom(rng, 5)) if rng.random() < 0.5 else '%s-%s' % (_atom(rng, v + a), _atom(rng, a))
    elif k == 5:
        e = '%s+(%s)*%s' % (_atom(rng, v), _atom(rng, rng.randrange(256)), _atom(rng, 0))
    elif k == 6 and paren_first:
        a = rng.randint(1, 7)
        e = '(%s+%s)*%s+%s' % (_atom(rng, 1), _atom(rng, a - 1), _atom(rng, v // a), _atom(rng, v % a))
    else:
        e = '+%s' % _atom(rng, v) if rng.random() < 0.3 else '%s+-%s' % (_atom(rng, v + 3), _atom(rng, 3))
    if rng.random() < 0.25 and '"' not in e:
        e = e.replace('+', ' + ').replace('*', ' * ' if rng.random() < 0.5 else '*')
    return e

def qstring(rng, data):
    """Quote printable bytes as a string operand (escaping quote and backslash)."""
    return '"%s"' % ''.join('\\' + chr(b) if chr(b) in '"\\' else chr(b) for b in data)

def def_statement(rng):
    """A DEFB/DEFM/DEFS/DEFW statement in the assembler's grammar and the bytes it denotes."""
    d = rng.choice(['DEFB', 'DEFM', 'DEFW', 'DEFS'])
    items, data = [], []
    if d in ('DEFB', 'DEFM'):
        for _ in range(rng.randint(1, 5)):
            if rng.random() < 0.45:
                s = [rng.choice([32, 33, 34, 44, 59, 92, 65, 97, 122, 126, 58, 36, 37, 40, 41, rng.randrange(32, 127)]) for _ in range(rng.randint(1, 6))]
                s = [c for c in s if c not in (94, 96)] or [65]
                items.append(qstring(rng, s))
                data.extend(s)
            else:
                v = rng.choice([0, 1, 34, 92, 127, 128, 255, rng.randrange(256)])
                r = rng.random()
                items.append(spellx(rng, v, True) if r < 0.5 else spell(rng, v, 1))
                data.append(v)
    elif d == 'DEFW':
        for _ in range(rng.randint(1, 4)):
            v = rng.choice([0, 1, 255, 256, 0x7FFF, 0x8000, 0xFFFF, rng.randrange(65536)])
            items.append(spellx(rng, v, True) if rng.random() < 0.5 else spell(rng, v, 2))
            data.extend((v & 255, v >> 8))
    else:
        n = rng.choice([1, 2, 3, 255, 256, 257, rng.randint(1, 700)])
        items.append(spellx(rng, n, True) if rng.random() < 0.5 else spell(rng, n, 2, False))
        if rng.random() < 0.6:
            v = rng.choice([0, 1, 255, rng.randrange(256)])
            items.append(spellx(rng, v, True) if rng.random() < 0.4 else spell(rng, v, 1))
        else:
            v = 0
        data = [v] * n
    sep = rng.choice([',', ', ', ' , ', ' ,'])
    if rng.random() < 0.3:
        d = d.lower()
    return '%s %s' % (d + ' ' * rng.randrange(2), sep.join(items)), data

def mangle(rng, text):
    """Odd whitespace / case (outside strings)."""
    if '"' in text:
        return text
    if rng.random() < 0.4:
        text = text.lower()
    if rng.random() < 0.4:
        text = text.replace(',', ' , ' if rng.random() < 0.5 else ', ')
    if rng.random() < 0.3:
        text = text.replace(' ', '\t', 1) if rng.random() < 0.5 else text.replace(' ', '   ', 1)
    if rng.random() < 0.2:
        text = text + ' '
    return text

def run_b(shard, spec):
    from skoolkit.z80 import Assembler
    from skoolkit.disassembler import Disassembler
    asm = Assembler()
    snap = [0] * 65536
    n = 40000 if shard.tier == 'quick' else 1200000
    dis = {(h, l): Disassembler(snap, _Cfg(h, l, 'ALL', 1)) for h in (0, 1) for l in (0, 1)}
    for case in range(spec['shard'], n, spec['of']):
        rng = shard.rng('b', case)
        kind = rng.choice(['byte', 'word', 'index', 'indexn', 'jr', 'rst', 'bit', 'im', 'def', 'bytex', 'wordx'])
        defdata = None
        addr = rng.choice(ADDRS) if rng.random() < 0.5 else rng.randrange(65536)
        exp = None
        if kind == 'def':
            text, defdata = def_statement(rng)
        elif kind == 'bytex':
            v = rng.choice([0, 1, 127, 128, 255, rng.randrange(256)])
            text = rng.choice(TEMPLATES_BYTE).format(n=spellx(rng, v))
            exp = [v]
        elif kind == 'wordx':
            v = rng.choice([0, 1, 255, 256, 0x7FFF, 0x8000, 0xFFFF, rng.randrange(65536)])
            text = rng.choice(TEMPLATES_WORD).format(nn=spellx(rng, v))
            exp = [v & 255, v >> 8]
        elif kind == 'byte':
            v = rng.choice([0, 1, 127, 128, 255, rng.randrange(256)])
            t = rng.choice(TEMPLATES_BYTE)
            sp = spell(rng, v, 1)
            if sp.startswith('-') and ('IN A' in t or 'OUT (' in t):
                sp = str(v)
            text = t.format(n=sp)
            exp = [v]
        elif kind == 'word':
            v = rng.choice([0, 1, 255, 256, 0x7FFF, 0x8000, 0xFFFF, rng.randrange(65536)])
            t = rng.choice(TEMPLATES_WORD)
            sp = spell(rng, v, 2)
            if '(' in t and sp.startswith('"'):
                sp = str(v)
            text = t.format(nn=sp)
            exp = [v & 255, v >> 8]
        elif kind in ('index', 'indexn'):
            d = rng.choice([0, 1, 127, -1, -128, rng.randint(-128, 127)])
            ds = ('+' if d >= 0 else '-') + spell(rng, abs(d), 1, False)
            if ds[1:].startswith('"') or '-' in ds[1:]:
                ds = ('+' if d >= 0 else '-') + str(abs(d))
            if kind == 'index':
                text = rng.choice(TEMPLATES_INDEX).format(d=ds)
                exp = [d & 255]
            else:
                v = rng.randrange(256)
                text = rng.choice(TEMPLATES_INDEX_N).format(d=ds, n=spell(rng, v, 1))
                exp = [d & 255, v]
        elif kind == 'jr':
            off = rng.choice([-128, -127, -2, -1, 0, 1, 126, 127, rng.randint(-128, 127)])
            tgt = addr + 2 + off
            if not 0 <= tgt < 65536:
                shard.skip('relative jump target outside 0..65535')
                continue
            text = rng.choice(TEMPLATES_JR).format(t=spell(rng, tgt, 2) if not (32 <= tgt < 127) else str(tgt))
            exp = [off & 255]
        elif kind == 'rst':
            v = 8 * rng.randrange(8)
            text = 'RST ' + spell(rng, v, 1, False) if v else 'RST 0'
            if text.startswith('RST "') or '-' in text:
                text = 'RST %d' % v
            exp = []
        elif kind == 'bit':
            bit = rng.randrange(8)
            r = rng.choice(['B', 'C', 'D', 'E', 'H', 'L', '(HL)', 'A'])
            text = '%s %s,%s' % (rng.choice(['BIT', 'RES', 'SET']), rng.choice([str(bit), '$%X' % bit, '%' + bin(bit)[2:]]), r)
            exp = []
        else:
            text = 'IM ' + rng.choice(['0', '1', '2', '$1', '%10'])
            exp = []
        if kind != 'def':
            text = mangle(rng, text)
        try:
            b1 = asm.assemble(text, addr)
        except Exception as e:
            shard.violation('Assembler.assemble raised %r on %r' % (e, text), {'part': 'b', 'case': case})
            continue
        shard.inc('contract:assemble_result')
        if not b1:
            # not accepted: outside the property's antecedent, but our generator only emits valid text
            shard.violation('assembler rejects generated text %r at %d' % (text, addr), {'part': 'b', 'case': case})
            continue
        if not all(isinstance(x, int) and 0 <= x <= 255 for x in b1):
            shard.violation('assembler returned non-byte values %r for %r' % (b1, text), {'part': 'b', 'case': case})
            continue
        # intended operand value is encoded
        tail = list(b1)[-len(exp):] if exp else []
        if kind in ('index', 'indexn') and len(b1) == 4 and b1[1] == 0xCB:
            tail = [b1[2]]
        elif kind == 'index':
            tail = [b1[2]]
        elif kind == 'indexn':
            tail = [b1[2], b1[3]]
        if exp and tail != exp:
            shard.violation('%r at %d assembles to %s: operand bytes %r, intended %r' % (text, addr, bytes(b1).hex(), tail, exp), {'part': 'b', 'case': case})
            continue
        if kind == 'def':
            shard.hist('b_kind', kind)
            if list(b1) != defdata:
                shard.violation('%r assembles to %s, the statement denotes %s' % (text, bytes(b1).hex(), bytes(defdata).hex()), {'part': 'b', 'case': case})
                continue
            # disassemble those bytes as data in a random base and assemble the statements again
            a0 = min(addr, 65536 - len(b1))
            snap[a0:a0 + len(b1)] = list(b1)
            d = dis[(rng.randrange(2), rng.randrange(2))]
            word = text.upper().startswith('DEFW')
            meth = rng.choice([d.defb_range, d.defm_range] + [d.defw_range] * (4 * word) + [d.defs_range] * (4 * text.upper().startswith('DEFS')))
            base = rng.choice('nbdh' if meth == d.defs_range else 'nbcdh')
            again = []
            try:
                for ins in meth(a0, a0 + len(b1), ((0, base),)):
                    again.extend(asm.assemble(ins.operation, ins.address) or ())
            except Exception as e:
                shard.violation('%r -> %s -> data statements in base %s raised %r' % (text, bytes(b1).hex(), base, e), {'part': 'b', 'case': case})
                continue
            shard.case(('b', text, addr), True, sample={'text': text, 'bytes': bytes(b1).hex()[:64]} if case < 40 else None)
            if again != list(b1):
                shard.violation('%r -> %s -> %s statements (base %s) -> %s' % (text, bytes(b1).hex(), meth.__name__, base, bytes(again).hex()), {'part': 'b', 'case': case})
            continue
        # disassemble those bytes and assemble the result again
        for i, x in enumerate(b1):
            snap[(addr + i) & 0xFFFF] = x
        d = dis[(rng.randrange(2), rng.randrange(2))]
        base = rng.choice('nbcdh')
        ins = d.disassemble(addr, addr + 1, base)[0]
        try:
            b2 = asm.assemble(ins.operation, addr)
        except Exception as e:
            shard.violation('assembler raised %r on re-disassembled %r (from %r)' % (e, ins.operation, text), {'part': 'b', 'case': case})
            continue
        ok = tuple(b2) == tuple(b1) or (ins.variant and len(b2) == len(b1))
        shard.case(('b', text, addr), True, sample={'text': text, 'addr': addr, 'bytes': bytes(b1).hex(), 'disassembled': ins.operation} if case < 4 else None)
        shard.hist('b_kind', kind)
        if not ok:
            shard.violation('%r at %d -> %s -> %r -> %s' % (text, addr, bytes(b1).hex(), ins.operation, bytes(b2 or ()).hex()), {'part': 'b', 'case': case})

def run(shard, spec):
    if spec['part'] == 'a':
        run_a(shard, spec)
    elif spec['part'] == 'b':
        run_b(shard, spec)
    else:
        run_def(shard, spec)

def replay(shard, rp):
    from skoolkit.disassembler import Disassembler
    if rp.get('part') == 'a':
        mon = Monitor(shard)
        snap = [0] * 65536
        for i, x in enumerate(rp['bytes']):
            snap[(rp['addr'] + i) & 0xFFFF] = x
        d = Disassembler(snap, _Cfg(rp['hex'], rp['lower'], rp['ops'], rp['wrap']))
        for ins in d.disassemble(rp['addr'], rp['addr'] + 1, rp['base']):
            err = mon.check(ins, None, rp['base'])
            print(ins.operation, ins.bytes, 'variant' if ins.variant else '', '->', err or 'ok')
            shard.case(('replay',), True)
            if err:
                shard.violation(err, rp)
    else:
        print('re-run the shard: part %s case %s (cases are derived from VERIF_SEED)' % (rp.get('part'), rp.get('case')))

TECHNIQUE = 'post-condition contract on the real Disassembler/Assembler (re-assembly identity) driven by table enumeration and generated operand spellings'
LEVEL_TEXT = ('Every statement the real disassembler returns in the workload is re-assembled by the real assembler and must give back the bytes it was decoded '
              'from; all 1792 table slots x 256 first-operand values are visited with sampled base/case/hex/Opcodes/address combinations, DEFB/DEFM/DEFW/DEFS '
              'ranges with sublength lists are tiled, and generated texts with known operand values (instructions with expression operands - parentheses, / and modulo, character constants - and DEFB/DEFM/DEFS/DEFW statements with escaped strings and mixed items) are taken through assemble/disassemble/assemble.')
LEVEL_NOTE = 'Sampled product of configuration dimensions (not the full cross product); base m excluded for unsigned-only operands; trusted: the generator computes the intended operand value correctly.'
