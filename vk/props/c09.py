"""C09 - Snapshot files round-trip: what is written is what is read back.

Parts (one shard runs one part):
  rle    every string over {ED,00,01} of length 1..12 (thorough 1..13) through the real Z80._make_z80_ram_block, both block forms (exhaustive)
  runs   runs of every byte value / of ED of every length 1..600 with ED and other bytes directly before and after (codec level)
  snap   random machine x RAM image x registers x state through the real write_snapshot (.z80 and .szx), read back by
         Snapshot.get and by decoders written from the format texts; cross-format identity
  sweep  one register / state attribute swept over its values (R incl. bit 7, T across and beyond the frame, 0x7FFD, AY ...)
  tool   bin2sna.main and snapmod.main against a small model of --reg/--state/--poke/--move/--patch
  sim    simutils.from_snapshot -> get_state -> write_snapshot -> Snapshot.get (no instruction executed)
"""
import itertools
import time

from vk import harness
from vk.gens import c09_ramgen as ramgen
from vk.ref import c09_z80fmt as z80fmt
from vk.ref import c09_szxfmt as szxfmt
from vk.ref import c09_optmodel as optmodel

ID = 'C09'
NEEDS_C = False
LEVEL = 'exploration'
EXHAUSTIVE = False
EXHAUSTIVE_NOTE = ('the Z80 run-length coder is enumerated completely for all strings over {0xED,0x00,0x01} of length 1..12 (797 160 strings; 1..13 = 2 391 483 in the thorough tier) in both '
                   'block forms (version 1 with end marker, version 2/3 with length header); everything else is sampled')
RULE = ('(rle) every string over {ED,00,01} of length 1..12 (thorough: 1..13) x {v1 block, v2/3 block}, non-trivial when it contains ED or a run of >= 5; '
        '(runs) value x run length x bytes directly before/after, distinct by the string; '
        '(snap/sweep) machine {48K,128K,+2} x RAM image style x register values x state attributes x {.z80,.szx}, non-trivial when the RAM holds an ED byte '
        'and a run of >= 5 equal bytes or when a swept field is off its default, distinct by hash of (machine, RAM, register specs, state specs); '
        '(tool) input snapshot/binary x option list, non-trivial when at least one memory option and one register/state option is present, distinct by hash of '
        '(input file, argv); (sim) as snap')
ASSUMPTIONS = ['register and state values are generated inside their documented ranges (8/16-bit registers, border 0-7, im 0-2, iff 0-1, AY register index 0-15); '
               'T-states may be any non-negative integer and are compared as a position in the frame (value modulo 69888 / 70908)',
               '0x7FFD, 0xFFFD and AY state are only written for 128K/+2 machines, issue2 only for 48K, MEMPTR and 0xFE are only compared for SZX',
               'addresses given to --poke/--move/--patch lie in 0..65535 and blocks stay inside the 64K address space (or inside the named bank); --move never reads '
               'from the ROM area; bank prefixes are only used on 128K snapshots; memory options of different kinds in one command touch disjoint cells (the order '
               'in which snapmod applies kinds is not documented); options that name the same register twice are applied left to right',
               'bin2sna is compared against its own output without the extra options (defaults such as I, IY are not modelled), except for what commands.rst '
               'documents: border 7, SP = PC = ORG, RAM = file at ORG',
               'a Z80 version 1 file cannot hold PC=0; such cases are skipped']
MIN_NONTRIVIAL = {'quick': 1500000, 'thorough': 6000000}

FRAME = {'48K': 69888, '128K': 70908, '+2': 70908}
MACHINES = ['48K', '128K', '+2']
R8 = ('a', 'f', 'a2', 'f2', 'i', 'r')
R16 = ('bc', 'de', 'hl', 'bc2', 'de2', 'hl2', 'ix', 'iy', 'sp', 'pc')
REGS = R8 + R16
SPEC_NAME = {'a2': '^a', 'f2': '^f', 'bc2': '^bc', 'de2': '^de', 'hl2': '^hl'}
F_SZX_TSTATES = 'C09-szx-tstates-not-reduced-to-frame'

# ------------------------------------------------------------------ plan

def plan(tier, seed):
    """Budgets are CPU seconds of the worker (load-independent, so that coverage does not depend on what else the machine is doing);
    'budget_s' (wall) is only a generous fallback and 'timeout' the watchdog."""
    q = tier == 'quick'
    common = {'timeout': 900 if q else 9000, 'budget_s': 240 if q else 3000, 'cpu_s': 40 if q else 600}
    specs = []
    for i in range(3):
        specs.append(dict(common, part='rle', first=i))
    n = 2 if q else 3
    for i in range(n):
        specs.append(dict(common, part='runs', shard=i, of=n))
    n = 4 if q else 5
    for i in range(n):
        specs.append(dict(common, part='snap', shard=i, of=n))
    n = 2 if q else 1
    for i in range(n):
        specs.append(dict(common, part='sweep', shard=i, of=n))
    for i in range(4):
        specs.append(dict(common, part='tool', shard=i, of=4))
    specs.append(dict(common, part='sim', shard=0, of=1))
    return specs

def stop(shard, spec):
    return shard.out_of_time() or time.process_time() > spec.get('cpu_s', 1e9)

# ------------------------------------------------------------------ helpers: states, specs, comparison

def pick8(rng):
    return rng.choice([0, 1, 0x7F, 0x80, 0xFF, 0xED, rng.randrange(256), rng.randrange(256), rng.randrange(256)])

def pick16(rng):
    return rng.choice([0, 1, 0xFF, 0x100, 0x3FFF, 0x4000, 0x7FFF, 0x8000, 0xFFFF, 0xEDED, 0x00ED, 0xED00,
                       rng.randrange(65536), rng.randrange(65536), rng.randrange(65536), rng.randrange(65536)])

def t_values(machine):
    f = FRAME[machine]
    q = f // 4
    vals = [0, 1, 2, q - 2, q - 1, q, q + 1, 2 * q - 1, 2 * q, 2 * q + 1, 3 * q - 1, 3 * q, 3 * q + 1, f - 2, f - 1, f, f + 1, 2 * f - 1, 2 * f, 2 * f + 5,
            34943, 17471, 17472, 17726, 17727, 65535, 65536, 65537, 69887, 69888, 70907, 70908, 100000, 1500000, (1 << 24) - 1, 1 << 24, (1 << 24) + 1,
            (1 << 24) + f + 3, 240 * f + 7, 10 ** 9, (1 << 32) - 1, (1 << 32) + 12345]
    return vals

def pick_t(rng, machine):
    k = rng.random()
    f = FRAME[machine]
    if k < 0.35:
        return rng.choice(t_values(machine))
    if k < 0.75:
        return rng.randrange(f)
    if k < 0.9:
        return rng.randrange(f, 1 << 24)
    return rng.randrange(1 << 24, 1 << 33)

def gen_state(rng, machine):
    st = {'machine': machine}
    for k in R8:
        st[k] = pick8(rng)
    for k in R16:
        st[k] = pick16(rng)
    st['memptr'] = pick16(rng)
    st['iff'] = rng.randrange(2)
    st['im'] = rng.randrange(3)
    st['border'] = rng.randrange(8)
    st['T'] = pick_t(rng, machine)
    st['outfe'] = pick8(rng)
    if machine == '48K':
        st['issue2'] = rng.randrange(2)
    else:
        st['out7ffd'] = pick8(rng)
        st['outfffd'] = pick8(rng)
        st['ay'] = tuple(pick8(rng) for _ in range(16))
    return st

def fmtnum(rng, v, allow0x=True):
    k = rng.random()
    if k < 0.6:
        return str(v)
    if k < 0.8 or not allow0x:
        return '$%X' % v if rng.random() < 0.5 else '$%04x' % v
    return '0x%X' % v if rng.random() < 0.5 else '0x%04x' % v

def reg_specs(rng, st, only=None):
    """'name=value' strings that produce the registers of st (pairs sometimes given as two halves), in random order."""
    specs = []
    for k in (only or REGS + ('memptr',)):
        v = st[k]
        name = SPEC_NAME.get(k, k)
        if k in ('bc', 'de', 'hl', 'bc2', 'de2', 'hl2') and rng.random() < 0.4:
            pre = '^' if k.endswith('2') else ''
            p = k[:2]
            halves = ['%s%s=%s' % (pre, p[0], fmtnum(rng, v >> 8)), '%s%s=%s' % (pre, p[1], fmtnum(rng, v & 255))]
            rng.shuffle(halves)
            specs.extend(halves)
        else:
            specs.append('%s=%s' % (name, fmtnum(rng, v)))
    rng.shuffle(specs)
    return [s.upper().replace('0X', '0x') if rng.random() < 0.3 else s for s in specs]

def state_specs(rng, st, only=None):
    specs = []
    names = only or ['iff', 'im', 'border', 'tstates', 'fe', 'issue2', '7ffd', 'fffd', 'ay']
    for n in names:
        if n == 'iff':
            specs.append('iff=%d' % st['iff'])
        elif n == 'im':
            specs.append('im=%d' % st['im'])
        elif n == 'border':
            specs.append('border=%d' % st['border'])
        elif n == 'tstates':
            specs.append('tstates=%d' % st['T'])
        elif n == 'fe':
            specs.append('fe=%s' % fmtnum(rng, st['outfe'], False))
        elif n == 'issue2' and 'issue2' in st:
            specs.append('issue2=%d' % st['issue2'])
        elif n == '7ffd' and 'out7ffd' in st:
            specs.append('7ffd=%s' % fmtnum(rng, st['out7ffd'], False))
        elif n == 'fffd' and 'outfffd' in st:
            specs.append('fffd=%s' % fmtnum(rng, st['outfffd'], False))
        elif n == 'ay' and 'ay' in st:
            specs.extend('ay[%d]=%d' % (i, v) for i, v in enumerate(st['ay']))
    rng.shuffle(specs)
    return specs

def expected(st, fmt, spec_decoder=False):
    """What must come back for the written state st, in format fmt."""
    e = {k: st[k] for k in REGS}
    e['iff1'] = e['iff2'] = st['iff']
    e['im'] = st['im']
    e['border'] = st['border']
    e['tstates'] = st['T'] % FRAME[st['machine']]
    e['machine'] = st['machine']
    if st['machine'] != '48K':
        e['out7ffd'], e['outfffd'], e['ay'] = st['out7ffd'], st['outfffd'], tuple(st['ay'])
    elif spec_decoder and 'issue2' in st:
        e['issue2'] = st['issue2']
    if fmt == 'szx':
        e['memptr'] = st['memptr']
        e['outfe'] = st['outfe']
    return e

SNAP_ATTRS = REGS + ('iff1', 'iff2', 'im', 'border', 'tstates', 'memptr', 'out7ffd', 'outfffd', 'outfe', 'machine')

def snap_to_dict(snap):
    d = {k: getattr(snap, k) for k in SNAP_ATTRS}
    d['ay'] = tuple(snap.ay)
    d['ram_flat'] = bytes(snap.ram(-1))
    return d

def flat(ram):
    if isinstance(ram, (bytes, bytearray)):
        return bytes(ram)
    return b''.join(bytes(b) for b in ram)

def diff_fields(exp, got):
    return [(k, exp[k], got.get(k)) for k in sorted(exp) if got.get(k) != exp[k]]

def diff_ram(exp_flat, got_flat):
    if exp_flat == got_flat:
        return None
    if len(exp_flat) != len(got_flat):
        return 'RAM length %d, expected %d' % (len(got_flat), len(exp_flat))
    bad = [i for i in range(len(exp_flat)) if exp_flat[i] != got_flat[i]]
    i = bad[0]
    return 'RAM differs in %d cells, first at offset %d (bank-relative %d): expected %s got %s' % (
        len(bad), i, i % 16384, exp_flat[max(0, i - 4):i + 8].hex(), got_flat[max(0, i - 4):i + 8].hex())

def ram_features(flat_ram):
    has_ed = b'\xed' in flat_ram
    has_run = False
    # a run of >= 5 equal bytes: look for any byte value repeated five times (cheap check on a few candidates)
    for v in (0, 0xFF, 0xED, flat_ram[0], flat_ram[len(flat_ram) // 2], flat_ram[-1]):
        if bytes((v,)) * 5 in flat_ram:
            has_run = True
            break
    return has_ed, has_run

def is_szx_tstates_mechanism(fmt, st, diffs):
    """The only disagreement is the SZX T-state field, the value written was not inside the frame, and what came back is
    the written value truncated to the three bytes the writer stores instead of the position in the frame."""
    if fmt != 'szx' or st['T'] < FRAME[st['machine']]:
        return False
    if [d[0] for d in diffs] != ['tstates']:
        return False
    return diffs[0][2] == st['T'] % (1 << 24)

def ram_arg(rng, ram):
    """The RAM argument as callers pass it: a list of 49152 ints, or 8 lists of 16384 ints (sometimes bytearrays, as with the C simulators)."""
    if isinstance(ram, (bytes, bytearray)):
        return bytearray(ram) if rng.random() < 0.15 else list(ram)
    if rng.random() < 0.15:
        return [bytearray(b) for b in ram]
    return [list(b) for b in ram]

# ------------------------------------------------------------------ part: rle (exhaustive) and runs

def _z80_instance():
    from skoolkit.snapshot import Z80
    return Z80()

def check_block(shard, z, data, rp_extra, forms=(True, False)):
    """data: bytes. Encodes with the real coder in both block forms; the spec decoder and the real reader must return data."""
    ok = True
    lst = list(data)
    for paged in forms:
        page = 3 + (len(data) % 8) if paged else None
        rp = dict(rp_extra, part='block', data=data.hex() if len(data) <= 4096 else None, paged=paged)
        try:
            blk = z._make_z80_ram_block(lst, page) if paged else z._make_z80_ram_block(lst)
        except Exception as e:
            shard.violation('Z80._make_z80_ram_block raised %s: %s on %s' % (type(e).__name__, e, data[:40].hex()), rp)
            ok = False
            continue
        shard.inc('events:make_z80_ram_block')
        blk = bytes(blk)
        try:
            if paged:
                if len(blk) < 3 or blk[0] + 256 * blk[1] != len(blk) - 3 or blk[2] != page:
                    raise z80fmt.FormatError('block header %s does not give length %d and page %d' % (blk[:3].hex(), len(blk) - 3, page))
                body = blk[3:]
                dec = z80fmt.rle_decode(body)
            else:
                body = blk[:-4]
                dec = z80fmt.rle_decode_v1(blk)
        except z80fmt.FormatError as e:
            shard.violation('block written for %s (%s form) is not decodable per the Z80 format text: %s; block=%s' % (
                data[:64].hex(), 'v2/3' if paged else 'v1', e, blk[:80].hex()), rp)
            ok = False
            continue
        shard.inc('events:spec_rle_decode')
        if dec != data:
            shard.violation('block written for %s (%s form, %d bytes) decodes per the Z80 format text to %s (%d bytes); block=%s' % (
                data[:64].hex(), 'v2/3' if paged else 'v1', len(data), dec[:64].hex(), len(dec), blk[:80].hex()), rp)
            ok = False
            continue
        try:
            back = bytes(z._decompress(list(body)))
        except Exception as e:
            shard.violation('Z80._decompress raised %s: %s on the block written for %s' % (type(e).__name__, e, data[:40].hex()), rp)
            ok = False
            continue
        shard.inc('events:real_decompress')
        if back != data:
            shard.violation('Z80._decompress(Z80._make_z80_ram_block(x)) != x for x=%s: got %s' % (data[:64].hex(), back[:64].hex()), rp)
            ok = False
    return ok

RLE_MAXLEN = {'quick': 12, 'thorough': 13}

def rle_total(tier):
    return (3 ** (RLE_MAXLEN[tier] + 1) - 3) // 2

def run_rle(shard, spec):
    z = _z80_instance()
    alphabet = (0xED, 0x00, 0x01)
    first = alphabet[spec['first']]
    evals = nontrivial = 0
    for n in range(1, RLE_MAXLEN[shard.tier] + 1):
        for tail in itertools.product(alphabet, repeat=n - 1):
            data = bytes((first,) + tail)
            check_block(shard, z, data, {'why': 'rle'})
            evals += 2
            if 0xED in data or any(data[i:i + 5] == data[i:i + 1] * 5 for i in range(len(data) - 4)):
                nontrivial += 2
        shard.hist('rle_length_done', n, 3 ** (n - 1))
    shard.bulk(evals, nontrivial)
    shard.inc('observed:rle_strings_enumerated', evals // 2)
    shard.sample({'part': 'rle', 'first_byte': '%02x' % first, 'strings': evals // 2, 'example': data.hex()})

def run_runs(shard, spec):
    z = _z80_instance()
    thorough = shard.tier == 'thorough'
    key_lengths = sorted(set(list(range(1, 9)) + list(range(252, 262)) + list(range(507, 516)) + [600, 764, 765, 766, 1020, 1021]))
    key_set = set(key_lengths)
    n = distinct = 0
    ed_seen = set()
    for val in range(256):
        if val % spec['of'] != spec['shard']:
            continue
        x = (val + 1) % 256 if (val + 1) % 256 != 0xED else 0x11
        y = (val + 7) % 256 if (val + 7) % 256 != 0xED else 0x22
        full = thorough or val in (0xED, 0x00, 0xFF, 0xEC, 0xEE)
        prefixes = [b'', b'\xed', bytes((x,)), bytes((x, 0xED)), bytes((0xED, x))]
        suffixes = [b'', b'\xed', bytes((y,)), bytes((0xED, val)), b'\xed\xed']
        for L in range(1, 601):
            for pi, pre in enumerate(prefixes):
                for si, suf in enumerate(suffixes):
                    # every (value, length) is visited; all 25 neighbourhoods at the key lengths and for ED/00/FF/EC/EE, one rotating neighbourhood otherwise
                    if not full and L not in key_set and (pi * 5 + si) != (L + val) % 25:
                        continue
                    data = pre + bytes((val,)) * L + suf
                    check_block(shard, z, data, {'why': 'runs', 'val': val, 'len': L}, forms=(True, False) if (L + pi) % 2 == 0 or val == 0xED else (True,))
                    if n % 50021 == 0:
                        shard.sample({'part': 'runs', 'value': '%02x' % val, 'length': L, 'before': pre.hex(), 'after': suf.hex()})
                    n += 1
                    if val == 0xED:
                        ed_seen.add(data)     # ED neighbours merge with an ED run: count distinct strings
                    else:
                        distinct += 1         # distinct by construction: (value, length, before, after) determines the string
            shard.inc('observed:value_length_pairs')
            if val == 0xED:
                shard.hist('ed_run_lengths_covered', 'n', 1)
        shard.hist('run_values_covered', 'n', 1)
        if stop(shard, spec):
            shard.inc('stopped_on_budget')
            shard.note_inconclusive('runs shard %d stopped on its time budget at value %d' % (spec['shard'], val))
            break
    shard.bulk(n, distinct + len(ed_seen))
    shard.inc('observed:run_strings', n)

# ------------------------------------------------------------------ part: snap / sweep

def write_and_check(shard, st, ram, regs, state, rp, nontrivial_hint=False, rng=None, key=None):
    """Writes st/ram through the real write_snapshot in both formats and applies oracles (a), (b), (c). Returns True when silent."""
    from skoolkit.snapshot import write_snapshot, Snapshot
    import random
    rng = rng or random.Random(0)
    machine = st['machine']
    exp_flat = flat(ram)
    got = {}
    ok = True
    for fmt in ('z80', 'szx'):
        fname = 'w.' + fmt
        try:
            write_snapshot(fname, ram_arg(rng, ram), list(regs), list(state), machine)
        except Exception as e:
            import traceback
            shard.violation('write_snapshot(%s) raised %s: %s\n%s' % (fmt, type(e).__name__, e, traceback.format_exc()[-800:]), dict(rp, fmt=fmt))
            ok = False
            continue
        shard.inc('events:write_snapshot')
        data = harness.read_file(fname)
        # (a) the real reader
        try:
            snap = Snapshot.get(fname)
            g = snap_to_dict(snap)
        except Exception as e:
            import traceback
            shard.violation('Snapshot.get raised %s: %s on a %s %s file written by write_snapshot\n%s' % (type(e).__name__, e, machine, fmt, traceback.format_exc()[-800:]), dict(rp, fmt=fmt))
            ok = False
            continue
        shard.inc('events:snapshot_get')
        got[fmt] = g
        diffs = diff_fields(expected(st, fmt), g)
        rd = diff_ram(exp_flat, g['ram_flat'])
        if diffs or rd:
            finding = F_SZX_TSTATES if (not rd and is_szx_tstates_mechanism(fmt, st, diffs)) else None
            shard.violation('%s %s: written state does not read back (field, written, read): %s %s\nregisters=%s\nstate=%s' % (
                machine, fmt, diffs[:8], rd or '', regs, [s for s in state if not s.startswith('ay[')]), dict(rp, fmt=fmt, oracle='a'), finding)
            ok = False
        # (c) decoder written from the format text
        try:
            sd = z80fmt.parse(data) if fmt == 'z80' else szxfmt.parse(data)
        except (z80fmt.FormatError, szxfmt.FormatError) as e:
            shard.violation('%s %s file written by write_snapshot is not well formed per the format text: %s' % (machine, fmt, e), dict(rp, fmt=fmt, oracle='c'))
            ok = False
            continue
        shard.inc('events:spec_decode_' + fmt)
        diffs = diff_fields(expected(st, fmt, True), sd)
        rd = diff_ram(exp_flat, flat(sd['ram']))
        if diffs or rd:
            finding = F_SZX_TSTATES if (not rd and is_szx_tstates_mechanism(fmt, st, diffs)) else None
            shard.violation('%s %s: a decoder written from the format text reads a different state (field, written, decoded): %s %s\nregisters=%s\nstate=%s' % (
                machine, fmt, diffs[:8], rd or '', regs, [s for s in state if not s.startswith('ay[')]), dict(rp, fmt=fmt, oracle='c'), finding)
            ok = False
    # (b) the two formats read back identically (MEMPTR and 0xFE excepted)
    if len(got) == 2:
        shard.inc('events:cross_format_compare')
        keys = [k for k in got['z80'] if k not in ('memptr', 'outfe')]
        if machine == '48K':
            keys = [k for k in keys if k not in ('out7ffd', 'outfffd', 'ay')]
        d = [(k, got['z80'][k], got['szx'][k]) for k in keys if k != 'ram_flat' and got['z80'][k] != got['szx'][k]]
        rd = diff_ram(got['z80']['ram_flat'], got['szx']['ram_flat'])
        if d or rd:
            known = ok is False and [x[0] for x in d] == ['tstates'] and st['T'] >= FRAME[machine] and got['szx']['tstates'] == st['T'] % (1 << 24) and not rd
            shard.violation('%s: the same state written as .z80 and .szx reads back differently (field, z80, szx): %s %s' % (machine, d[:8], rd or ''),
                            dict(rp, oracle='b'), F_SZX_TSTATES if known else None)
            ok = False
    return ok

def snap_case(shard, part, case, tier_seed_rp=None):
    rng = shard.rng(part, case)
    machine = rng.choice(MACHINES)
    st = gen_state(rng, machine)
    style = rng.choice(ramgen.STYLES)
    ram = ramgen.gen48(rng, style) if machine == '48K' else ramgen.gen128(rng, style)
    regs = reg_specs(rng, st)
    state = state_specs(rng, st)
    rp = {'part': part, 'case': case, 'seed': shard.seed}
    ok = write_and_check(shard, st, ram, regs, state, rp, rng=rng)
    fl = flat(ram)
    has_ed, has_run = ram_features(fl)
    shard.case((machine, harness.h64(fl), regs, state), has_ed and has_run,
               sample={'part': part, 'machine': machine, 'ram_style': style, 'registers': regs[:6], 'state': [s for s in state if not s.startswith('ay[')], 'tstates': st['T']} if case < 2 else None)
    shard.hist('machine', machine)
    shard.hist('ram_style', style)
    shard.hist('tstates_range', 'in_frame' if st['T'] < FRAME[machine] else ('beyond_frame' if st['T'] < (1 << 24) else 'beyond_2^24'))
    shard.hist('r_bit7', st['r'] >> 7)
    return ok

N_SNAP = {'quick': 5200, 'thorough': 250000}

def run_snap(shard, spec):
    n = N_SNAP[shard.tier]
    for case in range(spec['shard'], n, spec['of']):
        snap_case(shard, 'snap', case)
        if stop(shard, spec):
            shard.inc('stopped_on_budget')
            break

def sweep_list(tier):
    """(machine, field, value) triples."""
    thorough = tier == 'thorough'
    out = []
    for m in MACHINES:
        for v in range(256):
            out.append((m, 'r', v))
        for k in ('a', 'f', 'a2', 'f2', 'i'):
            for v in (range(256) if thorough else sorted(set(list(range(0, 256, 15)) + [1, 0x7F, 0x80, 0xED, 0xFE, 0xFF]))):
                out.append((m, k, v))
        for k in R16 + ('memptr',):
            vals = [0, 1, 0xFF, 0x100, 0x101, 0x7FFF, 0x8000, 0xFF00, 0x00FF, 0xFFFF, 0xEDED, 0x1234]
            if thorough:
                vals = vals + [(i * 2731 + 17) & 0xFFFF for i in range(48)]
            for v in vals:
                out.append((m, k, v))
        f = FRAME[m]
        q = f // 4
        ts = set(t_values(m))
        for b in (0, q, 2 * q, 3 * q, f, 1 << 16, 1 << 24):
            for d in range(-3, 4):
                if b + d >= 0:
                    ts.add(b + d)
        step = 211 if thorough else 1999
        ts.update(range(0, f, step))
        ts.update(range(f, 3 * f, step * 7))
        if thorough:
            ts.update(range(255, f, 256))
            ts.update(range(256, f, 256))
        for v in sorted(ts):
            out.append((m, 'T', v))
        for v in range(8):
            out.append((m, 'border', v))
        for v in range(3):
            out.append((m, 'im', v))
        for v in range(2):
            out.append((m, 'iff', v))
        for v in (range(256) if thorough else range(0, 256, 5)):
            out.append((m, 'outfe', v))
        if m == '48K':
            out.append((m, 'issue2', 0))
            out.append((m, 'issue2', 1))
        else:
            for v in (range(256) if thorough else sorted(set(list(range(0, 256, 3)) + list(range(0, 40))))):
                out.append((m, 'out7ffd', v))
            for v in (range(256) if thorough else range(0, 256, 9)):
                out.append((m, 'outfffd', v))
            for i in range(16):
                for v in ((0, 1, 0x7F, 0x80, 0xFF, 0xED) if thorough else (1, 0xFF)):
                    out.append((m, 'ay%d' % i, v))
    return out

def tagged_ram(rng, machine):
    """Mostly empty RAM with a distinct tag in every page (cheap to code, still identifies every page)."""
    def page(tag):
        p = bytearray(16384)
        p[0] = tag
        p[16383] = tag ^ 0xFF
        o = rng.randrange(1, 16000)
        p[o:o + 6] = bytes((0xED, tag, tag, tag, tag, tag))
        return bytes(p)
    if machine == '48K':
        return page(0x51) + page(0x52) + page(0x53)
    return [page(0xA0 + b) for b in range(8)]

def sweep_case(shard, idx, item):
    m, field, v = item
    rng = shard.rng('sweep', idx)
    st = gen_state(rng, m)
    if field.startswith('ay') and field != 'ay':
        ay = list(st['ay'])
        ay[int(field[2:])] = v
        st['ay'] = tuple(ay)
    else:
        st[field] = v
    ram = tagged_ram(rng, m)
    regs = reg_specs(rng, st)
    state = state_specs(rng, st)
    rp = {'part': 'sweep', 'case': idx, 'seed': shard.seed, 'item': [m, field, v]}
    ok = write_and_check(shard, st, ram, regs, state, rp, rng=rng)
    shard.case(('sweep', m, field, v, regs, state), True,
               sample={'part': 'sweep', 'machine': m, 'field': field, 'value': v} if idx < 1 else None)
    shard.hist('sweep_field', field if not field.startswith('ay') else 'ay[n]')
    return ok

def run_sweep(shard, spec):
    items = sweep_list(shard.tier)
    done = 0
    for idx in range(spec['shard'], len(items), spec['of']):
        sweep_case(shard, idx, items[idx])
        done += 1
        if stop(shard, spec):
            shard.inc('stopped_on_budget')
            shard.note_inconclusive('sweep shard %d stopped on its time budget after %d of %d items' % (spec['shard'], done, len(items) // spec['of']))
            break
    shard.inc('observed:sweep_items', done)

# ------------------------------------------------------------------ part: tool (bin2sna, snapmod)

def parse_file(fname):
    data = harness.read_file(fname)
    if fname.endswith('.z80'):
        return z80fmt.parse(data)
    return szxfmt.parse(data)

STATE_KEYS = REGS + ('iff1', 'iff2', 'im', 'border', 'tstates', 'issue2', 'out7ffd', 'outfffd', 'ay', 'machine')

def norm(s, fmt):
    """Comparable view of a decoded state."""
    d = {k: s.get(k) for k in STATE_KEYS}
    if fmt == 'szx':
        d['memptr'] = s.get('memptr')
        d['outfe'] = s.get('outfe')
    d['ram_flat'] = flat(s['ram'])
    return d

def diff_norm(exp, got):
    d = [(k, exp[k], got[k]) for k in sorted(exp) if k != 'ram_flat' and exp[k] != got[k]]
    rd = diff_ram(exp['ram_flat'], got['ram_flat'])
    return d, rd

def gen_mem_options(rng, mem, is128, kinds, shard=None):
    """Returns [(kind, spec, patch bytes or None)] with disjoint footprints between kinds. mem: optmodel.Mem used only to resolve cells."""
    used = {}            # cell -> kind
    out = []

    def cells(page, a, n):
        res = []
        for i in range(n):
            if page is None:
                c = mem._cell(a + i)
                if c is not None:
                    res.append((id(c[0]), c[1]))
            else:
                res.append((id(mem.banks[page & 7]), (a + i) & 0x3FFF))
        return res

    def claim(kind, cs):
        if any(used.get(c, kind) != kind for c in cs):
            return False
        for c in cs:
            used[c] = kind
        return True

    def addr(n=1, ram_only=False):
        lo = 0x4000 if ram_only or rng.random() < 0.93 else 0x3FF0
        k = rng.random()
        if k < 0.3:
            b = rng.choice([0x4000, 0x8000, 0xC000, 0x10000])
            a = b - rng.randint(0, n + 2)
        else:
            a = rng.randrange(lo, 0x10000)
        return max(lo, min(a, 0x10000 - n))

    for kind in kinds:
        for _ in range(rng.randint(1, 3)):
            page = rng.randrange(8) if is128 and rng.random() < 0.5 else None
            ptxt = '' if page is None else '%d:' % page      # page numbers above 7 are outside the documented range
            if kind == 'poke':
                form = rng.randrange(3)
                a = addr()
                if page is not None:
                    a = rng.choice([a, rng.randrange(0x4000), 0x3FFF, 0])
                if form == 0:
                    b, c, atxt = a, 1, fmtnum(rng, a)
                elif form == 1:
                    b = min(a + rng.randint(0, 300), 0xFFFF)
                    c, atxt = 1, '%s-%s' % (fmtnum(rng, a), fmtnum(rng, b))
                else:
                    c = rng.choice([1, 2, 3, 7, 256, 257])
                    b = min(a + rng.randint(0, 40) * c + rng.randint(0, c - 1), 0xFFFF)
                    atxt = '%s-%s-%s' % (fmtnum(rng, a), fmtnum(rng, b), fmtnum(rng, c))
                if page is not None and (a >> 14) != (b >> 14):
                    b = a | 0x3FFF          # stay inside the named bank
                    atxt = '%s-%s-%s' % (a, b, c)
                op = rng.choice(['', '', '^', '+'])
                v = pick8(rng)
                cs = []
                for n in range(a, b + 1, c):
                    cs.extend(cells(page, n, 1))
                if not claim(kind, cs):
                    continue
                out.append((kind, '%s%s,%s%s' % (ptxt, atxt, op, fmtnum(rng, v)), None))
            elif kind == 'move':
                n = rng.choice([1, 2, 16, 255, 256, rng.randint(1, 3000)])
                if page is None:
                    s, d = addr(n, True), addr(n)
                    dpage, dtxt = None, ''
                else:
                    n = min(n, 0x4000)
                    s, d = rng.randint(0, 0x4000 - n), rng.randint(0, 0x4000 - n)
                    base = rng.choice([0, 0x4000, 0xC000])
                    s, d = s + base, d + base
                    if rng.random() < 0.5:
                        dpage = rng.randrange(8)
                        dtxt = '%d:' % dpage
                    else:
                        dpage, dtxt = page, ''
                cs = cells(page, s, n) + cells(dpage, d, n)
                if not claim(kind, cs):
                    continue
                out.append((kind, '%s%s,%s,%s%s' % (ptxt, fmtnum(rng, s), fmtnum(rng, n), dtxt, fmtnum(rng, d)), None))
            else:
                n = rng.choice([1, 2, 100, 257, rng.randint(1, 5000)])
                data = ramgen.gen(rng, n, rng.choice(['random', 'edrich', 'runs']))
                if page is None:
                    a = addr(n)
                else:
                    a = rng.choice([0, 0x4000, 0xC000]) + rng.randrange(0x4000)
                cs = cells(page, a, n if page is None else min(n, 0x4000 - (a & 0x3FFF)))
                if not claim(kind, cs):
                    continue
                out.append((kind, '%s%s' % (ptxt, fmtnum(rng, a)), data))
    return out

def gen_regstate_options(rng, s, fmt, version, for_snapmod=True):
    """Random --reg / --state options. Returns (reg specs, state specs)."""
    machine = s['machine']
    regs, state = [], []
    names = ['a', 'f', 'b', 'c', 'd', 'e', 'h', 'l', 'bc', 'de', 'hl', '^a', '^f', '^b', '^c', '^d', '^e', '^h', '^l', '^bc', '^de', '^hl',
             'ix', 'iy', 'sp', 'pc', 'i', 'r', 'memptr']
    for _ in range(rng.choice([0, 1, 1, 2, 3, 6])):
        n = rng.choice(names)
        wide = len(n.lstrip('^')) == 2 or n == 'memptr'
        v = pick16(rng) if wide else pick8(rng)
        if n == 'pc' and version == 1 and v == 0:
            v = 0x8000
        regs.append('%s=%s' % (n.upper() if rng.random() < 0.2 else n, fmtnum(rng, v)))
    attrs = ['border', 'iff', 'im', 'tstates', 'fe']
    if machine == '48K':
        attrs.append('issue2')
    else:
        attrs += ['7ffd', 'fffd', 'ay', 'ay']
    for _ in range(rng.choice([0, 1, 1, 2, 4])):
        n = rng.choice(attrs)
        if n == 'border':
            state.append('border=%d' % rng.randrange(8))
        elif n == 'iff':
            state.append('iff=%d' % rng.randrange(2))
        elif n == 'im':
            state.append('im=%d' % rng.randrange(3))
        elif n == 'tstates':
            state.append('tstates=%d' % pick_t(rng, machine))
        elif n == 'fe':
            state.append('fe=%s' % fmtnum(rng, pick8(rng), False))
        elif n == 'issue2':
            state.append('issue2=%d' % rng.randrange(2))
        elif n == '7ffd':
            state.append('7ffd=%s' % fmtnum(rng, pick8(rng), False))
        elif n == 'fffd':
            state.append('fffd=%s' % fmtnum(rng, pick8(rng), False))
        else:
            state.append('ay[%d]=%d' % (rng.randrange(16), pick8(rng)))
    return regs, state

def make_input_snapshot(rng, shard):
    """Writes in.<ext>; returns (fname, fmt, version, source). Sources: the real write_snapshot, or the plain encoders of vk.ref."""
    from skoolkit.snapshot import write_snapshot
    machine = rng.choice(MACHINES)
    st = gen_state(rng, machine)
    style = rng.choice(['sparse', 'sparse', 'random', 'runs', 'edrich', 'mixed'])
    ram = ramgen.gen48(rng, style) if machine == '48K' else ramgen.gen128(rng, style)
    src = rng.choice(['skoolkit', 'skoolkit', 'ref'])
    fmt = rng.choice(['z80', 'szx'])
    version = 3
    fname = 'in.' + fmt
    if src == 'skoolkit':
        write_snapshot(fname, ram_arg(rng, ram), reg_specs(rng, st), state_specs(rng, st), machine)
        variant = 'write_snapshot'
    else:
        s = {k: st[k] for k in REGS}
        s.update(machine=machine, iff1=st['iff'], iff2=st['iff'], im=st['im'], border=st['border'], tstates=st['T'] % FRAME[machine],
                 issue2=st.get('issue2', 0), out7ffd=st.get('out7ffd', 0), outfffd=st.get('outfffd', 0), ay=st.get('ay', (0,) * 16),
                 memptr=st['memptr'], outfe=st['outfe'], ram=ram)
        if fmt == 'z80':
            choices = [(3, True, None), (3, False, None), (3, True, 55), (2, True, None), (2, False, None)]
            if machine == '48K':
                if s['pc'] == 0:
                    s['pc'] = 0x6000
                choices += [(1, True, None), (1, False, None), (1, True, None)]
            version, compress, xlen = rng.choice(choices)
            harness.write_file(fname, z80fmt.build(s, version, compress, xlen))
            variant = 'ref z80 v%d %s%s' % (version, 'compressed' if compress else 'uncompressed', ' xlen55' if xlen else '')
        else:
            compress, extra = rng.random() < 0.5, rng.random() < 0.5
            harness.write_file(fname, szxfmt.build(s, compress, extra))
            variant = 'ref szx %s%s' % ('compressed' if compress else 'uncompressed', ' reordered+CRTR' if extra else '')
    shard.hist('snapmod_input', variant)
    return fname, fmt, version, variant

def snapmod_case(shard, case):
    from skoolkit.snapshot import Snapshot
    rng = shard.rng('snapmod', case)
    fname, fmt, version, variant = make_input_snapshot(rng, shard)
    rp = {'part': 'snapmod', 'case': case, 'seed': shard.seed}
    indata = harness.read_file(fname)
    try:
        s0 = parse_file(fname)
    except (z80fmt.FormatError, szxfmt.FormatError) as e:
        if variant == 'write_snapshot':
            shard.violation('input written by write_snapshot is not well formed: %s' % e, rp)
        else:
            raise
        return
    version = s0.get('version', 3)
    machine = s0['machine']
    is128 = machine != '48K'
    # the reader must agree with the spec decoder on the input
    try:
        g0 = snap_to_dict(Snapshot.get(fname))
    except Exception as e:
        import traceback
        shard.violation('Snapshot.get raised %s: %s on input (%s)\n%s' % (type(e).__name__, e, variant, traceback.format_exc()[-600:]), rp)
        return
    shard.inc('events:snapshot_get')
    check_reader_vs_spec(shard, g0, s0, fmt, 'snapmod input (%s)' % variant, rp)
    mem = optmodel.Mem(s0['ram'], (s0.get('out7ffd') or 0) & 7)
    kinds = rng.choice([[], ['poke'], ['poke'], ['move'], ['patch'], ['poke', 'move'], ['patch', 'poke'], ['patch', 'move', 'poke']])
    memopts = gen_mem_options(rng, mem, is128, kinds)
    regs, state = gen_regstate_options(rng, s0, fmt, version)
    argv = []
    npatch = 0
    opts = []
    for kind, spec, data in memopts:
        if kind == 'poke':
            opts.append((kind, [rng.choice(['-p', '--poke']), spec]))
        elif kind == 'move':
            opts.append((kind, [rng.choice(['-m', '--move']), spec]))
        else:
            pf = 'patch%d.bin' % npatch
            npatch += 1
            harness.write_file(pf, data)
            opts.append((kind, ['--patch', '%s,%s' % (spec, pf)]))
    for r in regs:
        opts.append(('reg', [rng.choice(['-r', '--reg']), r]))
    for x in state:
        opts.append(('state', [rng.choice(['-s', '--state']), x]))
    # command line: options of one kind keep their relative order, kinds are interleaved at random
    queues = {}
    for kind, o in opts:
        queues.setdefault(kind, []).append(o)
    slots = [kind for kind, o in opts]
    rng.shuffle(slots)
    for kind in slots:
        argv += queues[kind].pop(0)
    inplace = rng.random() < 0.25
    out = fname if inplace else 'out.' + fmt
    argv.append(fname)
    if not inplace:
        argv.append(out)
    # model
    s1 = dict(s0)
    for kind, spec, data in memopts:
        if kind == 'poke':
            mem.poke(spec)
        elif kind == 'move':
            mem.move(spec)
        else:
            mem.patch(spec, data)
    s1['ram'] = mem.ram()
    if fmt == 'szx':
        s1.setdefault('memptr', 0)
    for r in regs:
        optmodel.set_reg(s1, r, fmt)
    for x in state:
        optmodel.set_state(s1, x, fmt, version)
    if fmt == 'z80' and version == 1 and s1['pc'] == 0:
        shard.skip('PC=0 cannot be stored in a Z80 version 1 file')
        return
    r = harness.run_tool('snapmod', argv)
    shard.inc('events:snapmod_runs')
    rp['argv'] = argv
    rp['variant'] = variant
    if not r.ok:
        shard.violation('snapmod %s failed on %s: %s\n%s' % (argv, variant, r.describe(), (r.tb or '')[-800:]), rp)
        return
    try:
        sout = parse_file(out)
    except (z80fmt.FormatError, szxfmt.FormatError) as e:
        shard.violation('file written by snapmod %s (input %s) is not well formed per the format text: %s' % (argv, variant, e), rp)
        return
    shard.inc('events:spec_decode_' + fmt)
    d, rd = diff_norm(norm(s1, fmt), norm(sout, fmt))
    if d or rd:
        finding = None
        if fmt == 'szx' and not rd and [x[0] for x in d] == ['tstates']:
            tv = [optmodel.num(x.split('=')[1]) for x in state if x.startswith('tstates=')]
            if tv and tv[-1] >= FRAME[machine] and d[0][2] == tv[-1] % (1 << 24):
                finding = F_SZX_TSTATES
        shard.violation('snapmod %s on %s %s (%s): output differs from input + named changes (field, expected, got): %s %s' % (
            argv, machine, fmt, variant, d[:8], rd or ''), rp, finding)
    if not inplace and harness.read_file(fname) != indata:
        shard.violation('snapmod %s modified its input file although an output file was named' % argv, rp)
    try:
        g1 = snap_to_dict(Snapshot.get(out))
        shard.inc('events:snapshot_get')
        check_reader_vs_spec(shard, g1, sout, fmt, 'snapmod output', rp)
    except Exception as e:
        shard.violation('Snapshot.get raised %s: %s on snapmod output' % (type(e).__name__, e), rp)
    nontrivial = bool(memopts) and bool(regs or state)
    shard.case((harness.h64(indata), argv), nontrivial, sample={'part': 'snapmod', 'input': variant, 'machine': machine, 'argv': argv} if case < 2 else None)
    for kind, spec, data in memopts:
        shard.hist('snapmod_mem_option', kind + (' paged' if ':' in spec.split(',')[0] else ''))
        if kind == 'poke':
            v = spec.split(',')[1]
            shard.hist('poke_form', '%d-part address, op %s' % (spec.split(',')[0].split(':')[-1].count('-') + 1, v[0] if v[0] in '^+' else 'set'))
    for x in regs:
        shard.hist('reg_option', x.split('=')[0].lower())
    for x in state:
        shard.hist('state_option', x.split('=')[0].split('[')[0].lower())

def check_reader_vs_spec(shard, g, s, fmt, what, rp):
    """Snapshot.get attributes against the spec decoder's view of the same file."""
    keys = list(REGS) + ['im', 'border', 'machine']
    if s.get('tstates') is not None:
        keys.append('tstates')
    if s['machine'] != '48K':
        keys += ['out7ffd', 'outfffd', 'ay']
    if fmt == 'szx':
        keys += ['memptr', 'outfe']
    d = [(k, s[k], g[k]) for k in keys if s[k] != g[k]]
    for k in ('iff1', 'iff2'):
        if bool(s[k]) != bool(g[k]):
            d.append((k, s[k], g[k]))
    rd = diff_ram(flat(s['ram']), g['ram_flat'])
    shard.inc('events:reader_vs_spec')
    if d or rd:
        shard.violation('%s: Snapshot.get and a decoder written from the format text disagree (field, spec decoder, Snapshot.get): %s %s' % (what, d[:8], rd or ''),
                        dict(rp, oracle='reader'))
        return False
    return True

def bin2sna_case(shard, case):
    from skoolkit.snapshot import Snapshot
    rng = shard.rng('bin2sna', case)
    rp = {'part': 'bin2sna', 'case': case, 'seed': shard.seed}
    fmt = rng.choice(['z80', 'szx'])
    mode = rng.choice(['48K', '48K', 'page', 'page', '128file'])
    base = []
    banks_given = {}
    if mode == '128file':
        banks = ramgen.gen128(rng, rng.choice(['sparse', 'random', 'runs', 'edrich']))
        harness.write_file('in.bin', b''.join(banks))
        page = rng.choice([None, None] + list(range(8)))
        if page is not None:
            base += ['--page', str(page)]
        exp_ram = banks
        org = 0
        exp_7ffd = page or 0
        exp_pcsp = 0
        machine = '128K'
        top = page or 0
    else:
        size = rng.choice([1, 2, 10, 255, 256, 1000, 16384, 16385, 40000, 49152, rng.randint(1, 49152)])
        data = ramgen.gen(rng, size, rng.choice(['random', 'runs', 'edrich', 'mixed', 'sparse']))
        harness.write_file('in.bin', data)
        if rng.random() < 0.4:
            org = 65536 - size
            give_org = rng.random() < 0.3
        else:
            org = rng.randint(16384, 65536 - size)
            give_org = True
        if give_org:
            base += [rng.choice(['-o', '--org']), str(org) if rng.random() < 0.7 else '0x%X' % org]
        img = bytearray(65536)
        img[org:org + size] = data
        exp_pcsp = org
        if mode == '48K':
            exp_ram = bytes(img[16384:])
            machine = '48K'
            exp_7ffd = 0
            top = 0
        else:
            cands = [0, 1, 3, 4, 6, 7]
            if org >= 0xC000:
                cands += [2, 5]
            page = rng.choice(cands)
            base += ['--page', str(page)]
            eb = {b: bytes(16384) for b in range(8)}
            eb[5] = bytes(img[0x4000:0x8000])
            eb[2] = bytes(img[0x8000:0xC000])
            eb[page] = bytes(img[0xC000:])
            for b in rng.sample([0, 1, 3, 4, 6, 7], rng.choice([0, 1, 2, 5])):
                if b == page:
                    continue
                bd = ramgen.gen(rng, rng.choice([16384, 16384, 1, 100, rng.randint(1, 16384)]), rng.choice(['random', 'runs', 'edrich']))
                harness.write_file('bank%d.bin' % b, bd)
                base += ['--bank', '%d,bank%d.bin' % (b, b)]
                eb[b] = bd + bytes(16384 - len(bd))
            exp_ram = [eb[b] for b in range(8)]
            machine = '128K'
            exp_7ffd = page
            top = page
    # baseline run
    r = harness.run_tool('bin2sna', base + ['in.bin', 'base.' + fmt])
    shard.inc('events:bin2sna_runs')
    rp['base_argv'] = base
    if not r.ok:
        shard.violation('bin2sna %s failed: %s\n%s' % (base, r.describe(), (r.tb or '')[-800:]), rp)
        return
    try:
        s0 = parse_file('base.' + fmt)
    except (z80fmt.FormatError, szxfmt.FormatError) as e:
        shard.violation('file written by bin2sna %s is not well formed per the format text: %s' % (base, e), rp)
        return
    shard.inc('events:spec_decode_' + fmt)
    # documented defaults
    want = {'machine': machine, 'pc': exp_pcsp, 'sp': exp_pcsp, 'border': 7}
    if machine != '48K':
        want['out7ffd'] = exp_7ffd
    d = [(k, v, s0[k]) for k, v in want.items() if s0[k] != v]
    rd = diff_ram(flat(exp_ram), flat(s0['ram']))
    if d or rd:
        shard.violation('bin2sna %s (%s, org %d): snapshot does not hold the input at ORG with the documented defaults (field, expected, got): %s %s' % (
            base, fmt, org, d, rd or ''), rp)
        return
    # options
    mem = optmodel.Mem(s0['ram'], top)
    memopts = gen_mem_options(rng, mem, machine != '48K', rng.choice([[], ['poke'], ['poke'], ['poke']]))
    regs, state = gen_regstate_options(rng, s0, fmt, 3)
    extra = []
    s1 = dict(s0)
    if fmt == 'szx':
        s1.setdefault('memptr', 0)
    if rng.random() < 0.4:
        v = rng.randrange(8)
        extra += [rng.choice(['-b', '--border']), str(v)]
        s1['border'] = v
        state = [x for x in state if not x.startswith('border=')]
    if rng.random() < 0.4:
        v = pick16(rng)
        extra += [rng.choice(['-p', '--stack']), str(v) if rng.random() < 0.6 else '0x%x' % v]
        s1['sp'] = v
        regs = [x for x in regs if x.lower().split('=')[0] != 'sp']
    if rng.random() < 0.4:
        v = pick16(rng)
        extra += [rng.choice(['-s', '--start']), str(v) if rng.random() < 0.6 else '0x%x' % v]
        s1['pc'] = v
        regs = [x for x in regs if x.lower().split('=')[0] != 'pc']
    if machine != '48K' and mode == 'page':
        # an explicit 7ffd state must keep the bank that --page maps
        state = [x if not x.startswith('7ffd=') else '7ffd=%d' % ((optmodel.num(x.split('=')[1]) & 0xF8) | top) for x in state]
    elif machine != '48K' and page is not None:
        state = [x for x in state if not x.startswith('7ffd=')]
    for kind, spec, data in memopts:
        extra += [rng.choice(['-P', '--poke']), spec]
        mem.poke(spec)
    for x in regs:
        extra += [rng.choice(['-r', '--reg']), x]
        optmodel.set_reg(s1, x, fmt)
    for x in state:
        extra += [rng.choice(['-S', '--state']), x]
        optmodel.set_state(s1, x, fmt, 3)
    s1['ram'] = mem.ram()
    argv = base + extra + ['in.bin', 'out.' + fmt]
    rp['argv'] = argv
    r = harness.run_tool('bin2sna', argv)
    shard.inc('events:bin2sna_runs')
    if not r.ok:
        shard.violation('bin2sna %s failed: %s\n%s' % (argv, r.describe(), (r.tb or '')[-800:]), rp)
        return
    try:
        sout = parse_file('out.' + fmt)
    except (z80fmt.FormatError, szxfmt.FormatError) as e:
        shard.violation('file written by bin2sna %s is not well formed per the format text: %s' % (argv, e), rp)
        return
    shard.inc('events:spec_decode_' + fmt)
    d, rd = diff_norm(norm(s1, fmt), norm(sout, fmt))
    if d or rd:
        finding = None
        if fmt == 'szx' and not rd and [x[0] for x in d] == ['tstates']:
            tv = [optmodel.num(x.split('=')[1]) for x in state if x.startswith('tstates=')]
            if tv and tv[-1] >= FRAME[machine] and d[0][2] == tv[-1] % (1 << 24):
                finding = F_SZX_TSTATES
        shard.violation('bin2sna %s (%s): output differs from the plain conversion + named changes (field, expected, got): %s %s' % (argv, fmt, d[:8], rd or ''), rp, finding)
    try:
        g1 = snap_to_dict(Snapshot.get('out.' + fmt))
        shard.inc('events:snapshot_get')
        check_reader_vs_spec(shard, g1, sout, fmt, 'bin2sna output', rp)
    except Exception as e:
        shard.violation('Snapshot.get raised %s: %s on bin2sna output' % (type(e).__name__, e), rp)
    shard.case((harness.h64(harness.read_file('in.bin')), argv), bool(extra), sample={'part': 'bin2sna', 'argv': argv} if case < 2 else None)
    shard.hist('bin2sna_mode', mode + ' ' + fmt)
    for kind, spec, data in memopts:
        shard.hist('bin2sna_poke', 'paged' if ':' in spec.split(',')[0] else 'plain')

N_TOOL = {'quick': 4000, 'thorough': 150000}

def run_tool_part(shard, spec):
    n = N_TOOL[shard.tier]
    for case in range(spec['shard'], n, spec['of']):
        if case % 3 == 0:
            bin2sna_case(shard, case)
        else:
            snapmod_case(shard, case)
        if stop(shard, spec):
            shard.inc('stopped_on_budget')
            break

# ------------------------------------------------------------------ part: sim (simutils.from_snapshot / get_state)

class _StubTracer:
    pass

def sim_case(shard, case):
    from skoolkit.snapshot import write_snapshot, Snapshot
    from skoolkit.simulator import Simulator
    from skoolkit import simutils
    rng = shard.rng('sim', case)
    machine = rng.choice(MACHINES)
    fmt = rng.choice(['z80', 'szx'])
    st = gen_state(rng, machine)
    ram = tagged_ram(rng, machine) if rng.random() < 0.6 else (ramgen.gen48(rng, 'sparse') if machine == '48K' else ramgen.gen128(rng, 'sparse'))
    rp = {'part': 'sim', 'case': case, 'seed': shard.seed}
    f1, f2 = 's1.' + fmt, 's2.' + fmt
    write_snapshot(f1, ram_arg(rng, ram), reg_specs(rng, st), state_specs(rng, st), machine)
    snap1 = Snapshot.get(f1)
    g1 = snap_to_dict(snap1)
    # resume with a clock far beyond one frame in some cases: the position in the frame is what must survive
    big_t = None
    state = None
    if rng.random() < 0.5:
        big_t = g1['tstates'] + FRAME[machine] * rng.choice([1, 2, 239, 240, 241, 1000, 100000])
        state = {'tstates': big_t}
    try:
        sim = simutils.from_snapshot(Simulator, snap1, state=state)
        tr = _StubTracer()
        tr.border = snap1.border if rng.random() < 0.5 else [(0, 0), (5, snap1.border | (rng.randrange(32) << 3))]
        tr.outfe = snap1.outfe
        tr.ay = list(snap1.ay)
        tr.outfffd = snap1.outfffd
        sim.tracer = tr
        ram2, regs2, state2, machine2 = simutils.get_state(sim)
        write_snapshot(f2, ram2, regs2, state2, machine2)
        g2 = snap_to_dict(Snapshot.get(f2))
    except Exception as e:
        import traceback
        shard.violation('from_snapshot/get_state/write_snapshot raised %s: %s\n%s' % (type(e).__name__, e, traceback.format_exc()[-800:]), rp)
        return
    shard.inc('events:sim_roundtrips')
    keys = [k for k in g1 if k not in ('memptr', 'outfe', 'ram_flat')]
    if fmt == 'szx':
        keys += ['memptr', 'outfe']
    if machine == '48K':
        keys = [k for k in keys if k not in ('out7ffd', 'outfffd', 'ay')]
    d = [(k, g1[k], g2[k]) for k in keys if g1[k] != g2[k]]
    rd = diff_ram(g1['ram_flat'], g2['ram_flat'])
    if d or rd:
        finding = None
        if fmt == 'szx' and not rd and [x[0] for x in d] == ['tstates'] and big_t is not None and g2['tstates'] == big_t % (1 << 24):
            finding = F_SZX_TSTATES
        shard.violation('%s %s: snapshot -> simulator (from_snapshot) -> get_state -> write_snapshot reads back differently (field, before, after): %s %s (clock at save: %s)' % (
            machine, fmt, d[:8], rd or '', big_t), rp, finding)
    shard.case(('sim', machine, fmt, case, st['T'], big_t), True, sample={'part': 'sim', 'machine': machine, 'fmt': fmt, 'clock_at_save': big_t} if case < 1 else None)
    shard.hist('sim_clock', 'beyond_frame' if big_t else 'in_frame')

N_SIM = {'quick': 1000, 'thorough': 30000}

def run_sim(shard, spec):
    for case in range(spec['shard'], N_SIM[shard.tier], spec['of']):
        sim_case(shard, case)
        if stop(shard, spec):
            shard.inc('stopped_on_budget')
            break

# ------------------------------------------------------------------ entry points

def run(shard, spec):
    part = spec['part']
    if part == 'rle':
        run_rle(shard, spec)
    elif part == 'runs':
        run_runs(shard, spec)
    elif part == 'snap':
        run_snap(shard, spec)
    elif part == 'sweep':
        run_sweep(shard, spec)
    elif part == 'tool':
        run_tool_part(shard, spec)
    elif part == 'sim':
        run_sim(shard, spec)
    shard.inc('cpu_ms:' + part, int(time.process_time() * 1000))

def finalize(agg, tier):
    c = agg['counters']
    probs = []
    for k in ('events:make_z80_ram_block', 'events:spec_rle_decode', 'events:real_decompress', 'events:write_snapshot', 'events:snapshot_get',
              'events:spec_decode_z80', 'events:spec_decode_szx', 'events:cross_format_compare', 'events:bin2sna_runs', 'events:snapmod_runs',
              'events:reader_vs_spec', 'events:sim_roundtrips'):
        if not c.get(k):
            probs.append('monitor %s observed nothing' % k)
    if c.get('observed:rle_strings_enumerated', 0) != rle_total(tier):
        probs.append('run-length enumeration incomplete: %d of %d strings' % (c.get('observed:rle_strings_enumerated', 0), rle_total(tier)))
    if c.get('observed:value_length_pairs', 0) != 256 * 600:
        probs.append('runs: %d of %d (value, length) pairs visited' % (c.get('observed:value_length_pairs', 0), 256 * 600))
    h = agg['hists']
    if len(h.get('machine', {})) < 3:
        probs.append('not all three machines were written')
    for k in ('beyond_frame', 'beyond_2^24', 'in_frame'):
        if not h.get('tstates_range', {}).get(k):
            probs.append('no snapshot with T-states %s' % k)
    if tier == 'quick':
        minimum = {'events:write_snapshot': 4000, 'events:snapmod_runs': 300, 'events:bin2sna_runs': 300}
    else:
        minimum = {'events:write_snapshot': 60000, 'events:snapmod_runs': 5000, 'events:bin2sna_runs': 5000}
    for k, v in minimum.items():
        if c.get(k, 0) < v:
            probs.append('%s = %d (< %d): workload too thin for the tier' % (k, c.get(k, 0), v))
    return probs

def replay(shard, rp):
    if 'seed' in rp:
        shard.seed = rp['seed']
    part = rp.get('part')
    if part == 'block':
        if rp.get('data') is None:
            print('block too long to store: re-run ./check C09')
            return
        ok = check_block(shard, _z80_instance(), bytes.fromhex(rp['data']), {'why': rp.get('why')}, forms=(rp['paged'],))
    elif part == 'snap':
        ok = snap_case(shard, 'snap', rp['case'])
    elif part == 'sweep':
        ok = sweep_case(shard, rp['case'], tuple(rp['item']))
    elif part == 'snapmod':
        snapmod_case(shard, rp['case'])
    elif part == 'bin2sna':
        bin2sna_case(shard, rp['case'])
    elif part == 'sim':
        sim_case(shard, rp['case'])
    else:
        print('unknown replay part', part)
        return
    print('replayed %s: %d violation(s)' % (part, shard.nviolations))
    for v in shard.violations[:5]:
        print('  ' + v['what'][:1500])

TECHNIQUE = ('contracts on the real Z80 run-length coder (exhaustive over short strings) and a boundary recorder on write_snapshot / bin2sna.main / snapmod.main, '
             'decided by Z80 v1/v2/v3 and ZX-State decoders written from the format texts, cross-format identity and a small model of the option semantics')
LEVEL_TEXT = ('Every string over {ED,00,01} of length 1..12 and runs of every byte value (ED: every length 1..600, with ED directly before/after) go through the real '
              'Z80._make_z80_ram_block in both block forms and must come back from a decoder written from the Z80 format text and from the real reader. Generated '
              '48K/128K/+2 states (hostile RAM images, all registers, R bit 7, T-states across and far beyond the frame, paging and AY state) are written by the real '
              'write_snapshot as .z80 and .szx and must read back field by field through Snapshot.get, identically in both formats, and through the spec decoders, '
              'which also check the chunk/block structure. bin2sna.main and snapmod.main (inputs: skoolkit-written files and v1/v2/v3/uncompressed/reordered files '
              'made by a plain encoder) are compared with a model of --reg/--state/--poke/--move/--patch: every decoded field and every RAM cell of the output must '
              'equal the model. simutils.from_snapshot/get_state are taken through a save/restore cycle with the clock beyond one frame.')
LEVEL_NOTE = ('Only the run-length coder is enumerated (short strings); file-level cases are sampled. The spec decoders were written from the same public format texts the '
              'authors used. SNA files (read-only in skoolkit) are not covered.')
