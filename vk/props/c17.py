"""C17 - skool macros expand with their documented semantics, identically in ASM and HTML mode and wherever
in a skool file the text appears.

Boundary recorder with sentinels: generated macro texts ("chunks", see vk/gens/c17_macrogen.py) are placed
between :sC_P: ... :eC_P: markers in titles, descriptions, register descriptions, start comments, mid-block
comments, instruction comments and end comments of generated skool files; the real skool2asm.main and
skool2html.main are run on the file (same base/case/--var options) and what they wrote between the markers
(stdout / every HTML page) is compared with the value computed by the reference evaluators
(vk/ref/c17_macroref.py, written from the macro documentation) for that chunk at that position.
"""
import os
import re
import shutil

from vk import harness
from vk.gens import c17_macrogen as mg
from vk.ref import c17_macroref as ref

ID = 'C17'
NEEDS_C = False
LEVEL = 'exploration'
RULE = ('macro texts generated from the documented grammar of #EVAL #N #IF #MAP #FOR #FOREACH #WHILE #LET #FORMAT #DEF (+ calls of the '
        'defined macros, keyword and positional arguments) #PEEK #POKES #PUSHS #POPS #CHR #STR #SPACE #PC and #(), nested up to depth 4, '
        'rendered with random admissible delimiters (() [] {} /x/ //a/b// | a b |), bracketed or bare integer parameters, blank/omitted '
        'optional parameters, decimal/$hex numbers, arithmetic over all documented operators, replacement fields (variables, dictionaries, '
        'base, case, mode[], vars[]); each text is self-contained (its own #LET/#DEF/#PUSHS/#POKES/#POPS history) and is placed at 1-3 of '
        '7 kinds of position in a generated skool file; files are run through skool2asm and skool2html with the same -H/-D/-l/-u/--var '
        'options. One evaluation = one (text, position) pair compared in both modes. A text is non-trivial when its macro nesting depth is '
        '>= 2 or it carries a state history; distinct by hash of (text, options).')
ASSUMPTIONS = [
    'the reference value is computed from the syntax tree the text was rendered from, not by re-parsing the text; the rendering rules are the documented parameter syntax',
    'operator mixes without parentheses are generated only where C, Python and school precedence agree; / and % only with non-negative operands, ** with exponents 0..4, '
    '&& and || only as truth values or on 0/1 operands; negative values are never zero-padded',
    'HTML output is compared after undoing HTML escaping once (entities -> characters) and mapping the non-breaking space to a space in both modes',
    'loop variables are tokens that occur nowhere else in the text; #FOR flag 4 (variable in separator) is generated only with separators that do not contain the variable',
    '#LET string values never begin or end with whitespace, loop separators / #FOREACH values / format specs never contain & < > and case-converted #FORMAT text never contains quotes outside the dedicated hazard classes '
    '(each hazard class is a candidate finding, reported with its own finding id)',
    'each text restores or re-initialises the 16 private snapshot bytes it pokes and uses text-unique variable, macro and snapshot names, because the HTML writer expands '
    'some fields more than once and in a different order than the ASM writer',
]
MIN_NONTRIVIAL = {'quick': 2000, 'thorough': 60000}
N_FILES = {'quick': 400, 'thorough': 16000}
CHUNKS_PER_FILE = 40

HAZARDS = {
    'esc': 'C17-loop-separator-double-escaped-in-html',
    'fmt-angle': 'C17-format-spec-angle-bracket-fails-in-html',
    'let-space': 'C17-let-string-edge-whitespace-stripped-in-asm',
    'quote-upper': 'C17-loop-apostrophe-entity-uppercased-in-html',
}
HAZARD_LIST = ['esc', 'fmt-angle', 'let-space', 'quote-upper']

def plan(tier, seed):
    n = 16
    q = tier == 'quick'
    # the watchdog only ever produces "inconclusive" (e.g. an expansion that does not terminate)
    return [{'shard': i, 'of': n, 'timeout': 900 if q else 6000, 'budget_s': 50 if q else 1000} for i in range(n)]

RE_PAIR = re.compile(r':s(\d+)_(\d+):(.*?):e\1_\2:', re.S)

def run_tools(skool, argv, tag='f'):
    """Returns (asm_result, html_result, asm values {(cid,pid): [text]}, html values {(cid,pid): [text]})."""
    fname = tag + '.skool'
    harness.write_file(fname, skool)
    ra = harness.run_tool('skool2asm', ['-q', '-w', '-P', 'line-width=1000000'] + argv + [fname])
    odir = tag + '-html'
    shutil.rmtree(odir, ignore_errors=True)
    rh = harness.run_tool('skool2html', ['-q', '-d', odir, '-w', 'dm'] + argv + [fname])
    asm = {}
    if ra.ok:
        for m in RE_PAIR.finditer(ra.out):
            asm.setdefault((int(m.group(1)), int(m.group(2))), []).append(m.group(3))
    html = {}
    nfiles = 0
    if rh.ok:
        for root, dirs, files in os.walk(odir):
            for fn in files:
                if fn.endswith('.html'):
                    nfiles += 1
                    with open(os.path.join(root, fn), encoding='utf-8') as f:
                        content = f.read()
                    for m in RE_PAIR.finditer(content):
                        html.setdefault((int(m.group(1)), int(m.group(2))), []).append(m.group(3))
    shutil.rmtree(odir, ignore_errors=True)
    return ra, rh, asm, html, nfiles

def expected_for(chunk, f, pc):
    try:
        out, st, ev = mg.evaluate(chunk.tree, f['base_state'], f['opts'], pc)
    except ref.Undefined:
        return None
    return out

def expected_with_let_strip(chunk, f, pc):
    st = f['base_state'].copy()
    o = f['opts']
    try:
        return ref.Evaluator(st, o['base'], o['case'], o['cmdvars'], pc, let_strip=True).text(chunk.tree, ref.Env())
    except ref.Undefined:
        return None

def single_file(f, chunk, slot_kind):
    """A minimal skool file with one chunk at one position kind (for isolation / replay). Returns (skool, pc)."""
    t = ':s%d_0:%s:e%d_0:' % (chunk.cid, chunk.text, chunk.cid)
    full = f['skool']
    # keep the data blocks of the original file (memory contents), replace the code entries
    tail = full[full.index('; Read-only data'):]
    lines = ['@start'] + [l for l in full.splitlines() if l.startswith('@expand=')]
    title = desc = reg = start = mid = com = end = 'Plain'
    if slot_kind == 'title':
        title = t
    elif slot_kind == 'description':
        desc = t
    elif slot_kind == 'register':
        reg = t
    elif slot_kind == 'start-comment':
        start = t
    elif slot_kind == 'mid-block':
        mid = t
    elif slot_kind == 'instruction':
        com = t
    else:
        end = t
    lines += ['; ' + title, ';', '; ' + desc, ';', '; A ' + reg, ';', '; ' + start, 'c30000 XOR A ; Plain', '; ' + mid, ' 30001 RET ; ' + com, '; ' + end, '']
    pc = {'title': 30000, 'description': 30000, 'register': 30000, 'start-comment': 30000, 'mid-block': 30001, 'instruction': 30001, 'end-comment': 30001}[slot_kind]
    return '\n'.join(lines) + '\n' + tail, pc

def classify(chunk, asm_ok, html_ok, asm_val, html_vals, exp, rh_err=None, alt=None):
    """Mechanism predicates of the candidate findings (each over the witness, not over seeds)."""
    hz = chunk.hazard
    if hz == 'esc' and asm_ok and not html_ok and html_vals:
        # HTML output is the expected text with the separator/value escaped twice: undoing the escaping a second time gives the expected text
        if all(ref.normalise(v, html=True) == exp for v in html_vals):
            return HAZARDS['esc']
    if hz == 'fmt-angle' and asm_ok and rh_err and 'Invalid format string' in rh_err:
        return HAZARDS['fmt-angle']
    if hz == 'quote-upper' and asm_ok and rh_err and 'Found unknown macro: #X' in rh_err:
        # html.escape() in #FOR/#FOREACH turned ' into &#x27;, #FORMAT2 upper-cased it to &#X27; and #X is then read as a macro
        return HAZARDS['quote-upper']
    if hz == 'let-space' and html_ok and not asm_ok and alt is not None and asm_val == alt:
        # ASM output is what the reference gives when #LET strips the string value
        return HAZARDS['let-space']
    return None

def check_file(shard, f, file_key, isolate=True):
    ra, rh, asm, html, nfiles = run_tools(f['skool'], f['argv'])
    shard.inc('events:skool2asm_runs')
    shard.inc('events:skool2html_runs')
    shard.inc('events:html_pages_scanned', nfiles)
    rp_base = {'skool': f['skool'], 'argv': f['argv']}
    if not ra.ok or not rh.ok:
        shard.inc('batch_failed:' + ('asm' if not ra.ok else '') + ('html' if not rh.ok else ''))
        return None, (ra, rh)
    results = {}
    for s in f['slots']:
        chunk = f['chunks'][s.cid]
        exp = expected_for(chunk, f, s.pc)
        key = (s.cid, s.pid)
        av = asm.get(key)
        hv = html.get(key)
        rp = dict(rp_base, cid=s.cid, pid=s.pid, kind=s.kind, text=chunk.text, expected=exp)
        shard.inc('observed:placements')
        shard.hist('position', s.kind)
        if not av or len(av) != 1:
            shard.violation('sentinel pair of chunk %d/%d (%s) found %d times in skool2asm output\ntext: %s' % (s.cid, s.pid, s.kind, len(av or []), chunk.text), rp)
            results[key] = False
            continue
        if not hv:
            shard.violation('sentinel pair of chunk %d/%d (%s) not found in any HTML page\ntext: %s' % (s.cid, s.pid, s.kind, chunk.text), rp)
            results[key] = False
            continue
        shard.inc('observed:html_occurrences', len(hv))
        a = ref.normalise(av[0])
        hs = [ref.normalise(v, html=True) for v in hv]
        asm_ok = a == exp
        html_ok = all(h == exp for h in hs)
        results[key] = asm_ok and html_ok
        if asm_ok and html_ok:
            continue
        fid = classify(chunk, asm_ok, html_ok, a, hs, exp, alt=expected_with_let_strip(chunk, f, s.pc) if chunk.hazard == 'let-space' else None)
        if fid:
            rp['finding'] = fid
        bad_h = [h for h in hs if h != exp]
        what = ('%s%s at %s position (pc %d), options %s\ntext:     %s\nexpected: %r\nasm:      %r\nhtml:     %r' % (
            'ASM differs from the documented value' if not asm_ok else 'ASM matches the documented value',
            '; HTML differs' if not html_ok else '; HTML matches', s.kind, s.pc, f['argv'], chunk.text, exp, a, bad_h[:2] or hs[:1]))
        shard.violation(what, rp, fid)
    return results, None

def isolate_failures(shard, f, fail):
    """The whole file failed in one of the tools: run every chunk alone to find the culprit(s)."""
    ra, rh = fail
    found = 0
    for chunk in f['chunks']:
        kinds = sorted({s.kind for s in f['slots'] if s.cid == chunk.cid})
        kind = kinds[0] if kinds else 'description'
        skool, pc = single_file(f, chunk, kind)
        ra1, rh1, asm, html, nfiles = run_tools(skool, f['argv'], 'iso')
        shard.inc('events:isolation_runs')
        if ra1.ok and rh1.ok:
            continue
        found += 1
        fid = None
        if chunk.hazard:
            fid = classify(chunk, ra1.ok, rh1.ok, None, None, None, rh_err=(rh1.err or '') + (rh1.exc or ''))
        what = 'tool failure on a text whose documented meaning is defined: skool2asm %s; skool2html %s\nposition: %s, options %s\ntext: %s' % (
            'ok' if ra1.ok else ra1.describe(), 'ok' if rh1.ok else rh1.describe(), kind, f['argv'], chunk.text)
        rp = {'skool': skool, 'argv': f['argv'], 'cid': chunk.cid, 'pid': 0, 'kind': kind, 'text': chunk.text, 'expected': expected_for(chunk, f, pc)}
        if fid:
            rp['finding'] = fid
        shard.violation(what, rp, fid)
        if found >= 3:
            break
    if not found:
        shard.violation('tool failure on the whole file that no single text reproduces: skool2asm %s; skool2html %s' % (
            'ok' if ra.ok else ra.describe(), 'ok' if rh.ok else rh.describe()), {'skool': f['skool'], 'argv': f['argv']})

# texts the documentation calls erroneous: they must be rejected in both modes
NEG_TEXTS = [
    ('#EVAL(5,3)', 'base other than 2, 10, 16'),
    ('#FOR1(n,n)', 'required stop parameter missing'),
    ('#IF(1) x', 'no output strings'),
    ('#FORMAT0({nosuchfield})', 'unknown replacement field'),
    ('#POPS', 'no snapshot was pushed'),
    ('#PEEK x', 'required address missing'),
    ('#LET(novalue)', 'no value'),
    ('#MAP(1) x', 'no mappings'),
    ('#NOSUCHMACRO', 'unknown macro'),
    ('#EVAL(1+)', 'not an arithmetic expression'),
    ('#FOREACH(a,b) x', 'no variable name'),
    ('#N x', 'required value missing'),
    ('#EVAL(1', 'no closing bracket'),
    ('#LET(a=1)#EVAL({a}+{b})', 'unknown replacement field in an integer parameter'),
]

def run_negative(shard):
    kinds = ['title', 'description', 'register', 'start-comment', 'mid-block', 'instruction', 'end-comment']
    tail = '; Read-only data\nb40000 DEFB 0\n'
    for i, (text, why) in enumerate(NEG_TEXTS):
        kind = kinds[i % len(kinds)]
        chunk = type('C', (), {'cid': 0, 'text': text})
        skool, pc = single_file({'skool': tail}, chunk, kind)
        ra, rh, asm, html, nfiles = run_tools(skool, [], 'neg')
        shard.inc('events:negative_runs')
        shard.case(('neg', text, kind), True)
        if ra.exc or rh.exc and 'SkoolParsingError' not in (rh.exc or ''):
            pass
        a_rej = not ra.ok
        h_rej = not rh.ok
        if a_rej and h_rej:
            shard.inc('observed:erroneous_rejected_in_both_modes')
        else:
            shard.violation('erroneous text (%s) accepted: skool2asm %s, skool2html %s\nposition: %s\ntext: %s' % (
                why, 'rejects' if a_rej else 'accepts', 'rejects' if h_rej else 'accepts', kind, text),
                {'skool': skool, 'argv': [], 'negative': True, 'text': text})

def run(shard, spec):
    n = N_FILES[shard.tier]
    isolated = 0
    if spec['shard'] == 0:
        run_negative(shard)
    # hazard classes (one text per file, because a tool failure loses the whole file): every shard starts with two
    # files of one class, so that each class is exercised in every run; afterwards every 40th file is a hazard file
    work = [('hazard', spec['shard'], j) for j in range(2)] + [('file', fi, 0) for fi in range(spec['shard'], n, spec['of'])]
    for kind, fi, j in work:
        hazard = None
        nch = CHUNKS_PER_FILE
        if kind == 'hazard':
            rng = shard.rng('hazard', fi, j)
            hazard = HAZARD_LIST[fi % 4]
            nch = 1
        else:
            rng = shard.rng('file', fi)
            if fi % 40 == 39:
                hazard = HAZARD_LIST[(fi // 40) % 4]
                nch = 1
        f = mg.make_file(rng, nch, hazard=hazard)
        try:
            with harness.time_limit(120):
                results, fail = check_file(shard, f, fi)
        except harness.CaseTimeout:
            shard.note_inconclusive('file %d: the tools did not finish within 120 s (wall-clock watchdog, not a verdict)' % fi)
            shard.inc('watchdog_fired')
            continue
        if fail is not None:
            if len(f['chunks']) == 1:
                # already a single-text file: no isolation needed
                isolate_failures(shard, f, fail)
            elif isolated < 4:
                isolated += 1
                isolate_failures(shard, f, fail)
            else:
                shard.violation('tool failure: skool2asm %s; skool2html %s' % ('ok' if fail[0].ok else fail[0].describe(), 'ok' if fail[1].ok else fail[1].describe()),
                                {'skool': f['skool'], 'argv': f['argv']})
        shard.hist('options', ' '.join(a for a in f['argv'] if a.startswith('-') and a != '--var') or '(none)')
        for c in f['chunks']:
            nslots = [s for s in f['slots'] if s.cid == c.cid]
            nontrivial = c.depth >= 2 or c.plan != 'pure'
            for s in nslots:
                shard.case((c.text, f['argv'], s.kind, s.pc), nontrivial, sample=None)
            if len({s.kind for s in nslots}) > 1:
                shard.inc('observed:texts_at_several_position_kinds')
            shard.inc('observed:texts')
            shard.hist('depth', c.depth)
            shard.hist('plan', c.plan)
            for ft in c.features:
                shard.hist('features', ft)
            for k, v in c.stats.items():
                shard.hist('spelling', k, v)
            if c.hazard:
                shard.inc('observed:hazard_class_texts')
        if kind == 'file' and fi < 2 and f['chunks']:
            c = f['chunks'][0]
            shard.sample({'text': c.text, 'expected_at_pc_30000': expected_for(c, f, 30000), 'options': f['argv'], 'features': c.features})
        if shard.out_of_time():
            shard.inc('stopped_on_budget')
            break

def finalize(agg, tier):
    problems = []
    c = agg['counters']
    if not c.get('observed:placements'):
        problems.append('no sentinel-delimited expansion was observed')
    if not c.get('observed:html_occurrences'):
        problems.append('no HTML occurrence was observed')
    for k in ('title', 'description', 'register', 'start-comment', 'mid-block', 'instruction', 'end-comment'):
        if not agg['hists'].get('position', {}).get(k):
            problems.append('position kind %s was never exercised' % k)
    return problems

def replay(shard, rp):
    ra, rh, asm, html, nfiles = run_tools(rp['skool'], rp['argv'], 'replay')
    print('skool2asm:', 'ok' if ra.ok else ra.describe())
    print('skool2html:', 'ok' if rh.ok else rh.describe())
    if rp.get('negative'):
        if ra.ok or rh.ok:
            shard.violation('replayed: erroneous text still accepted', rp)
    elif 'cid' in rp:
        key = (rp['cid'], rp['pid'])
        av = [ref.normalise(v) for v in asm.get(key, [])]
        hv = [ref.normalise(v, html=True) for v in html.get(key, [])]
        print('text:    ', rp['text'])
        print('expected:', repr(rp['expected']))
        print('asm:     ', av)
        print('html:    ', sorted(set(hv)))
        if not (ra.ok and rh.ok) or av != [rp['expected']] or any(h != rp['expected'] for h in hv) or not hv:
            shard.violation('replayed: still differs', rp, rp.get('finding'))
    elif not (ra.ok and rh.ok):
        shard.violation('replayed: tool still fails', rp, rp.get('finding'))
    shard.case(('replay',), True)

TECHNIQUE = ('boundary recorder with sentinels on the real skool2asm and skool2html entry points; offline oracle = executable reference evaluators of the '
             'documented macro semantics + ASM/HTML differential + position differential')
LEVEL_TEXT = ('Each generated skool file carries ~40 self-contained macro texts at ~60 positions; skool2asm stdout and every HTML page written by skool2html are '
              'searched for the sentinel pairs and each expansion is compared with the reference value for that text and position. Sampled exploration of the '
              'macro grammar; nothing is enumerated completely.')
LEVEL_NOTE = ('Texts whose meaning the documentation leaves open are not generated (see assumptions). Hazard classes that probe four ASM/HTML '
              'discrepancies are run in single-text files and reported under their own finding ids.')
