"""C16 - every internal link and asset reference in the HTML tree written by skool2html resolves.

Events:  the directory tree written by skoolkit.skool2html.main (run in-process) plus an audit-hook log of every
         path opened for writing below the output directory, with a counter per invocation.
Oracle:  vk.ref.c16_htmlcheck (html.parser based, no skoolkit import): every relative href/src names a file of the
         tree, every fragment names an id of the target page; every instruction of every non-ignored entry has
         exactly one element carrying its AddressAnchor id on the entry's page (and every entry exactly one on each
         memory map that lists it); no path opened for writing twice in one invocation.

Defects of the unchanged tree, classified by mechanism (predicates: expected_anchor_count / classify_dangling):
  C16-dup-id-single-page-entry    -1 / AsmSinglePage=1: the asm_single_page template puts the entry anchor on the entry <div>
                                  and on the <span> of its first instruction
  C16-dup-id-mid-block-comment    asm and asm_single_page templates: an instruction with a mid-block (or start) comment gets
                                  the anchor <span> in the comment row and again in the address cell
  C16-single-page-remote-operand  -1 / AsmSinglePage=1: an operand that addresses an @remote entry is linked as "#anchor" on the
                                  current page; the instruction is on the other disassembly's page
  C16-link-map-anchor-other-code  #LINK(Map#address) in a secondary skool file: the address is looked up in the secondary file,
                                  so the anchor is not converted to AddressAnchor and dangles when that format is not {address}
Anything else (a different count, a dangling reference that does not satisfy a predicate, a double write) is an
unclassified violation.
"""
import os
import posixpath
import shutil
import sys

from vk import harness
from vk.gens import c16_skoolgen as gen
from vk.ref import c16_htmlcheck as htmlcheck

ID = 'C16'
NEEDS_C = False
LEVEL = 'exploration'
RULE = ('generated main skool file (2-20 entries of types b c g i s t u w; CALL/JP/JR/DJNZ/RST/LD/DEFW operands addressing entries, '
        'instructions, entry points, themselves, remote entries, undeclared other-code entries, ignored entries, mid-instruction and random '
        'addresses; @label, @keep, entry points, mid-block/start/end comments, decimal and hex address styles) + 0-2 other-code skool files '
        'linked by [OtherCode:*] and @remote (with entry points) in both directions; annotations and ref-file text carry #R (own / @code / '
        'remote entry point / explicit anchors / link text), #LINK (maps, box pages, custom pages, index, other-code index, anchors), image '
        'macros (#UDG #SCR #FONT #UDGARRAY, animated, default and explicit names, sub-directories, /absolute and {PathId} forms), #AUDIO, '
        '#TABLE/#LIST nesting, external links; ref file varies AddressAnchor (7 formats), CodeFiles (5), Address, AsmSinglePage, LinkOperands, '
        'LinkInternalOperands(+MinDistance), every [Paths] directory and page path, custom [MemoryMap:*] (EntryTypes/Includes/Write), box pages '
        '(paragraph, list, bullet), custom and Content pages, [Index] groups, [Resources], LogoImage/Logo, StyleSheet/JavaScript lists, GameDir, '
        'split ref files, -c overrides; options -1 -a -C -D/-H -l/-u -o -O -T -j -d, and -w either complete or as two complementary subsets '
        'run one after the other into the same directory. A case is non-trivial when its tree has >= 20 relative references, at least one '
        'fragment link that was resolved against a parsed page, and at least two non-default dimensions; distinct by hash of (input files, argv, -w steps)')
ASSUMPTIONS = [
    'inputs are well formed in the sense listed in vk/gens/c16_skoolgen.py: #R/#LINK/@remote name things that exist, free-text #R anchors are '
    'not generated (only anchors that evaluate to the entry address, or decimal instruction addresses under the default AddressAnchor), '
    'configured paths are distinct, CodeFiles is a file name without directories',
    'with -w subsets the tree is judged after the complementary subset has also been written into the same directory; a partial tree on its '
    'own links to pages the user chose not to write',
    'a case in which skool2html exits with an error or raises is outside the property (no tree to judge): counted as skipped, and the run is '
    'inconclusive when more than 5% of cases end that way',
    'root-relative (/x), protocol-relative and scheme-qualified URLs are external and not followed',
]
MIN_NONTRIVIAL = {'quick': 300, 'thorough': 8000}
N_CASES = {'quick': 2400, 'thorough': 24000}
NSHARDS = 16

F_SINGLE = 'C16-dup-id-single-page-entry'
F_MID = 'C16-dup-id-mid-block-comment'
F_REMOTE1 = 'C16-single-page-remote-operand'
F_MAPLINK = 'C16-link-map-anchor-other-code'

def classify_dangling(model, p):
    """Mechanism predicates over one dangling reference (dict from htmlcheck) -> finding id or None."""
    frag = p.get('fragment')
    if frag is None:
        return None
    fmt = model['anchor_fmt']
    # (1) single-page mode: the operand of an instruction that addresses an @remote entry is linked as a fragment of the
    #     *current* page (href="#anchor") although the remote instruction lives on the other disassembly's page
    if model['single_page'] and p.get('ctx') == 'instruction' and p['target'] == p['page'] and p['url'].startswith('#'):
        for code in model['codes'].values():
            if code['single'] == p['page']:
                own = set(code['own'])
                for a in code['remote']:
                    if int(a) not in own and fmt.format(address=int(a)) == frag:
                        return F_REMOTE1
    # (2) #LINK(Map#address) expanded by the writer of a secondary disassembly: the address is looked up among the
    #     secondary file's entries, not found, and the anchor is left as typed instead of being converted to AddressAnchor
    if frag.isdigit():
        other_pages = set()
        for cid, code in model['codes'].items():
            if cid != 'main':
                other_pages.update(e['page'] for e in code['entries'])
                other_pages.add(code['single'])
                other_pages.add(code['index'])
        if p['page'] in other_pages:
            for m in model['maps'].values():
                if m.get('main') and m['path'] == p['target'] and int(frag) in m['addrs'] and fmt.format(address=int(frag)) != frag:
                    return F_MAPLINK
    return None

# ------------------------------------------------------------------ audit hook (file writes below the output directory)

_REC = {'on': False, 'root': None, 'writes': None, 'installed': False, 'events': 0}

def _audit(event, args):
    if event != 'open' or not _REC['on']:
        return
    try:
        path, mode, flags = args
        if isinstance(path, bytes):
            path = os.fsdecode(path)
        if not isinstance(path, str):
            return
        if mode is not None:
            writing = any(c in mode for c in 'wax+')
        else:
            writing = bool(flags & (os.O_WRONLY | os.O_RDWR))
        if not writing:
            return
        ap = os.path.abspath(path)
        root = _REC['root']
        if ap == root or ap.startswith(root + os.sep):
            rel = ap[len(root) + 1:].replace(os.sep, '/')
            w = _REC['writes']
            w[rel] = w.get(rel, 0) + 1
            _REC['events'] += 1
    except Exception:
        pass

def _install_hook():
    if not _REC['installed']:
        sys.addaudithook(_audit)
        _REC['installed'] = True

class recording:
    def __init__(self, root):
        self.root = os.path.abspath(root)
        self.writes = {}

    def __enter__(self):
        _install_hook()
        _REC.update(on=True, root=self.root, writes=self.writes)
        return self.writes

    def __exit__(self, *exc):
        _REC.update(on=False)
        return False

# ------------------------------------------------------------------ one case

def plan(tier, seed):
    return [{'shard': i, 'of': NSHARDS, 'timeout': 900 if tier == 'quick' else 7200, 'budget_s': 50 if tier == 'quick' else 1100}
            for i in range(NSHARDS)]

def _enc_files(files):
    return {k: ({'b64': harness.b64(v)} if isinstance(v, (bytes, bytearray)) else v) for k, v in files.items()}

def _dec_files(files):
    return {k: (harness.unb64(v['b64']) if isinstance(v, dict) else v) for k, v in files.items()}

def materialise(files, workdir):
    if os.path.isdir(workdir):
        shutil.rmtree(workdir)
    os.makedirs(workdir)
    for rel, data in files.items():
        p = os.path.join(workdir, rel)
        d = os.path.dirname(p)
        if d and not os.path.isdir(d):
            os.makedirs(d)
        harness.write_file(p, data)

def run_steps(shard, workdir, skoolfile, argv, steps, odir):
    """Run skool2html once per -w step inside workdir. -> (ok, per-step write logs, description of a failure)."""
    old = os.getcwd()
    os.chdir(workdir)
    logs = []
    try:
        for st in steps:
            a = list(argv)
            if st is not None:
                a += ['-w', st]
            a.append(skoolfile)
            with recording(odir) as writes:
                with harness.time_limit(120):       # a hang becomes a failed (skipped) case, never a verdict
                    r = harness.run_tool('skool2html', a)
            shard.inc('events:skool2html_runs')
            logs.append(writes)
            if not r.ok:
                return False, logs, r
        return True, logs, None
    finally:
        os.chdir(old)

def expected_anchor_count(model, entry, addr):
    n = 1
    why = []
    if addr in entry['mid']:
        n += 1
        why.append(F_MID)
    if model['single_page'] and addr == entry['addr']:
        n += 1
        why.append(F_SINGLE)
    return n, why

def judge(shard, tree, model, logs):
    """-> list of (what, finding) ; updates counters."""
    out = []
    problems, stats = tree.check_links()
    shard.inc('observed:html_pages', len(tree.pages))
    shard.inc('observed:files_in_tree', len(tree.files))
    for k in ('refs', 'relative', 'external', 'fragments', 'file_targets', 'same_page_fragments', 'cross_page_fragments'):
        shard.inc('observed:' + k, stats[k])
    shard.inc('observed:operand_links', stats.get('operand_links', 0))
    for k, v in stats['by_attr'].items():
        shard.hist('reference_kinds', k, v)
    for k, v in stats['target_ext'].items():
        shard.hist('target_types', k or '(none)', v)
    for rel, err in tree.parse_errors:
        out.append(('html.parser failed on %s: %s' % (rel, err), None))
    nplain = 0
    for p in problems:
        fid = classify_dangling(model, p)
        if fid is None:
            nplain += 1
            if nplain > 12:
                continue
        out.append(('dangling %s %s="%s" in %s line %d: %s' % (p['tag'], p['attr'], p['url'], p['page'], p['line'], p['why']), fid))
    if nplain > 12:
        out.append(('... and %d more dangling references' % (nplain - 12), None))

    # exactly one anchor per instruction on the entry's page, per entry on each map listing it
    fmt = model['anchor_fmt']
    for code_id, code in model['codes'].items():
        for e in code['entries']:
            page = tree.pages.get(e['page'])
            if page is None:
                out.append(('entry %d of disassembly %s has no page: %s was not written' % (e['addr'], code_id, e['page']), None))
                continue
            for addr in e['ins']:
                anchor = fmt.format(address=addr)
                got = page.ids.get(anchor, 0)
                want, why = expected_anchor_count(model, e, addr)
                shard.inc('observed:instruction_anchors_checked')
                if addr in e['points']:
                    shard.inc('observed:entry_point_anchors_checked')
                if got == 1:
                    continue
                tags = page.id_tags.get(anchor, [])
                desc = 'id "%s" (address %d, disassembly %s) occurs %d times in %s %s' % (anchor, addr, code_id, got, e['page'], tags[:4])
                if got == want and why:
                    # the duplicates are exactly those the two recorded template mechanisms produce
                    for fid in why:
                        mech = ('single-page template gives the entry <div> and its first instruction <span> the same id' if fid == F_SINGLE
                                else 'asm template emits the anchor <span> both in the mid-block/start comment row and in the address cell')
                        out.append(('%s: %s' % (desc, mech), fid))
                else:
                    out.append(('%s; expected exactly one' % desc if got else 'no element with %s; expected exactly one' % desc, None))
    for map_id, m in model['maps'].items():
        page = tree.pages.get(m['path'])
        if page is None:
            out.append(('memory map %s was not written to %s' % (map_id, m['path']), None))
            continue
        for addr in m['addrs']:
            anchor = fmt.format(address=addr)
            got = page.ids.get(anchor, 0)
            shard.inc('observed:map_anchors_checked')
            if got != 1:
                out.append(('memory map %s (%s): id "%s" for entry %d occurs %d times; expected exactly one' % (map_id, m['path'], anchor, addr, got), None))

    # no path written twice by one invocation
    for n, w in enumerate(logs):
        shard.inc('observed:write_events', sum(w.values()))
        shard.inc('observed:paths_written', len(w))
        for rel, cnt in sorted(w.items()):
            if cnt > 1:
                out.append(('%s was opened for writing %d times by one skool2html invocation (step %d)' % (rel, cnt, n + 1), None))
    # every HTML page in the tree was written by one of the invocations (or copied): sanity of the monitor itself
    seen = set()
    for w in logs:
        seen.update(w)
    unlogged = [p for p in tree.files if p not in seen]
    if unlogged:
        shard.inc('monitor:files_without_write_event', len(unlogged))
    return out, stats

def check_case(shard, files, argv, steps, odir, skoolfile, model, workdir='case'):
    """-> (status, stats) status in 'ok', 'skipped', 'violated'"""
    materialise(files, workdir)
    ok, logs, r = run_steps(shard, workdir, skoolfile, argv, steps, odir)
    rp = {'files': _enc_files(files), 'argv': argv, 'steps': steps, 'odir': odir, 'skoolfile': skoolfile, 'model': model}
    if not ok:
        shard.skip('skool2html failed: ' + (r.exc.split(':')[0] if r.exc else 'exit %s' % r.code))
        if shard.counters.get('dbg:failures_sampled', 0) < 3:
            shard.inc('dbg:failures_sampled')
            shard.sample({'tool_failure': r.describe(), 'tb': (r.tb or '')[-600:], 'argv': argv, 'steps': steps})
        return 'skipped', None, rp
    root = os.path.join(workdir, odir)
    if not os.path.isdir(root):
        shard.skip('no output directory')
        return 'skipped', None, rp
    tree = htmlcheck.scan_tree(root)
    found, stats = judge(shard, tree, model, logs)
    if not found:
        return 'ok', stats, rp
    plain = [w for w, fid in found if fid is None]
    if plain:
        shard.violation('%d problem(s); argv=%s steps=%s\n%s' % (len(plain), argv, steps, '\n'.join(plain[:10])), rp)
    by_f = {}
    for w, fid in found:
        if fid is not None:
            by_f.setdefault(fid, []).append(w)
    for fid, ws in by_f.items():
        shard.violation('%s (%d in this tree); argv=%s' % (ws[0], len(ws), argv), dict(rp, classified=fid), fid)
    return ('violated' if plain else 'finding'), stats, rp

WITNESS_FILES = {
    'main.skool': '@remote=load:49152\n; Routine\nc32768 CALL 49152\n; Mid-block comment\n*32771 JR 32771\n',
    'load.skool': '; Loader, see #LINK(MemoryMap#32768)(the routine on the main map)\nc49152 RET\n',
    'main.ref': '[OtherCode:load]\n[Game]\nAddressAnchor={address:04x}\n',
}

def witness_cases():
    """The minimal input on which all four recorded mechanisms show (multi-page: mid-block duplicate and #LINK map anchor;
    -1: single-page duplicate and @remote operand). Replayed first by shard 0 of every run."""
    for single in (False, True):
        model = {
            'single_page': single, 'anchor_fmt': '{address:04x}', 'index': 'index.html',
            'codes': {
                'main': {'entries': [{'addr': 32768, 'ctl': 'c', 'page': 'asm.html' if single else 'asm/32768.html', 'ins': [32768, 32771],
                                      'mid': [32771], 'points': [32771]}],
                         'index': None, 'single': 'asm.html', 'own': [32768, 32771], 'remote': {'49152': 'load'}},
                'load': {'entries': [{'addr': 49152, 'ctl': 'c', 'page': 'load/asm.html' if single else 'load/49152.html', 'ins': [49152],
                                      'mid': [], 'points': []}],
                         'index': 'load/load.html', 'single': 'load/asm.html', 'own': [49152], 'remote': {}},
            },
            'maps': {'MemoryMap': {'path': 'maps/all.html', 'addrs': [32768], 'main': True},
                     'RoutinesMap': {'path': 'maps/routines.html', 'addrs': [32768], 'main': True},
                     'load-Index': {'path': 'load/load.html', 'addrs': [49152]}},
        }
        yield dict(WITNESS_FILES), (['-q', '-1'] if single else ['-q']), [None], 'main', 'main.skool', model

DEFAULT_FEATURES = {'R:own', 'LINK', 'image', 'operand:entry', 'operand:instruction', 'operand:self', 'operand:random', 'operand:mid-instruction'}

def run(shard, spec):
    n = N_CASES[shard.tier]
    if spec['shard'] == 0:
        for k, (files, argv, steps, odir, skoolfile, model) in enumerate(witness_cases()):
            status, stats, rp = check_case(shard, files, argv, steps, odir, skoolfile, model)
            shard.case(('witness', k), False)
            shard.hist('status', 'witness:' + status)
    for case_no in range(spec['shard'], n, spec['of']):
        rng = shard.rng('case', case_no)
        c = gen.gen_case(rng)
        status, stats, rp = check_case(shard, c.files, c.argv, c.steps, c.odir, c.skoolfile, c.model)
        key = (sorted((k, harness.h64(v)) for k, v in c.files.items()), c.argv, c.steps)
        nondefault = [x for x in c.features if x not in DEFAULT_FEATURES and not x.startswith('operand:')]
        opts = [a for a in c.argv if a.startswith('-') and a not in ('-q', '-d', '-c')]
        nontrivial = bool(stats) and stats['relative'] >= 20 and stats['fragments'] >= 1 and len(nondefault) + len(opts) >= 2
        shard.case(key, nontrivial, sample={'argv': c.argv, 'steps': c.steps, 'odir': c.odir, 'features': sorted(c.features),
                                            'skool_head': c.files[c.skoolfile].splitlines()[:14]} if case_no < 2 else None)
        shard.hist('status', status)
        for x in c.features:
            shard.hist('features', x)
        for a in c.argv:
            if a.startswith('-') and len(a) == 2:
                shard.hist('options', a)
        shard.hist('w_steps', '+'.join(''.join(sorted(s)) if s else '(default)' for s in c.steps) if len(c.steps) > 1 else ('-w dimoP' if c.steps[0] else '(default)'))
        shard.hist('codes', len(c.codes))
        if shard.out_of_time():
            shard.inc('stopped_on_budget')
            break
    if os.path.isdir('case'):
        shutil.rmtree('case', ignore_errors=True)

def finalize(agg, tier):
    c = agg['counters']
    out = []
    for k in ('observed:html_pages', 'observed:fragments', 'observed:cross_page_fragments', 'observed:operand_links', 'observed:write_events',
              'observed:instruction_anchors_checked', 'observed:map_anchors_checked', 'observed:entry_point_anchors_checked'):
        if not c.get(k):
            out.append('deciding monitor saw nothing: %s = 0' % k)
    if c.get('monitor:files_without_write_event'):
        out.append('audit hook missed %d files that are present in output trees (write log incomplete)' % c['monitor:files_without_write_event'])
    skipped = sum(agg['skipped'].values())
    if agg['evaluations'] and skipped > 0.05 * agg['evaluations']:
        out.append('%d of %d cases skipped because skool2html failed (> 5%%): %s' % (skipped, agg['evaluations'], agg['skipped']))
    return out

def replay(shard, rp):
    status, stats, _ = check_case(shard, _dec_files(rp['files']), rp['argv'], rp['steps'], rp['odir'], rp['skoolfile'], rp['model'], workdir='replay')
    shard.case(('replay',), True)
    print('replayed: status', status, 'violations', shard.nviolations)
    for v in shard.violations:
        print(v['finding'], v['what'])

TECHNIQUE = ('boundary recorder on the real skool2html entry point (in-process) with a sys.addaudithook log of every file opened for writing, '
             'and an offline html.parser-based link/anchor resolver over the whole output tree')
LEVEL_TEXT = ('Each case writes generated skool/ref/resource files, runs skoolkit.skool2html.main (once, or twice with complementary -w subsets), '
              'then parses every HTML file of the tree and follows every relative href/src and fragment; anchors of all instructions and map '
              'entries are counted against the configured AddressAnchor; double writes are taken from the audit log. Sampled exploration.')
LEVEL_NOTE = ('Inputs are well-formed by construction (links name things that exist); tool failures are skipped and bounded at 5%. Four mechanisms '
              'seen on the unchanged tree (two duplicate-id shapes of the default templates, the single-page @remote operand link, the unconverted '
              '#LINK map anchor in a secondary disassembly) are classified as findings by predicate; any other anchor count, dangling reference or '
              'double write is a violation.')
