"""C19 - contention simulation only ever adds the delays the ULA would impose.

One real step of the plain and the contended simulator (Python and C) from the same state; oracle: equal
non-clock state, never faster, equal where nothing is contended / outside the display, and the exact extra delay
predicted by the reference machine-cycle list (vk.ref.refz80) fed through the ULA wait-state model (vk.ref.ula).
"""
from vk import harness, sims
from vk.gens import proggen
from vk.ref import refz80, ula as ulamod

ID = 'C19'
NEEDS_C = True
LEVEL = 'exploration'
RULE = ('every opcode slot (1792) x placements of PC / pointer registers / SP / port address in {ROM, contended 0x4000-0x7FFF, uncontended, 0xC000 with even/odd bank (128K)} x '
        'frame positions (every phase of the 8-T pattern at the first and last display lines, the window edges, mid-line, border, random) x {48K,128K}; one case = one '
        '(instruction, state, T); 45 cycle-pattern classes x 3 placements x 2 machines are swept over the frame (every T in the thorough tier, every 9th in quick); non-trivial when the reference cycle list touches a contended address inside the display area (a non-zero delay is predicted) or the case '
        'is an edge-of-window probe; distinct by (bytes, state, T, machine)')
ASSUMPTIONS = ['machine-cycle order and lengths per instruction class follow the Spectrum contention FAQ; internal cycles put I:R (R after the M1 increments) or the stated operand address on the bus',
               'MEMPTR and the two undocumented flag bits that BIT n,(HL) copies from it are excluded from the state comparison, as the property says',
               'HALT and LD A,I/R are probed away from the interrupt-acceptance window']
MIN_NONTRIVIAL = {'quick': 40000, 'thorough': 500000}

def plan(tier, seed):
    q = tier == 'quick'
    n = 10
    specs = [{'part': 'slots', 'shard': i, 'of': n, 'timeout': 900 if q else 14000, 'budget_s': 100 if q else 3000} for i in range(n)]
    ns = 6 if q else 15
    for i in range(ns):
        specs.append({'part': 'sweep', 'shard': i, 'of': ns, 'timeout': 900 if q else 14000, 'budget_s': 100 if q else 6000})
    if not q:
        specs.append({'part': 'slots', 'shard': 0, 'of': 1, 'flavour': 'asan', 'only_c': True, 'scale': 0.1, 'timeout': 14000, 'budget_s': 3000})
    return specs

class Rig:
    """plain+contended, Python+C on one machine type. 128K: Memory objects with the given 0x7FFD value."""
    def __init__(self, is128, o7ffd, kinds):
        self.is128 = is128
        self.o7ffd = o7ffd
        self.kinds = kinds
        self.ms = {}
        for k in kinds:
            if is128:
                image = [[0] * 16384 for _ in range(8)]
            else:
                image = [0] * 65536
            self.ms[k] = sims.Machine(k, image, [0] * 30, o7ffd, True, 0)
        self.frame = 70908 if is128 else 69888

    def step(self, kind, patches, regs, seed):
        m = self.ms[kind]
        mem = m.sim.memory
        for a, v in patches.items():
            if a >= 0x4000 or not self.is128:
                mem[a] = v
        sims.set_regs(m.sim, regs)
        m.tracer.reset(self.o7ffd, seed)
        m.step()
        out = m.regs
        vals = [mem[a] for a in self.watch]
        ev = [(e[0], e[1], e[2]) for e in m.tracer.events]
        # undo
        for a in self.watch:
            if a >= 0x4000 or not self.is128:
                mem[a] = 0
        if self.is128 and m.sim.memory.o7ffd != self.o7ffd:
            # the instruction paged: rebuild this machine
            image = [[0] * 16384 for _ in range(8)]
            self.ms[kind] = sims.Machine(kind, image, [0] * 30, self.o7ffd, True, 0)
        return out, vals, ev

def ref_cycles(rig, patches, regs, seed):
    n = [0]
    def port_in(port):
        v = ((seed * 2654435761 + n[0] * 40503 + port * 7) >> 3) & 0xFF
        n[0] += 1
        return v
    mem = rig.ms[rig.kinds[0]].sim.memory
    if rig.is128:
        rd = lambda a: patches[a] if (a in patches and a >= 0x4000) else mem[a]
    else:
        rd = lambda a: patches.get(a, 0)
    return refz80.step(regs, rd, port_in)

def t_positions(rng, u):
    """Frame positions with boundary bias."""
    k = rng.random()
    first, last, line, frame = u.first, u.last, u.line, u.frame
    if k < 0.30:
        return first - 10 + rng.randrange(40)                      # entering the window, all 8 phases
    if k < 0.45:
        return last - line - 10 + rng.randrange(160)               # last display line, right edge of contention
    if k < 0.60:
        row = rng.randrange(192)
        return first + row * line + rng.choice([0, 1, 2, 3, 4, 5, 6, 7, 120, 124, 126, 127, 128, 129, 130, line - 8, line - 3, line - 1])
    if k < 0.70:
        return rng.choice([0, 1, first - 30, first - 24, first - 23, first - 22, last - 1, last, last + 1, frame - 30, frame - 1])
    if k < 0.85:
        return rng.randrange(first, last)
    return rng.randrange(frame)

PLACES48 = [0x0000, 0x3FFE, 0x3FFF, 0x4000, 0x4001, 0x5B00, 0x7FFE, 0x7FFF, 0x8000, 0x8001, 0xBFFF, 0xC000, 0xFFFE, 0xFFFF]

def make_state(rng, seq, rig, u):
    addr = rng.choice(PLACES48 + [rng.randrange(65536)])
    b = [x if x is not None else rng.choice([0, 1, 0x7F, 0x80, 0xFE, 0xFF, rng.randrange(256)]) for x in seq] + [rng.randrange(256) for _ in range(3)]
    regs = proggen.regs30(rng, pc=addr)
    for hi in (2, 4, 6, 8, 10, 18, 20, 22):
        v = rng.choice(PLACES48) if rng.random() < 0.8 else rng.randrange(65536)
        regs[hi], regs[hi + 1] = v >> 8, v & 0xFF
    regs[12] = rng.choice(PLACES48) if rng.random() < 0.8 else rng.randrange(65536)
    regs[14] = rng.choice([0x00, 0x3F, 0x40, 0x5B, 0x7F, 0x80, 0xBF, 0xC0, 0xFF])      # I: the refresh address page
    regs[13] = 0
    regs[28] = 1 if (b[0] == 0x76 and rng.random() < 0.5) else 0      # HALT: also from the already-halted state
    t = t_positions(rng, u) % u.frame + u.frame * rng.choice([0, 0, 1, 3])
    if rng.random() < 0.05:
        t += u.frame * (((1 << 32) // u.frame) + rng.randint(0, 3))      # beyond 2^32, same frame position
    if regs[26] and (b[0] == 0x76 or (b[0] == 0xED and b[1] in (0x57, 0x5F))) and (t + 60) % u.frame < 120:
        regs[26] = 0
    regs[25] = t
    patches = {}
    for hi in (2, 4, 6, 8, 10, 12):
        a = (regs[hi] * 256 + regs[hi + 1]) & 0xFFFF if hi != 12 else regs[12]
        for d in (-2, -1, 0, 1, 2):
            patches[(a + d) & 0xFFFF] = rng.randrange(256)
    if b[0] in (0xDD, 0xFD):
        ixh = 8 if b[0] == 0xDD else 10
        dd = b[2] - 256 if b[2] > 127 else b[2]
        patches[(regs[ixh] * 256 + regs[ixh + 1] + dd) & 0xFFFF] = rng.randrange(256)
    for off in (1, 2):
        nn = b[off] | (b[off + 1] << 8)
        for d in (0, 1):
            patches.setdefault((nn + d) & 0xFFFF, rng.randrange(256))
    if b[0] == 0xED and b[1] in (0xA1, 0xA9, 0xB1, 0xB9, 0xA0, 0xA8, 0xB0, 0xB8, 0xA2, 0xAA, 0xB2, 0xBA, 0xA3, 0xAB, 0xB3, 0xBB):
        # block instructions: the repeat decision (BC or B reaching zero, a compare that matches) selects the tail of the
        # cycle pattern, so the deciding values are aimed at: BC = 1/2/0, B = 1/2, (HL) == A for the compares
        k = rng.random()
        if k < 0.5:
            bc = rng.choice([1, 2, 0, 0x0100, 0x0101])
            if b[1] & 0x02:
                regs[2] = rng.choice([1, 2, 0])          # IN/OUT blocks count in B; C stays (the port)
            else:
                regs[2], regs[3] = bc >> 8, bc & 0xFF
        if b[1] in (0xA1, 0xA9, 0xB1, 0xB9) and rng.random() < 0.5:
            patches[(regs[6] * 256 + regs[7]) & 0xFFFF] = regs[0]          # the compare finds A at (HL)
    if rig.is128 and (b[0] == 0xD3 or (b[0] == 0xED and b[1] in (0x79, 0x41, 0x49, 0xA3, 0xAB, 0xB3, 0xBB))) and rng.random() < 0.6:
        # an OUT that pages (port decoded on A15=0, A1=0) while it executes from the paged area: the instruction's own
        # cycles are contended as the bank that was in place when they happened, odd to even and even to odd
        bank = rng.choice([0, 1, 2, 3, 4, 5, 6, 7, 0x10, 0x11, 0x16, 0x17, 0x08, 0x0B])
        if rng.random() < 0.75:
            addr = rng.choice([0xC000, 0xC001, 0xFFF0, 0xD000, 0xFFFD])
            regs[24] = addr
        if b[0] == 0xD3:
            b[1] = rng.choice([0xFD, 0xFD, 0xFC, 0xF9, 0x7D, 0x01, 0x00])
            regs[0] = bank                                   # port = A*256 + n: A15 clear
        else:
            regs[2], regs[3] = (0x80 if b[1] & 0x80 else rng.choice([0x7F, 0x3F, 0x00])), rng.choice([0xFD, 0xFD, 0xFC, 0x7D])   # the block forms decrement B first
            regs[0] = bank
            if b[1] == 0x41:
                regs[2] = rng.choice([0x7F, 0x3F])          # OUT (C),B writes B itself
            elif b[1] == 0x49:
                regs[3] = rng.choice([0xFD, 0x05, 0x11])    # OUT (C),C writes C
            elif b[1] & 0x80:
                patches[(regs[6] * 256 + regs[7]) & 0xFFFF] = bank
    for i, x in enumerate(b):
        patches[(addr + i) & 0xFFFF] = x
    return addr, b, regs, patches

def check_case(shard, rig, u, addr, b, regs, patches, seed, rp):
    kinds = rig.kinds
    try:
        ref = ref_cycles(rig, patches, regs, seed)
    except Exception as e:
        shard.note_inconclusive('reference raised %r on %s' % (e, bytes(b[:4]).hex()))
        return False
    rig.watch = sorted(set(patches) | {a for a, v in ref.writes})
    t = regs[25]
    predicted = u.extra(ref.cycles, t)
    base = ref.T
    alt_predicted = predicted
    alt_touches = False
    if ref.repeat and b[0] == 0xED and b[1] in (0xB3, 0xBB):
        # OTIR/OTDR while repeating: five internal cycles with "BC" on the bus. The published pattern does not say
        # whether that is BC before or after B is decremented (emulators differ); either is accepted.
        pre = ((regs[2] << 8) | regs[3]) & 0xFFFF
        alt = list(ref.cycles[:-5]) + [('m', pre, 1)] * 5
        alt_predicted = u.extra(alt, t)
        alt_touches = u.contended(pre)
        shard.inc('guard:otir_repeat_bc_before_or_after')
    touches = any((c[0] == 'm' and u.contended(c[1])) or (c[0] == 'io' and any(x[0] for x in u.io_cycles(c[1]))) for c in ref.cycles)
    res = {}
    for k in kinds:
        try:
            res[k] = rig.step(k, patches, regs, seed)
        except Exception as e:
            shard.violation('%s raised %r executing %s' % (k, e, bytes(b[:4]).hex()), dict(rp, kind=k))
            return False
    shard.inc('monitor:steps_compared', len(kinds))
    # BIT n,(HL): bits 5/3 come from MEMPTR, which only the contended pair models. Decide on the bytes actually in
    # memory (on 128K a PC in ROM executes the ROM's bytes, not the generated ones).
    m0 = rig.ms[kinds[0]].sim.memory
    a0, a1 = (m0[addr], m0[(addr + 1) & 0xFFFF]) if rig.is128 and addr < 0x4000 else (b[0], b[1])
    if rig.is128 and addr == 0x3FFF:
        a1 = b[1]
    bitmask = 0xD7 if (a0 == 0xCB and a1 & 0xC7 == 0x46) else 0xFF
    for plain, cont in (('py', 'pycmio'), ('c', 'ccmio')):
        if plain not in res or cont not in res:
            continue
        (r1, m1, e1), (r2, m2, e2) = res[plain], res[cont]
        bad = []
        for i in range(29):
            if i in (13, 25):
                continue
            x, y = r1[i], r2[i]
            if i == 1:
                x &= bitmask
                y &= bitmask
            if x != y:
                bad.append((sims.REGNAMES[i], x, y))
        if m1 != m2:
            bad.append(('memory', m1[:6], m2[:6]))
        if e1 != e2:
            bad.append(('port events', e1, e2))
        if bad:
            shard.violation('%s vs %s: state differs after %s at %d (T=%d): %s' % (plain, cont, bytes(b[:4]).hex(), addr, t, bad[:5]), dict(rp, pair=[plain, cont]))
            continue
        d1, d2 = r1[25] - t, r2[25] - t
        extra = d2 - d1
        what = None
        if d1 != base:
            what = 'plain simulator took %d T-states, the instruction takes %d' % (d1, base)
        elif extra < 0:
            what = 'contended simulator is faster than the plain one (%d < %d)' % (d2, d1)
        elif not (touches or alt_touches) and extra:
            what = 'no address on the bus is contended, yet %d extra T-states' % extra
        elif not u.in_display(t, base + 48) and extra:
            what = 'outside the display part of the frame, yet %d extra T-states' % extra
        elif extra != predicted and extra != alt_predicted:
            what = 'extra delay %d, the ULA model predicts %d for cycles %s' % (extra, predicted, compact(ref.cycles))
        if what:
            shard.violation('%s %s: %s executing %s at %d with T=%d (frame position %d), I=%d, regs %s' % (
                '128K(o7ffd=%d)' % rig.o7ffd if rig.is128 else '48K', cont, what, bytes(b[:4]).hex(), addr, t, t % u.frame, regs[14], sims.fmt_regs(regs)),
                dict(rp, pair=[plain, cont]))
        if predicted:
            shard.inc('observed:nonzero_delays')
    return bool(predicted) or (touches and not u.in_display(t, 0))

def compact(cycles):
    out = []
    for c in cycles:
        out.append('%s%04X:%d' % ('io' if c[0] == 'io' else '', c[1], c[2]))
    return ' '.join(out)

def rigs_for(spec):
    kinds = ('c', 'ccmio') if spec.get('only_c') else sims.KINDS
    return [(Rig(False, 0, kinds), ulamod.ULA(False)),
            (Rig(True, 0x10, kinds), ulamod.ULA(True, False)),
            (Rig(True, 0x11, kinds), ulamod.ULA(True, True)),
            (Rig(True, 0x07, kinds), ulamod.ULA(True, True))]

def run_slots(shard, spec):
    from vk.props.c07 import sequences
    seqs = list(sequences())
    rigs = rigs_for(spec)
    k = int((36 if shard.tier == 'quick' else 700) * spec.get('scale', 1)) or 3
    for ci, (table, seq) in enumerate(seqs):
        if ci % spec['of'] != spec['shard']:
            continue
        for j in range(k):
            rng = shard.rng('slots', ci, j)
            rig, u = rigs[0] if j % 3 else rigs[1 + (j // 3) % 3]
            addr, b, regs, patches = make_state(rng, seq, rig, u)
            rp = {'part': 'slots', 'seq': b, 'regs': regs, 'addr': addr, 'is128': rig.is128, 'o7ffd': rig.o7ffd}
            nt = check_case(shard, rig, u, addr, b, regs, patches, j, rp)
            shard.case(('slots', ci, j), nt, sample={'bytes': bytes(b[:4]).hex(), 'addr': addr, 'T': regs[25], 'machine': '128K' if rig.is128 else '48K'} if ci < 2 and j == 0 else None)
            shard.hist('machine', '128K/o7ffd=%d' % rig.o7ffd if rig.is128 else '48K')
        if seq == (0x76,):
            # HALT is the one instruction with a state of its own: every placement x {first execution, already halted}
            # x every machine x frame positions with all eight wait phases
            for pi, place in enumerate(PLACES48):
                for halted in (0, 1):
                    for ri, (rig, u) in enumerate(rigs):
                        for tk in range(10):
                            rng = shard.rng('halt', pi, halted, ri, tk)
                            addr, b, regs, patches = make_state(rng, seq, rig, u)
                            for a in [x for x in patches if (x - addr) & 0xFFFF < 6]:
                                del patches[a]
                            addr = place
                            regs[24] = addr
                            regs[28] = halted
                            regs[26] = 0
                            regs[25] = u.first + u.line * rng.randrange(192) + tk
                            for i, x in enumerate(b):
                                patches[(addr + i) & 0xFFFF] = x
                            nt = check_case(shard, rig, u, addr, b, regs, patches, tk, {'part': 'halt', 'addr': addr, 'halted': halted, 'is128': rig.is128, 'o7ffd': rig.o7ffd, 'T': regs[25]})
                            shard.case(('halt', pi, halted, ri, tk), nt)
            shard.inc('observed:halt_directed_cases', len(PLACES48) * 2 * len(rigs) * 10)
        if shard.out_of_time():
            shard.inc('stopped_on_budget')
            shard.note_inconclusive('slot sweep stopped on its time budget')
            break

# representative instruction per cycle-pattern class, swept over EVERY T of the frame (C simulators; Python in thorough)
CLASSES = [
    ('NOP', [0x00]), ('LD A,n', [0x3E, 1]), ('LD A,(HL)', [0x7E]), ('LD (HL),n', [0x36, 5]), ('PUSH BC', [0xC5]), ('POP BC', [0xC1]),
    ('ADD HL,BC', [0x09]), ('INC BC', [0x03]), ('JR', [0x18, 0x02]), ('DJNZ', [0x10, 0x02]), ('LD A,(nn)', [0x3A, 0x00, 0x60]), ('LD (nn),HL', [0x22, 0x00, 0x60]),
    ('INC (HL)', [0x34]), ('OUT (n),A', [0xD3, 0xFE]), ('IN A,(n)', [0xDB, 0xFF]), ('OUT (C),A', [0xED, 0x79]), ('LD (IX+d),n', [0xDD, 0x36, 1, 2]),
    ('BIT 0,(IX+d)', [0xDD, 0xCB, 1, 0x46]), ('SET 0,(IX+d)', [0xDD, 0xCB, 1, 0xC6]), ('LDIR', [0xED, 0xB0]), ('CPIR', [0xED, 0xB1]), ('EX (SP),HL', [0xE3]),
    ('ADD A,(IX+d)', [0xDD, 0x86, 1]), ('CALL', [0xCD, 0x00, 0x90]), ('RET', [0xC9]), ('RET NZ', [0xC0]), ('LD A,I', [0xED, 0x57]), ('OUTI', [0xED, 0xA3]),
    ('INI', [0xED, 0xA2]), ('RLD', [0xED, 0x6F]), ('RST 8', [0xCF]), ('SBC HL,DE', [0xED, 0x52]), ('INC (IX+d)', [0xDD, 0x34, 1]), ('BIT 0,(HL)', [0xCB, 0x46]),
    ('SET 0,(HL)', [0xCB, 0xC6]), ('LD SP,HL', [0xF9]), ('EX (SP),IX', [0xDD, 0xE3]), ('ADD IX,BC', [0xDD, 0x09]), ('OTIR', [0xED, 0xB3]), ('INIR', [0xED, 0xB2]),
    ('LD BC,(nn)', [0xED, 0x4B, 0x00, 0x60]), ('JP', [0xC3, 0x00, 0x90]), ('LD IXh,n', [0xDD, 0x26, 1]), ('HALT', [0x76]), ('DD prefix', [0xDD, 0x00]),
]

def run_sweep(shard, spec):
    kinds_all = sims.KINDS if shard.tier == 'thorough' else ('c', 'ccmio')
    kinds_all = tuple(k for k in kinds_all)
    rig48 = Rig(False, 0, kinds_all)
    rig128 = Rig(True, 0x11, kinds_all)
    u48, u128 = ulamod.ULA(False), ulamod.ULA(True, True)
    stride = 1 if shard.tier == 'thorough' else 9
    for ci, (name, code) in enumerate(CLASSES):
        if ci % spec['of'] != spec['shard']:
            continue
        rng = shard.rng('sweep', ci)
        for rig, u in ((rig48, u48), (rig128, u128)):
            for placement in range(3):
                # placement 0: everything contended; 1: code uncontended, data contended; 2: code contended, data not
                code_at = [0x6000, 0x8000, 0x6000][placement]
                data_at = [0x7000, 0x7000, 0x9000][placement]
                if rig.is128 and placement == 2:
                    data_at = 0xC100            # odd bank paged: contended
                regs = [0] * 30
                regs[0] = 0x5A
                regs[2], regs[3] = (data_at >> 8) if name in ('OUTI', 'INI', 'OTIR', 'INIR', 'OUT (C),A') else 0, 2
                if name in ('LDIR', 'CPIR'):
                    regs[2], regs[3] = 0, 2
                regs[4], regs[5] = (data_at + 0x40) >> 8, 0x10
                regs[6], regs[7] = data_at >> 8, 0x20
                regs[8], regs[9] = data_at >> 8, 0x30
                regs[10], regs[11] = data_at >> 8, 0x40
                regs[12] = data_at + 0x80
                regs[14] = [0x40, 0x80, 0x3F][placement]
                regs[24] = code_at
                regs[27] = 1
                patches = {code_at + i: x for i, x in enumerate(code + [0, 0, 0])}
                patches[data_at + 0x20] = 0x33
                ts = range(ci % stride, u.frame, stride)
                n = nt = 0
                for t in ts:
                    regs[25] = t
                    if check_case(shard, rig, u, code_at, code + [0, 0, 0], regs, patches, 0, {'part': 'sweep', 'class': name, 'T': t, 'placement': placement, 'is128': rig.is128}):
                        nt += 1
                    n += 1
                shard.bulk(n, nt)
                shard.inc('observed:full_frame_sweeps')
            if shard.out_of_time():
                break
        if shard.out_of_time():
            shard.inc('stopped_on_budget')
            break
    shard.sample({'part': 'sweep', 'classes': [c[0] for c in CLASSES][:6], 'every_T_of_frame': True})

def run(shard, spec):
    {'slots': run_slots, 'sweep': run_sweep}[spec['part']](shard, spec)

def finalize(agg, tier):
    c = agg['counters']
    probs = []
    if not c.get('monitor:steps_compared'):
        probs.append('no step compared')
    if c.get('observed:nonzero_delays', 0) < 1000:
        probs.append('fewer than 1000 cases with a predicted non-zero delay')
    return probs

def replay(shard, rp):
    print('re-run ./check C19 (part %s)' % rp.get('part'))

TECHNIQUE = 'differential single-step execution plain vs contended simulators; extra delay decided by reference machine-cycle lists through a ULA wait-state model'
LEVEL_TEXT = ('All 1792 opcode slots are executed by the plain and contended, Python and C simulators from states that place PC, pointer registers, SP, I and port addresses in ROM / '
              'contended / uncontended / paged memory at boundary-biased frame positions on 48K and 128K (even and odd bank); the non-clock state must agree, the contended run may '
              'never be faster, must be equal where nothing is contended or outside the display, and its extra T-states must equal the sum of 6,5,4,3,2,1,0,0 waits over the reference '
              'cycle list. 45 cycle-pattern classes are additionally swept over every T-state of the frame.')
LEVEL_NOTE = 'The cycle lists come from the published contention patterns; a misreading shared with the authors is invisible. Sampled states; exhaustive only over T for the swept classes.'
