"""C07 - all instruction tables agree on length, mnemonic and timing of every opcode.

Monitor shape: direct calls of the real decoders on the *complete* opcode space, plus one real step of each
simulator; oracle = cross-table equality.
"""
import itertools

from vk import harness, sims

ID = 'C07'
NEEDS_C = True
LEVEL = 'exploration'
EXHAUSTIVE = True
EXHAUSTIVE_NOTE = ('complete for the first/second/fourth opcode bytes of all 7 tables x 8 additional-opcode settings x '
                   '4 addresses (0x8000 and the three next to the 64K boundary); operand bytes are sampled (3 fixed fills + seed-dependent ones; DD/FD-led prefix chains added)')
RULE = ('every opcode sequence (256 unprefixed, CB xx, ED xx, DD xx, FD xx, DDCB d xx, FDCB d xx) x operand fills x '
        'Opcodes settings x addresses {0x8000,65533,65534,65535}; a case is one (sequence, fill, address); it is '
        'non-trivial when at least three decoders were compared on it; distinct by (sequence, fill, address)')
ASSUMPTIONS = ['simulator instruction length is observed through PC, pushed return addresses and relative-jump targets; '
               'for RET/RETI/RETN/JP (HL) the simulator length is unobservable and only the four table decoders are compared',
               'the 64K-boundary cases compare opcodes.decode with the non-wrapping disassembler and the simulators with the wrapping one']
MIN_NONTRIVIAL = {'quick': 5000, 'thorough': 5000}

OPCODE_SETS = ['', 'ED63', 'ED6B', 'ED70', 'ED71', 'IM', 'NEG', 'RETN', 'XYCB', 'ALL']
ADDRESSES = [0x8000, 65533, 65534, 65535]
FILLS = [(0x00, 0x00, 0x00), (0x7F, 0x80, 0xFF), (0x12, 0xFE, 0x81), (0x80, 0x7F, 0x00), (0xFF, 0x81, 0x80)]     # first byte = displacement / first operand: both sides of the sign boundary

def sequences():
    for op in range(256):
        if op not in (0xCB, 0xED, 0xDD, 0xFD):
            yield ('', (op,))
    for op in range(256):
        yield ('CB', (0xCB, op))
        yield ('ED', (0xED, op))
    for op in range(256):
        yield ('DD', (0xDD, op))
        yield ('FD', (0xFD, op))
    for op in range(256):
        yield ('DDCB', (0xDD, 0xCB, None, op))
        yield ('FDCB', (0xFD, 0xCB, None, op))

def plan(tier, seed):
    seqs = list(sequences())
    n = 16
    specs = []
    for i in range(n):
        specs.append({'lo': i * len(seqs) // n, 'hi': (i + 1) * len(seqs) // n, 'timeout': 1200})
    return specs

class _Cfg:
    def __init__(self, asm_hex, asm_lower, opcodes, wrap):
        from skoolkit.snaskool import Instruction
        self.asm_hex = asm_hex
        self.asm_lower = asm_lower
        self.defb_size = 8
        self.defm_size = 66
        self.defw_size = 1
        self.handle_rst = False
        self.imaker = Instruction
        self.opcodes = opcodes
        self.wrap = wrap

def place(mem, addr, seq, fill):
    """Write seq at addr (wrapping); None bytes take fill values; following bytes take fill values."""
    fi = iter(itertools.cycle(fill))
    out = []
    for k in range(6):
        if k < len(seq) and seq[k] is not None:
            v = seq[k]
        else:
            v = next(fi)
        mem[(addr + k) & 0xFFFF] = v
        out.append(v)
    return out

# Unconditional control transfers whose length a simulator step cannot reveal
def _sim_length_unobservable(b):
    if b[0] in (0xC9, 0xE9):
        return True
    if b[0] == 0xED and (b[1] & 0xC7) == 0x45:   # RETN/RETI family
        return True
    if b[0] in (0xDD, 0xFD) and b[1] == 0xE9:
        return True
    return False

def sim_observe(sim, kind, mem_bytes, addr, flags, bval, tracer):
    """Run one step; return (length or None, dT)."""
    r = sim.registers
    base = [0] * 30
    base[sims.A] = 0x55
    base[sims.F] = flags
    base[sims.B] = bval
    base[sims.C] = 1 if bval == 1 else 2       # BC for block instructions: B=0,C=1 -> BC=1 when bval==... set below
    base[sims.SP] = 0xA000
    base[sims.I] = 0x80
    base[sims.IM] = 1
    base[sims.PC] = addr
    base[sims.T] = 1000
    base[sims.H], base[sims.L] = 0x90, 0x00
    base[sims.D], base[sims.E] = 0x91, 0x00
    base[sims.IXh], base[sims.IXl] = 0x92, 0x80
    base[sims.IYh], base[sims.IYl] = 0x93, 0x80
    sims.set_regs(sim, base)
    tracer.reset(0)
    sim.run()
    pc = r[sims.PC]
    dT = r[sims.T] - 1000
    return pc, dT, r[sims.SP], sim.memory[0x9FFE] + 256 * sim.memory[0x9FFF]

def run(shard, spec):
    from skoolkit import opcodes as opc, traceutils, z80
    from skoolkit.disassembler import Disassembler
    from skoolkit.components import get_comment_generator
    from skoolkit.snactl import Instruction as CtlInstruction
    cg = get_comment_generator()
    seqs = list(sequences())[spec['lo']:spec['hi']]
    rng = shard.rng('fills')
    fills = list(FILLS) + [tuple(rng.randrange(256) for _ in range(3)) for _ in range(1 if shard.tier == 'quick' else 12)]
    # prefix chains and prefix-before-prefix sequences (thorough: all pairs)
    if spec['lo'] == 0:
        pf = (0xDD, 0xFD, 0xED, 0xCB)
        for a in (0xDD, 0xFD):
            for b in pf:
                for c3 in ((0x21, 0x00, 0x7E, 0xCB, 0xE9, 0x36) if shard.tier == 'quick' else range(256)):
                    seqs.append(('chain', (a, b, c3)))
    # Disassemblers per (opcodes, wrap) share one snapshot list
    snap = [0] * 65536
    dis = {}
    for ops in OPCODE_SETS:
        for wrap in (0, 1):
            dis[(ops, wrap)] = Disassembler(snap, _Cfg(True, False, ops, wrap))
    dis_dec = Disassembler(snap, _Cfg(False, False, '', 1))
    dis_low = Disassembler(snap, _Cfg(True, True, 'ALL', 1))
    dis_low0 = Disassembler(snap, _Cfg(True, True, '', 1))
    tracer = sims.PortLog()
    simobjs = {}
    for kind in sims.KINDS:
        s = sims.make48(kind, snap)
        s.set_tracer(tracer)
        simobjs[kind] = s

    def viol(what, seq, fill, addr, extra=None, finding=None):
        shard.violation(what, {'seq': [x for x in seq], 'fill': list(fill), 'addr': addr, 'extra': extra}, finding)

    for table, seq in seqs:
        for fill in fills:
            for addr in ADDRESSES:
                shard.inc('cases')
                b = place(snap, addr, seq, fill)
                for s in simobjs.values():
                    m = s.memory
                    for k in range(6):
                        m[(addr + k) & 0xFFFF] = b[k]
                compared = 0
                # ---- lengths and text: table decoders
                lengths = {}
                texts = {}
                timing_ins = []
                for ops in OPCODE_SETS:
                    try:
                        ins = dis[(ops, 1)].disassemble(addr, addr + 1, 'n')[0]
                    except Exception as e:
                        viol('Disassembler(Opcodes=%s) raised %r' % (ops, e), b, fill, addr)
                        continue
                    lengths['dis/' + ops] = len(ins.bytes)
                    texts[ops] = ins.operation
                    timing_ins.append((ops, ins))
                    shard.inc('eval:disassemble')
                try:
                    ttext, tlen = traceutils.disassemble(snap, addr)
                    shard.inc('eval:traceutils')
                except Exception as e:
                    viol('traceutils.disassemble raised %r' % (e,), b, fill, addr)
                    ttext, tlen = None, None
                try:
                    d = next(opc.decode(snap, addr, addr + 1))
                    dlen = d[1]
                    shard.inc('eval:decode')
                except Exception as e:
                    viol('opcodes.decode raised %r' % (e,), b, fill, addr)
                    dlen = None
                # the comment generator's tables: no lookup may fail for an instruction the control-file generator decodes
                if dlen is not None and not d[4].startswith('DEFB') and addr + dlen <= 65536:
                    try:
                        cg.get_comment(CtlInstruction(addr, snap[addr:addr + dlen]))
                        shard.inc('eval:comment_generator')
                    except Exception as e:
                        viol('comment generator raised %r for %s (%s)' % (e, d[4], bytes(b[:dlen]).hex()), b, fill, addr)
                # The Opcodes option changes mnemonics only, never lengths
                dl = set(lengths.values())
                if len(dl) > 1 and addr + 4 <= 65536:
                    viol('disassembler length depends on Opcodes setting: %r' % lengths, b, fill, addr)
                dlen_dis = lengths.get('dis/')
                # Guard: a relative jump whose target lies outside 0..65535 cannot be written in a skool file; the
                # skool disassembler emits DEFB (cut at 64K) for it by design, the run-time decoders wrap.
                jr_out = False
                if b[0] in (0x10, 0x18, 0x20, 0x28, 0x30, 0x38):
                    tgt = addr + 2 + (b[1] if b[1] < 128 else b[1] - 256)
                    jr_out = not 0 <= tgt < 65536
                if jr_out:
                    shard.inc('guard:jr_target_outside_64K')
                    if not (texts.get('') or '').startswith('DEFB'):
                        viol('relative jump with target outside 0..65535 disassembled as %r' % texts.get(''), b, fill, addr)
                    dlen_dis = 2
                    texts = {}
                defb_cut = (texts.get('') or '').startswith('DEFB') and tlen is not None and addr + tlen > 65536
                if defb_cut:
                    # a DEFB statement cannot wrap: the skool disassembler cuts it at 64K by design
                    shard.inc('guard:defb_cut_at_64K')
                    if dlen_dis != 65536 - addr:
                        viol('DEFB at the top of memory has %d bytes, expected %d' % (dlen_dis, 65536 - addr), b, fill, addr)
                    dlen_dis = tlen
                    texts = {}
                if tlen is not None and dlen_dis is not None:
                    compared += 1
                    if tlen != dlen_dis:
                        viol('length: skool disassembler %d vs trace disassembler %d for %s' % (dlen_dis, tlen, bytes(b).hex()), b, fill, addr)
                # decode vs the non-wrapping disassembler (both truncate at 64K)
                try:
                    insnw = dis[('', 0)].disassemble(addr, addr + 1, 'n')[0]
                    nwlen = len(insnw.bytes)
                except Exception as e:
                    viol('Disassembler(wrap=0) raised %r' % (e,), b, fill, addr)
                    nwlen = None
                if dlen is not None and nwlen is not None:
                    compared += 1
                    if dlen != nwlen:
                        fid = None
                        if b[0] in (0xDD, 0xFD) and dlen == 2 and nwlen == 1:
                            fid = 'C07-decode-ddfd-prefix-size'
                        viol('length: opcodes.decode %d vs skool disassembler %d for %s at %d' % (dlen, nwlen, bytes(b).hex(), addr), b, fill, addr, finding=fid)
                # ---- mnemonics: the two disassemblers in the same number format (hex, upper)
                if ttext is not None and texts.get('') is not None:
                    compared += 1
                    shard.inc('eval:mnemonic_compare')
                    # the skool disassembler with no additional opcodes emits DEFB for what traceutils names
                    cands = {texts[o] for o in texts}
                    if ttext not in cands:
                        viol('mnemonic: trace disassembler %r vs skool disassembler %r (any Opcodes setting) for %s' % (ttext, sorted(cands), bytes(b).hex()), b, fill, addr)
                    else:
                        shard.hist('mnemonic_matches_under', sorted(o or 'default' for o in texts if texts[o] == ttext)[0])
                # decimal format too
                try:
                    t2, _ = traceutils.disassemble(snap, addr, '', '', '')
                    i2 = dis_dec.disassemble(addr, addr + 1, 'n')[0]
                    if not i2.operation.startswith('DEF') and t2 != i2.operation and not t2.startswith('DEFB'):
                        viol('mnemonic (decimal): trace %r vs skool %r' % (t2, i2.operation), b, fill, addr)
                    i3 = dis_low.disassemble(addr, addr + 1, 'n')[0]
                    if i3.operation != i3.operation.lower() and '"' not in i3.operation:
                        viol('lower-case disassembly contains upper case: %r' % i3.operation, b, fill, addr)
                except Exception as e:
                    viol('decimal/lower disassembly raised %r' % (e,), b, fill, addr)
                # ---- simulators: length and timing
                simlens = {}
                simpushed = {}
                simT = {}
                for kind, s in simobjs.items():
                    obs = []
                    for flags, bval in ((0x00, 2), (0xFF, 2), (0x00, 1), (0xFF, 1)):
                        # BC=bval for block instructions, B=bval for DJNZ: registers B=0? use B=bval, C=0 -> BC=256*bval;
                        # use dedicated states instead:
                        s.memory[0x9FFE] = s.memory[0x9FFF] = 0
                        pc, dT, sp, pushed = sim_observe(s, kind, b, addr, flags, bval, tracer)
                        obs.append((flags, bval, pc, dT, sp, pushed))
                        # undo memory writes of the step
                        for k in range(6):
                            s.memory[(addr + k) & 0xFFFF] = b[k]
                    # additional state for block repeats: BC=1 (B=0,C=1)
                    sims.set_regs(s, [0x55, 0, 0, 1, 0x91, 0, 0x90, 0, 0x92, 0x80, 0x93, 0x80, 0xA000, 0, 0x80, 0,
                                      0, 0, 0, 0, 0, 0, 0, 0, addr, 1000, 0, 1, 0, 0])
                    tracer.reset(0)
                    s.run()
                    obs.append((0, 'bc1', s.registers[sims.PC], s.registers[sims.T] - 1000, s.registers[sims.SP]))
                    for k in range(6):
                        s.memory[(addr + k) & 0xFFFF] = b[k]
                    shard.inc('eval:simstep:' + kind, len(obs))
                    simT[kind] = sorted({o[3] for o in obs})
                    # length: smallest PC advance over the states (not-taken path), if observable
                    adv = {(o[2] - addr) & 0xFFFF for o in obs}
                    if any(not 0 <= o[2] <= 65535 for o in obs):
                        viol('%s simulator left PC=%s outside 0..65535 after %s at %d' % (kind, sorted({o[2] for o in obs}), bytes(b).hex(), addr), b, fill, addr)
                    simlens[kind] = adv
                    simpushed[kind] = {o[5] for o in obs if len(o) > 5}
                seqlen_known = dlen_dis
                if not _sim_length_unobservable(b) and seqlen_known is not None:
                    for kind, adv in simlens.items():
                        # The instruction length must be one of the observed PC advances (the fall-through path),
                        # except for unconditional transfers where pushed/target addresses are checked instead.
                        if b[0] == 0xC3:
                            ok = adv == {(b[1] + 256 * b[2] - addr) & 0xFFFF} and seqlen_known == 3
                        elif b[0] == 0xCD or (b[0] & 0xC7) == 0xC7:
                            ok = simpushed[kind] == {(addr + seqlen_known) & 0xFFFF}
                        elif b[0] == 0x18:
                            ok = adv == {(2 + (b[1] if b[1] < 128 else b[1] - 256)) & 0xFFFF} and seqlen_known == 2
                        elif b[0] == 0x76:
                            ok = adv == {0} and seqlen_known == 1
                        else:
                            ok = seqlen_known in adv
                        compared += 1
                        if not ok:
                            viol('length: %s simulator advances PC by %s, disassembler says %d for %s' % (kind, sorted(adv), seqlen_known, bytes(b).hex()), b, fill, addr)
                # timing table vs simulators (plain pair; contended pair at an uncontended T and address gives the same)
                # the timing looked up for a statement does not depend on the case it is written in; a data statement (how an
                # undefined sequence is rendered) has no timing at all
                try:
                    i_up = dis_dec.disassemble(addr, addr + 1, 'n')[0]
                    i_low = dis_low0.disassemble(addr, addr + 1, 'n')[0]
                    t_up, t_low = z80.get_timing(i_up), z80.get_timing(i_low)
                    shard.inc('eval:get_timing_case')
                    if t_up != t_low:
                        viol('timing: get_timing gives %r for %r and %r for %r' % (t_up, i_up.operation, t_low, i_low.operation), b, fill, addr)
                    if i_up.operation.startswith('DEF') and t_up is not None:
                        viol('timing: get_timing gives %r for the data statement %r' % (t_up, i_up.operation), b, fill, addr)
                except Exception as e:
                    viol('z80.get_timing raised %s on the decimal/lower-case rendering of %s' % (type(e).__name__, bytes(b).hex()), b, fill, addr)
                for ops, ins in timing_ins:
                    if ins.operation.upper().startswith('DEF'):
                        try:
                            if z80.get_timing(ins) is not None:
                                viol('timing: get_timing gives a timing for the data statement %r' % ins.operation, b, fill, addr)
                        except Exception as e:
                            viol('z80.get_timing raised %s for %r' % (type(e).__name__, ins.operation), b, fill, addr)
                        continue
                    try:
                        tm = z80.get_timing(ins)
                        shard.inc('eval:get_timing')
                    except Exception as e:
                        fid = None
                        if isinstance(e, KeyError) and b[0] == 0xED and ins.variant:
                            fid = 'C07-timing-ed-variants'
                        viol('z80.get_timing raised %s for %r (Opcodes=%s, bytes %s)' % (type(e).__name__, ins.operation, ops, bytes(ins.bytes).hex()), b, fill, addr, finding=fid)
                        continue
                    if tm is None:
                        viol('z80.get_timing returned None for %r' % ins.operation, b, fill, addr)
                        continue
                    tset = sorted(set(tm)) if isinstance(tm, (tuple, list)) else [tm]
                    for kind in ('py', 'c'):
                        compared += 1
                        if not set(simT[kind]) <= set(tset):
                            viol('timing: get_timing %s vs %s simulator T deltas %s for %r (%s)' % (tset, kind, simT[kind], ins.operation, bytes(ins.bytes).hex()), b, fill, addr)
                        elif len(tset) > 1 and set(simT[kind]) != set(tset):
                            viol('timing: get_timing lists %s but %s simulator only ever took %s for %r' % (tset, kind, simT[kind], ins.operation), b, fill, addr)
                    if addr == 0x8000:
                        for kind in ('pycmio', 'ccmio'):
                            if not set(simT[kind]) <= set(tset):
                                viol('timing: get_timing %s vs %s simulator (uncontended) %s for %r' % (tset, kind, simT[kind], ins.operation), b, fill, addr)
                shard.case((b[:4], fill, addr), nontrivial=compared >= 3,
                           sample={'bytes': bytes(b).hex(), 'addr': addr, 'skool': texts.get(''), 'trace': ttext,
                                   'decode_len': dlen, 'sim_dT': simT} if (addr == 0x8000 and fill == FILLS[1]) else None)


def replay(shard, rp):
    raise NotImplementedError('C07 is exhaustive: re-run ./check C07')

TECHNIQUE = 'exhaustive differential run of the real decoders/tables and one real step of each simulator (cross-table equality oracle)'
LEVEL_TEXT = ('Every opcode sequence of the seven tables is pushed through Disassembler.disassemble (10 Opcodes settings), traceutils.disassemble, '
              'opcodes.decode, z80.get_timing (upper-case hexadecimal, decimal and lower-case renderings; data statements must have no timing) and one step of all four simulators; lengths, mnemonics and T-states must agree. The opcode space is '
              'finite and enumerated completely, so for lengths/mnemonics/timings this is exhaustive observation rather than sampling; operand bytes are sampled.')
LEVEL_NOTE = ('Trusted: the harness state set-up (flags 00/FF, B and BC 1/2) exercises both timing members; simulator length is inferred from PC / pushed '
              'return address; DEFB statements and out-of-range relative jumps at the top of memory are compared under the documented cut-at-64K rule.')
