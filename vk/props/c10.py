"""C10 - saving a snapshot mid-run and resuming from it is transparent (trace.py).

Boundary recorder on trace.main: the uninterrupted run (-m N) against the two legs (-m n1, dump, -m N-n1 from the
dump) for EVERY split point of each program; oracle = field-by-field equality of the final snapshots.
"""
import os

from vk import harness
from vk.gens import proggen

ID = 'C10'
NEEDS_C = True
LEVEL = 'exploration'
RULE = ('generated programs (random code, interrupt-driven loops with EI/HALT, DD/FD chains, LDIR/OTIR, paging and AY writes) on 48K and 128K machines, '
        'run by trace.py under one configuration of {szx,z80} x {plain,-c} x {C,--python}; every split point n1 in 1..N-1 is a case; non-trivial when the '
        'instruction at the split is a HALT wait, follows EI, lies in a DD/FD chain or a repeating block instruction, or the split is within 2 instructions of a '
        'frame interrupt - or (for the rest) always counted as ordinary; distinct by (program, configuration, n1)')
ASSUMPTIONS = ['final states are compared through Snapshot.get on the files trace.py writes (codec fidelity itself is C09)',
               'Z80 snapshots cannot hold MEMPTR or port 0xFE: those are compared for SZX only',
               'T-states are compared modulo the frame (both formats store the position in the frame)']
MIN_NONTRIVIAL = {'quick': 1500, 'thorough': 30000}

FIELDS = ['a', 'f', 'bc', 'de', 'hl', 'a2', 'f2', 'bc2', 'de2', 'hl2', 'ix', 'iy', 'sp', 'i', 'r', 'pc', 'border', 'iff1', 'iff2', 'im',
          'out7ffd', 'outfffd', 'ay']

def plan(tier, seed):
    n = 16
    q = tier == 'quick'
    return [{'shard': i, 'of': n, 'timeout': 900 if q else 14000, 'budget_s': 100 if q else 3000} for i in range(n)]

def isr_program(rng, org):
    """A program that keeps running across frame interrupts: main loop with work + EI/HALT, ISR at 0x38 is the ROM's (48K)
    or, for IM 2, a handler we supply."""
    code = []
    code += [0xFB]                                         # EI
    body = proggen.program_bytes(rng, rng.choice([4, 12, 30]), org)
    # keep the body free of control transfers: replace branch-ish opcodes by NOP-like ones
    safe = []
    i = 0
    from vk.props.c06 import safe_program
    safe = safe_program(rng, rng.choice([5, 20, 60]), halt=True)
    code += safe
    if rng.random() < 0.7:
        code += [0xFB, 0x76]                               # EI; HALT
    if rng.random() < 0.5:
        code += [0x01, 0x10, 0x00, 0x21, 0x00, 0xA0, 0x11, 0x00, 0xA1, 0xED, 0xB0]   # LDIR 16 bytes
    if rng.random() < 0.3:
        code += [0xDD, 0xFD, 0xDD, 0x00, 0xFD, 0xDD, 0x23]  # prefix chain
    if rng.random() < 0.4:
        code += [0x3E, rng.randrange(256), 0xD3, 0xFE]      # border
    # jump back to the start
    code += [0xC3, org & 0xFF, org >> 8]
    return code

def paging_bits(rng):
    out = []
    for _ in range(rng.randint(1, 3)):
        v = rng.choice([0, 1, 3, 7, 0x10, 0x17, 0x24, rng.randrange(256)])
        # the paging port is decoded on A15=0 and A1=0 only: aliases must page too, near misses must not
        port = rng.choice([0x7FFD, 0x7FFD, 0x3FFD, 0x01FD, 0x5FF9, 0x7FFC, 0x00FD, 0xBFFD, 0x7FFF, 0xFFFD])
        if rng.random() < 0.25:
            out += [0x3E, v & 0x7F, 0xD3, 0xFD]                                 # LD A,v; OUT (FD),A  (port = A*256+0xFD, A15 clear)
        else:
            out += [0x01, port & 0xFF, port >> 8, 0x3E, v, 0xED, 0x79]          # LD BC,port; LD A,v; OUT (C),A
        if rng.random() < 0.7:
            # make the paged-in bank (and ROM) observable: copy a byte from it to fixed RAM and modify the bank
            a = 0xC000 + rng.choice([0, 1, 0x100, 0x3FFF])
            d = 0x5B00 + rng.randrange(64)
            out += [0x3A, a & 0xFF, a >> 8, 0x32, d & 0xFF, d >> 8, 0x3C, 0x32, a & 0xFF, a >> 8,
                    0x3A, rng.choice([0x00, 0x66, 0xFF]), rng.choice([0x00, 0x15, 0x3F]), 0x32, (d + 64) & 0xFF, (d + 64) >> 8]
    for _ in range(rng.randint(0, 2)):
        reg = rng.choice([0, 7, 8, 13, 15, 16, 31, rng.randrange(256)])
        out += [0x01, 0xFD, 0xFF, 0x3E, reg, 0xED, 0x79, 0x06, 0xBF, 0x3E, rng.randrange(256), 0xED, 0x79]   # select AY reg, write value
    return out

def make_program(rng, force_sp=None):
    if rng.random() < 0.12:
        # boundary-directed: interrupts disabled while the frame boundary passes, EI a few T-states into the new frame
        # (the pending interrupt must survive a save taken inside the acceptance window)
        org = rng.choice([0x8000, 0xC000, 0x6000])
        k = rng.randint(0, 6)
        tail = rng.choice([[0x00, 0x00], [0xDD, 0x00], [0x76], [0x00, 0xFB, 0x00]])
        return ('boundary', rng.random() < 0.3), org, [0x00] * k + [0xFB] + tail + [0x00] * 6 + [0xC3, org & 0xFF, org >> 8]
    if rng.random() < 0.08 or force_sp is not None:
        # boundary-directed: an interrupt accepted with the stack on the ROM/RAM boundary (or wrapping): the pushed return
        # address falls partly into ROM, which a snapshot does not carry; the IM 2 routine copies the two stack bytes to RAM
        sp = rng.choice([0x4000, 0x4000, 0x4001, 0x4002, 0x3FFF, 0x0001, 0x0000]) if force_sp is None else force_sp
        org = 0x80E0
        code = [0x31, sp & 0xFF, sp >> 8, 0x3E, 0x80, 0xED, 0x47, 0xED, 0x5E, 0xFB, 0x76] + [0x00] * 20
        code += [0x10, 0x81]                                  # 0x80FF: vector -> 0x8110
        code += [0x00] * (0x8110 - org - len(code))
        a, b = (sp - 1) & 0xFFFF, (sp - 2) & 0xFFFF
        code += [0x3A, a & 0xFF, a >> 8, 0x32, 0x01, 0x90, 0x3A, b & 0xFF, b >> 8, 0x32, 0x02, 0x90, 0x31, 0x00, 0x70, 0xFB, 0x18, 0xFE]
        return ('boundary', rng.random() < 0.3), org, code
    if rng.random() < 0.08:
        # boundary-directed: EI; HALT with the HALT as the last contended byte (0x7FFF) or first uncontended one
        org = rng.choice([0x7FFE, 0x7FFD, 0x7FFF, 0xBFFE])
        return rng.random() < 0.3, org, [0xFB, 0x76, 0x18, 0xFC]
    is128 = rng.random() < 0.4
    org = rng.choice([0x8000, 0x6000, 0x7FF0, 0xBFF8, 0xC000 if not is128 else 0x9000])
    k = rng.random()
    if k < 0.55:
        code = isr_program(rng, org)
        if is128:
            code = paging_bits(rng) + code
            code[-2], code[-1] = org & 0xFF, org >> 8
    elif k < 0.8:
        code = proggen.program_bytes(rng, rng.choice([30, 100]), org)
    else:
        from vk.props.c06 import safe_program
        code = safe_program(rng, 80, halt=True) + [0xC3, org & 0xFF, org >> 8]
    return is128, org, code[:65536 - org]

def load(fn):
    from skoolkit.snapshot import Snapshot
    return Snapshot.get(fn)

def compare(s1, s2, ext, frame):
    diffs = []
    for f in FIELDS:
        if getattr(s1, f) != getattr(s2, f):
            diffs.append((f, getattr(s1, f), getattr(s2, f)))
    if s1.tstates % frame != s2.tstates % frame:
        diffs.append(('tstates%frame', s1.tstates % frame, s2.tstates % frame))
    if ext == 'szx':
        for f in ('memptr', 'outfe'):
            if getattr(s1, f) != getattr(s2, f):
                diffs.append((f, getattr(s1, f), getattr(s2, f)))
    r1, r2 = s1.ram(-1), s2.ram(-1)
    if r1 != r2:
        bad = [i for i in range(len(r1)) if r1[i] != r2[i]][:16]
        diffs.append(('ram', [(i, r1[i]) for i in bad], [(i, r2[i]) for i in bad]))
    return diffs

def start_snapshot(is128, org, code, rng, ext, t0=None, iff=1):
    """Create the start snapshot with trace.py itself (one NOP executed at a scratch address)."""
    args = []
    pokes = []
    for i, b in enumerate(code):
        pokes += ['-p', '%d,%d' % ((org + i) & 0xFFFF, b)]
    tr = rng.choice([0, 100, 30000, 69000, 69880, rng.randrange(69888)])
    t0 = tr if t0 is None else t0
    sp = rng.choice([0x7F00, 0x5D00, 0xFFFE])
    args += ['-n', '-m', '1', '-s', str(0x5B00), '--reg', 'SP=%d' % sp, '--state', 'tstates=%d' % t0, '--state', 'im=%d' % rng.choice([1, 1, 2]),
             '--state', 'iff=%d' % iff, '--reg', 'I=%d' % rng.choice([0x3F, 0x80, 0xFE])]
    fn = 'start.' + ext
    r = harness.run_tool('trace', args + pokes + ['128' if is128 else '48', fn])
    return fn, r

def special_points(logtext):
    """Indices (instruction numbers) that are interesting split points, from the -v log of the whole run."""
    pts = set()
    lines = [l for l in logtext.splitlines() if l.startswith('$')]
    for i, l in enumerate(lines):
        ins = l[6:].strip()
        if ins.startswith('HALT') or ins.startswith('EI') or ins.startswith('DEFB') or ins.startswith(('LDIR', 'LDDR', 'OTIR', 'INIR', 'CPIR')):
            pts.update((i, i + 1))
        if l.startswith('$0038') or l.startswith('$0039'):
            pts.update((i - 1, i, i + 1))
    return pts, len(lines)

AY_READS = [0]
AY_WRITES = [0]

def install_ay_monitor():
    """Counting wrapper on the real trace.Tracer.read_port: how often a read of an AY-decoded port (A15=A14=1, A1=0) was made: the answer depends on the AY register-select value and registers."""
    from skoolkit import trace
    if getattr(trace.Tracer, '_vk_wrapped', False):
        return
    orig = trace.Tracer.read_port
    def read_port(self, registers, port):
        if port & 0xC002 == 0xC000:
            AY_READS[0] += 1
        return orig(self, registers, port)
    trace.Tracer.read_port = read_port
    # writes that change the AY state (register select 0xFFFD-decoded, data 0xBFFD-decoded), through the tracer's own entry point
    from skoolkit import pagingtracer
    orig_w = pagingtracer.PagingTracer.write_port
    def write_port(self, registers, port, value, offset=0):
        if port & 0x8002 == 0x8000:
            AY_WRITES[0] += 1
        return orig_w(self, registers, port, value, offset)
    pagingtracer.PagingTracer.write_port = write_port
    trace.Tracer._vk_wrapped = True

def run(shard, spec):
    install_ay_monitor()
    nprog = 160 if shard.tier == 'quick' else 2400
    cases = list(range(spec['shard'], nprog, spec['of']))
    if spec['shard'] == 0:
        cases.insert(0, 'witness')         # the listed finding's witness is replayed first, deterministically
    if spec['shard'] == 5 % spec['of']:
        cases.insert(0, 'ay48')            # witness of the 48K AY finding: AY register written before the dump, read after it
    # state that only some snapshot fields or encodings can carry, in every run: an AY register-select value above 15
    # (128K, both formats), runs of 2-5 0xED bytes in RAM next to other bytes (the Z80 run-length coder), aliased paging ports
    FIXED = {
        # LD BC,FFFD; LD A,1F; OUT (C),A; 3 x NOP; IN A,(C); LD (9000),A; LD A,5; OUT (C),A; IN A,(C); LD (9001),A; JR $
        'ay-select-high-szx': (True, 0x8000, [0x01, 0xFD, 0xFF, 0x3E, 0x1F, 0xED, 0x79, 0x00, 0x00, 0x00, 0xED, 0x78, 0x32, 0x00, 0x90, 0x3E, 0x05, 0xED, 0x79, 0xED, 0x78, 0x32, 0x01, 0x90, 0x18, 0xFE], 'szx', 16),
        'ay-select-high-z80': (True, 0x8000, [0x01, 0xFD, 0xFF, 0x3E, 0x1F, 0xED, 0x79, 0x00, 0x00, 0x00, 0xED, 0x78, 0x32, 0x00, 0x90, 0x3E, 0x05, 0xED, 0x79, 0xED, 0x78, 0x32, 0x01, 0x90, 0x18, 0xFE], 'z80', 16),
        # LD HL,EDED; LD (9000),HL; LD (9003),HL; LD (9004),HL; LD (9008),HL; LD (900A),HL; LD A,ED; LD (900C),A; LD A,(9001); JR $
        'ed-runs-z80': (False, 0x8000, [0x21, 0xED, 0xED, 0x22, 0x00, 0x90, 0x22, 0x03, 0x90, 0x22, 0x04, 0x90, 0x22, 0x08, 0x90, 0x22, 0x0A, 0x90, 0x3E, 0xED, 0x32, 0x0C, 0x90,
                                        0x3A, 0x01, 0x90, 0x18, 0xFE], 'z80', 14),
        'ed-runs-128-z80': (True, 0x8000, [0x21, 0xED, 0xED, 0x22, 0x00, 0xC0, 0x22, 0x03, 0xC0, 0x22, 0x04, 0xC0, 0x22, 0x08, 0x90, 0x22, 0x0A, 0x90, 0x3E, 0xED, 0x32, 0x0C, 0x90,
                                          0x3A, 0x01, 0xC0, 0x18, 0xFE], 'z80', 14),
        # LD A,13; OUT (FD),A  (port 13FD: A15 and A1 clear - pages bank 3, ROM 1); LD A,(C000); LD (9000),A; LD A,(0001); LD (9001),A; JR $
        # NOP x4; EI; HALT; INC A; LD (9000),A; JR $  - started 60 T-states before the end of the 128K frame (beyond the 48K frame length): the interrupt must still arrive on time after a resume
        'late-frame-128-szx': (True, 0x8000, [0x00, 0x00, 0x00, 0x00, 0xFB, 0x76, 0x3C, 0x32, 0x00, 0x90, 0x18, 0xFE], 'szx', 30, 70848),
        'late-frame-128-z80': (True, 0x8000, [0x00, 0x00, 0x00, 0x00, 0xFB, 0x76, 0x3C, 0x32, 0x00, 0x90, 0x18, 0xFE], 'z80', 30, 70848),
        'alias-port-128': (True, 0x8000, [0x3E, 0x13, 0xD3, 0xFD, 0x3A, 0x00, 0xC0, 0x32, 0x00, 0x90, 0x3C, 0x32, 0x00, 0xC0, 0x3A, 0x01, 0x00, 0x32, 0x01, 0x90, 0x18, 0xFE], 'szx', 12),
    }
    for k, name in enumerate(sorted(FIXED)):
        if spec['shard'] == (6 + k) % spec['of']:
            cases.insert(0, name)
    DIRECTED = {'stack-4000-c': 0x4000, 'stack-4001-c': 0x4001, 'stack-0001-c': 0x0001, 'stack-4000-py': 0x4000}
    if spec['shard'] in (1, 2, 3, 4) and spec['shard'] < spec['of']:
        cases.insert(0, sorted(DIRECTED)[spec['shard'] - 1])     # the stack-on-the-ROM-boundary programs, in every run
    for case in cases:
        rng = shard.rng('prog', case)
        is128, org, code = make_program(rng, DIRECTED.get(case))
        boundary = isinstance(is128, tuple)
        if boundary:
            is128 = is128[1]
        ext = rng.choice(['szx', 'z80'])
        cmio = rng.random() < 0.4
        py = rng.random() < (0.6 if boundary else 0.25)
        N = rng.choice([40, 80, 120]) if not py else rng.choice([30, 60])
        if case in DIRECTED:
            py = case.endswith('-py')
            N = 40
        if case in FIXED:
            is128, org, code, ext, N = FIXED[case][:5]
            cmio, py, boundary = False, False, False
        if case == 'ay48':
            # LD BC,FFFD; LD A,1; OUT (C),A; LD B,BF; LD A,55; OUT (C),A; LD B,FF; 3 x NOP; IN A,(C); LD (9000),A; JR $
            is128, org, ext, cmio, py, N, boundary = False, 0x8000, 'szx', False, False, 14, False
            code = [0x01, 0xFD, 0xFF, 0x3E, 0x01, 0xED, 0x79, 0x06, 0xBF, 0x3E, 0x55, 0xED, 0x79, 0x06, 0xFF, 0x00, 0x00, 0x00, 0xED, 0x78, 0x32, 0x00, 0x90, 0x18, 0xFE]
        if case == 'witness':
            is128, org, code, ext, cmio, py, N = False, 0x7FFE, [0xFB, 0x76, 0x18, 0xFC], 'szx', True, False, 40
        if shard.tier == 'thorough':
            N *= 2
        opts = (['-c'] if cmio else []) + (['--python'] if py else [])
        frame = 70908 if is128 else 69888
        t0 = 20000 if case == 'witness' or case in FIXED or case == 'ay48' else None      # directed programs start well inside a frame
        if case in FIXED and len(FIXED[case]) > 5:
            t0 = FIXED[case][5]
        iff0 = 1
        if boundary:
            t0 = (70908 if is128 else 69888) - rng.randint(1, 44)
            iff0 = 0
            N = min(N, 40)
            shard.inc('observed:boundary_directed_programs')
        # the start snapshot of the late-frame programs is written in the other format, so that a writer that loses the
        # frame position cannot lose it in the same way for the uninterrupted run and for both legs
        ext0 = ext if not str(case).startswith('late-frame') else {'szx': 'z80', 'z80': 'szx'}[ext]
        fn0, r = start_snapshot(is128, org, code, rng, ext0, t0, iff0)
        rp = {'case': case, 'is128': is128, 'org': org, 'code': harness.b64(bytes(code)), 'ext': ext, 'opts': opts, 'N': N}
        if not r.ok:
            shard.violation('trace.py failed creating the start snapshot: %s' % r.describe(), rp)
            continue
        whole = 'whole.' + ext
        ay0 = AY_READS[0]
        r = harness.run_tool('trace', opts + ['-v', '-s', str(org), '-m', str(N), fn0, whole])
        if not r.ok:
            shard.violation('trace.py failed on the uninterrupted run: %s\n%s' % (r.describe(), (r.tb or '')[-600:]), rp)
            continue
        pts, nlines = special_points(r.out)
        whole_log = r.out
        ay_reads_48k = AY_READS[0] - ay0 if not is128 else 0
        sw = load(whole)
        bad = 0
        for n1 in range(1, N):
            mid, fin = 'mid.' + ext, 'fin.' + ext
            ayw0 = AY_WRITES[0]
            ra = harness.run_tool('trace', opts + ['-s', str(org), '-m', str(n1), fn0, mid])
            ay_writes_leg1 = AY_WRITES[0] - ayw0
            if not ra.ok:
                shard.violation('first leg (-m %d) failed: %s' % (n1, ra.describe()), dict(rp, n1=n1))
                bad += 1
                break
            ayr0 = AY_READS[0]
            rb = harness.run_tool('trace', opts + ['-m', str(N - n1), mid, fin])
            ay_reads_leg2 = AY_READS[0] - ayr0
            if not rb.ok:
                shard.violation('second leg (-m %d from the dump) failed: %s\n%s' % (N - n1, rb.describe(), (rb.tb or '')[-600:]), dict(rp, n1=n1))
                bad += 1
                break
            shard.inc('monitor:split_points_compared')
            d = compare(sw, load(fin), ext, frame)
            special = n1 in pts
            if d and ext == 'z80' and cmio and memptr_flags_only(d, whole_log):
                # the Z80 format cannot hold MEMPTR (the property says so); under -c the undocumented F bits 5/3 of
                # BIT n,(HL) are copied from MEMPTR, so they (alone) may legitimately differ after a resume
                shard.skip('z80 format + -c: MEMPTR-dependent flag bits 5/3 differ after BIT n,(HL)')
                d = []
            if d:
                shard.violation('%s %s %s: run of %d differs from %d + dump + %d: %s' % ('128K' if is128 else '48K', ext, ' '.join(opts) or '(C, plain)', N, n1, N - n1, d[:5]),
                                dict(rp, n1=n1), classify(d, cmio, is128, whole_log, n1, ay_reads_48k and ay_writes_leg1 and ay_reads_leg2))
                bad += 1
                if bad > 3:
                    break
            shard.case((case, n1), True,
                       sample={'machine': '128K' if is128 else '48K', 'format': ext, 'options': opts, 'N': N, 'n1': n1, 'org': org, 'code_head': bytes(code[:24]).hex()} if case == 0 and n1 == 1 else None)
            if special:
                shard.inc('observed:special_split_points')
        shard.hist('config', '%s/%s/%s/%s' % ('128K' if is128 else '48K', ext, 'cmio' if cmio else 'plain', 'py' if py else 'C'))
        if shard.out_of_time():
            shard.inc('stopped_on_budget')
            break
    # long legs: the clock must survive T far beyond one frame (and beyond 2^24)
    if spec['shard'] == 0:
        long_legs(shard)

def long_legs(shard):
    """The clock must survive T far beyond one frame and beyond 2^24. What makes a wrong frame position observable in
    the final state is something that depends on it: contention delays (-c, code in contended memory) and HALT waits."""
    progs = {'jr': (bytes([0x18, 0xFE]), ['-c', '-n', '-o', '24576']),                                   # JR $ in contended RAM
             'halt': (bytes([0xFB, 0x76, 0x13, 0x18, 0xFB]), ['-c', '-o', '24576', '--reg', 'SP=32000'])}  # EI; HALT; INC DE; JR -5
    for case, (ext, which, total, n1) in enumerate([('szx', 'jr', 1600000, 1500000), ('z80', 'jr', 1600000, 1500000), ('szx', 'jr', 1450001, 1449999),
                                                     ('szx', 'halt', 4400000, 4300000), ('z80', 'halt', 600000, 300000), ('szx', 'jr', 300000, 150000)]):
        code, base = progs[which]
        harness.write_file('loop.bin', code)
        opts = [o for o in base if o in ('-c', '-n')]
        r0 = harness.run_tool('trace', base + ['-m', str(total), 'loop.bin', 'lw.' + ext])
        r1 = harness.run_tool('trace', base + ['-m', str(n1), 'loop.bin', 'lm.' + ext])
        r2 = harness.run_tool('trace', opts + ['-m', str(total - n1), 'lm.' + ext, 'lf.' + ext])
        if not (r0.ok and r1.ok and r2.ok):
            shard.violation('trace.py failed on a long run: %s %s %s' % (r0.describe(), r1.describe(), r2.describe()), {'long': case})
            continue
        d = compare(load('lw.' + ext), load('lf.' + ext), ext, 69888)
        shard.inc('monitor:long_leg_comparisons')
        shard.case(('long', case), True)
        if d:
            shard.violation('long run (%s loop, %d instructions, clock beyond 2^24 at the split) %s: split at %d differs: %s' % (which, total, ext, n1, d[:6]), {'long': case, 'ext': ext})

def memptr_flags_only(d, log):
    if not ('BIT' in log and '(HL)' in log):
        return False
    for name, v1, v2 in d:
        if name == 'ram':
            # F pushed on the stack (PUSH AF, or an interrupt routine that saves AF) carries the two bits into RAM
            if len(v1) != len(v2) or any(a1 != a2 or (b1 ^ b2) & ~0x28 for (a1, b1), (a2, b2) in zip(v1, v2)):
                return False
        elif name != 'f' or (v1 ^ v2) & ~0x28:
            return False
    return True

def classify(d, cmio, is128, log, n1, ay_reads_48k=0):
    if ay_reads_48k:
        # C10-48k-ay-registers-not-saved: on a 48K machine trace.py answers reads of port 0xFFFD from simulated AY
        # registers, but 48K snapshots carry no AY state, so a resumed run reads different values. Decided on the
        # witness: the leg before the dump wrote to the AY ports (monitor on PagingTracer.write_port) and the leg after
        # it read the AY port (monitor on Tracer.read_port)
        return 'C10-48k-ay-registers-not-saved'
    return _classify_halt(d, cmio, is128, log, n1)

def _classify_halt(d, cmio, is128, log, n1):
    """Known-finding mechanisms. C10-halted-flag-not-saved: the split falls inside a HALT wait (the CPU is in the halted
    state), contention is simulated, the bytes at PC and PC+1 differ in contention (a halted CPU fetches from PC+1, the
    resumed run re-executes HALT from PC because no snapshot carries the halted flag), and nothing but the clock differs."""
    if not cmio or any(x[0] != 'tstates%frame' for x in d):
        return None
    lines = [l for l in log.splitlines() if l.startswith('$')]
    if not 0 < n1 < len(lines):
        return None
    prev, nxt = lines[n1 - 1], lines[n1]
    if not (prev[6:].strip().startswith('HALT') and nxt[6:].strip().startswith('HALT') and prev[:5] == nxt[:5]):
        return None
    pc = int(prev[1:5], 16)
    def contended(a):
        a &= 0xFFFF
        return 0x4000 <= a < 0x8000 or (is128 and a >= 0xC000)
    if contended(pc) != contended(pc + 1):
        return 'C10-halted-flag-not-saved'
    return None

def finalize(agg, tier):
    c = agg['counters']
    probs = []
    if not c.get('monitor:split_points_compared'):
        probs.append('no split point compared')
    if c.get('observed:special_split_points', 0) < 50:
        probs.append('fewer than 50 special split points (HALT/EI/prefix chain/block repeat/interrupt) observed')
    if not c.get('monitor:long_leg_comparisons'):
        probs.append('long-leg comparisons did not run')
    return probs

def replay(shard, rp):
    print('re-run ./check C10 (case %s)' % rp.get('case'))

TECHNIQUE = 'boundary recorder on trace.py: uninterrupted run vs save/resume at every split point, field-by-field snapshot equality'
LEVEL_TEXT = ('For each generated program and configuration the real trace.py is run once for N instructions and, for every n1 in 1..N-1, as two legs through a snapshot file; '
              'the final snapshots must agree in RAM, all registers, IFF/IM, border, paging/AY state and frame position (MEMPTR and port FE too for SZX), plus long runs with T beyond 2^24; directed programs (frame boundary with DI/EI/HALT, aliased paging ports, stack on the ROM boundary) run in every tier.')
LEVEL_NOTE = 'N is bounded (40-240); programs are sampled; snapshot decoding is trusted here and checked by C09.'
