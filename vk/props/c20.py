"""C20 - RZX playback is reproducible, implementation-independent and resumable.

Boundary recorder on rzxplay.main / rzxinfo.main. Recordings are produced by the reference recorder
(vk/ref/c20_rzxrec.py) driving either a simulator of the code under test ("a run of the simulator itself") or the
reference interpreter refz80, with a stated frame-boundary convention. Each recording is then
  * played to the end by rzxplay with the C and the Python simulator: no error, final state == recorder's final state,
    C == Python;
  * played with every other value of the playback flags that the recording leaves free: same final state;
  * for EVERY stop point k in 1..F-1: `--stop k` + dump to .rzx, then the dump played to the end: same final state;
  * listed by `rzxinfo --frames` (the recording and every dump): frame counts, fetch counters, IN counters and the
    (first ten) port readings equal the recorder's log.
"""
import os
import re

from vk import harness
from vk.gens import c20_rzxgen as gen
from vk.ref import c20_rzxrec as rzxrec
from vk.ref import c20_refcpu
from vk.ref import c09_szxfmt, c09_z80fmt

ID = 'C20'
NEEDS_C = True
LEVEL = 'exploration'
RULE = ('generated programs (block-structured main loops with IN A,(n)/IN r,(C)/INI/INIR, EI/DI, HALT, IM 0/1/2 with a supplied IM 2 handler or the ROM one, '
        'DD/FD chains, LD A,I/R, LD R,A, self-modification, 128K paging (incl. lock-then-write histories of 0x7FFD with bank/ROM-dependent reads) and AY writes; boundary-directed micro loops; random bytes) on 48K and 128K start states are '
        'recorded for F frames (F 2..40; frame length from 4 T to the real frame) by the reference recorder driving the Python simulator (plain or contended) or refz80; '
        'the recording is written as RZX with a z80 (v1/v2/v3) or szx snapshot, compressed or not, with or without repeated-frame markers, in one or several input '
        'recording blocks (with or without intermediate snapshots). A case is one comparison: (recording, full play with C / Python / other free flag values), '
        '(recording, stop point k, implementations of the two legs), (file, rzxinfo listing). Non-trivial when the recording contains at least one port reading or '
        'accepted interrupt; distinct by (recording bytes, comparison kind, k, flags, implementations)')
ASSUMPTIONS = ['final states are read from the .szx/.z80 file rzxplay writes after playback, decoded by the C09 reference decoders (codec fidelity itself is C09)',
               'the recorder follows one stated convention (see vk/ref/c20_rzxrec.py): interrupt accepted at every frame boundary incl. the last one, T reset to 0 there, '
               'fetch counter = M1 cycles of executed instructions; playback flags bit 0 / bit 1 are tied to the recorder\'s ldair / ei mode only when a frame boundary '
               'of the recording depends on them, bit 2 is free when intermediate snapshots equal the running state',
               'MEMPTR is compared only under --cmio (plain simulators do not model it); AY and 0x7FFD state only on 128K; port 0xFE latch only through szx dumps',
               'refz80-driven recordings: bits 5/3 of F and F\' are not compared, and a recording that executed PUSH AF, BIT n,(HL) or a block instruction that repeated is skipped '
               '(refz80 and the simulators differ there by design: flags that C05 excludes)',
               'under --cmio with a z80 snapshot MEMPTR cannot be carried by the file: recordings that execute BIT n,(HL) are skipped for the resume comparison there',
               'recordings in which an interrupt push overlaps the IM 2 vector are skipped (order of push and vector read belongs to the simulator, not to RZX playback)']
MIN_NONTRIVIAL = {'quick': 1500, 'thorough': 30000}

REG16 = ['bc', 'de', 'hl', 'bc2', 'de2', 'hl2', 'ix', 'iy', 'sp', 'pc']
REG8 = ['a', 'f', 'a2', 'f2', 'i', 'r', 'im', 'iff1', 'border']

def plan(tier, seed):
    q = tier == 'quick'
    n = 15
    specs = [{'shard': i, 'of': n, 'timeout': 600 if q else 7200, 'budget_s': 45 if q else 900} for i in range(n)]
    specs.append({'shard': 0, 'of': 1, 'asan': True, 'flavour': 'asan', 'timeout': 600 if q else 7200, 'budget_s': 25 if q else 600})
    return specs

# ------------------------------------------------------------------ CPU adapter around the code under test

def _tracer_class():
    from skoolkit.pagingtracer import PagingTracer

    class RecTracer(PagingTracer):
        def __init__(self, simulator, snapshot, inputs):
            self.simulator = simulator
            self.out7ffd = snapshot.out7ffd
            self.outfffd = snapshot.outfffd
            self.ay = list(snapshot.ay)
            self.border = snapshot.border
            self.outfe = snapshot.outfe
            self.inputs = inputs
            self.got = []
            self.outs = []

        def read_port(self, registers, port):
            v = self.inputs(port) & 0xFF
            self.got.append(v)
            return v

        def write_port(self, registers, port, value, offset=0):
            self.outs.append((port, value))
            PagingTracer.write_port(self, registers, port, value, offset)
    return RecTracer

_RT = []

class SkoolCPU:
    """The Python simulator of the code under test, built from the snapshot exactly as rzxplay builds it."""
    def __init__(self, snap, ext, cmio, inputs):
        from skoolkit.snapshot import Snapshot
        from skoolkit.simutils import from_snapshot
        from skoolkit.simulator import Simulator
        from skoolkit.cmiosimulator import CMIOSimulator
        if not _RT:
            _RT.append(_tracer_class())
        snapshot = Snapshot.get(bytes(snap), ext)
        self.sim = from_snapshot(CMIOSimulator if cmio else Simulator, snapshot, config={'int_active': 0})
        self.tracer = _RT[0](self.sim, snapshot, inputs)
        self.sim.set_tracer(self.tracer)
        self.regs = self.sim.registers
        self.mem = self.sim.memory
        self.is128 = len(self.mem) == 0x20000

    def peek(self, a):
        return self.mem[a & 0xFFFF]

    def poke(self, a, v):
        a &= 0xFFFF
        if a > 0x3FFF:
            self.mem[a] = v & 0xFF

    def step(self):
        t = self.tracer
        t.got = []
        t.outs = []
        self.sim.run()
        return t.got, t.outs

    def ram(self):
        if self.is128:
            return [bytes(b) for b in self.mem.banks]
        return bytes(self.mem[0x4000:])

    def paged(self):
        return self.mem.o7ffd if self.is128 else 0

# ------------------------------------------------------------------ states

def build_snapshot(st, ext, version, compress):
    if ext == 'szx':
        return c09_szxfmt.build(st, compress=compress)
    return c09_z80fmt.build(st, version=version, compress=compress)

def parse_snapshot(data, ext):
    if ext == 'szx':
        return c09_szxfmt.parse(data)
    return c09_z80fmt.parse(data)

def state_of(cpu, ports, machine):
    """Snapshot-layout state dict of the recorder's machine."""
    r = cpu.regs
    st = {'machine': machine, 'a': r[0], 'f': r[1], 'a2': r[16], 'f2': r[17], 'sp': r[12], 'pc': r[24], 'i': r[14], 'r': r[15],
          'iff1': 1 if r[26] else 0, 'iff2': 1 if r[26] else 0, 'im': r[27], 'tstates': r[25], 'memptr': r[29], 'issue2': 0,
          'border': ports.border, 'outfe': ports.outfe, 'out7ffd': ports.page.value, 'outfffd': ports.outfffd, 'ay': tuple(ports.ay)}
    for hi, name in ((2, 'bc'), (4, 'de'), (6, 'hl'), (8, 'ix'), (10, 'iy'), (18, 'bc2'), (20, 'de2'), (22, 'hl2')):
        st[name] = (r[hi] << 8) | r[hi + 1]
    for k in list(st):
        if isinstance(st[k], int):
            st[k] = int(st[k])
    st['ram'] = cpu.ram()
    return st

def compare(exp, got, is128, cmio, dump_ext, refmode, with_t=True, with_outfe=True):
    """exp/got: state dicts. Returns list of (field, expected, got)."""
    d = []
    for f in REG16 + REG8:
        a, b = exp[f], got[f]
        if refmode and f in ('f', 'f2'):
            a, b = a & 0xD7, b & 0xD7
        if a != b:
            d.append((f, a, b))
    if with_t and exp.get('tstates') is not None and got.get('tstates') is not None and exp['tstates'] != got['tstates']:
        d.append(('tstates', exp['tstates'], got['tstates']))
    if dump_ext == 'szx':
        if cmio and exp['memptr'] != got['memptr']:
            d.append(('memptr', exp['memptr'], got['memptr']))
        if with_outfe and exp['outfe'] != got['outfe']:
            d.append(('outfe', exp['outfe'], got['outfe']))
    if is128:
        for f in ('out7ffd', 'outfffd', 'ay'):
            if tuple(exp[f]) != tuple(got[f]) if f == 'ay' else exp[f] != got[f]:
                d.append((f, exp[f], got[f]))
    r1, r2 = exp['ram'], got['ram']
    if is128:
        r1, r2 = b''.join(bytes(b) for b in r1), b''.join(bytes(b) for b in r2)
    else:
        r1, r2 = bytes(r1), bytes(r2)
    if r1 != r2:
        bad = [i for i in range(min(len(r1), len(r2))) if r1[i] != r2[i]][:4]
        d.append(('ram', [(i, r1[i]) for i in bad], [(i, r2[i]) for i in bad]))
    return d

# ------------------------------------------------------------------ recording

_ROMS = {}

def roms(is128):
    if is128 not in _ROMS:
        import skoolkit
        names = skoolkit.ROM128 if is128 else (skoolkit.ROM48,)
        _ROMS[is128] = [harness.read_file(n) for n in names]
    return _ROMS[is128]

def choose_config(rng, meta, tier, mode):
    cfg = {
        'mode': mode,
        'cmio': mode == 'sim' and rng.random() < 0.4,
        'ldair': rng.random() < 0.5,
        'ei': rng.random() < 0.5,
        'compress_snap': rng.random() < 0.7,
        'compress_irb': rng.random() < 0.7,
        'compress_file': rng.random() < 0.6,
        'repeat': rng.choice(['nonempty', 'nonempty', 'all', None]),
        'dump_ext': 'szx' if rng.random() < 0.85 else 'z80',
    }
    nf = meta['frames']
    layout = rng.choices(['single', 'multi', 'snaps'], [0.72, 0.12, 0.16])[0]
    if nf < 3 or (layout == 'snaps' and mode == 'ref'):
        layout = 'single' if nf < 3 else 'multi'
    if layout == 'single':
        sizes = [nf]
    else:
        nb = 2 if nf < 6 or rng.random() < 0.6 else 3
        cuts = sorted(rng.sample(range(1, nf), nb - 1))
        sizes = [b - a for a, b in zip([0] + cuts, cuts + [nf])]
    cfg['layout'] = layout
    cfg['sizes'] = sizes
    exts = []
    for _ in sizes:
        ext = rng.choice(['szx', 'z80'])
        version = 3
        if ext == 'z80':
            version = rng.choice([3, 3, 3, 2, 1])
        exts.append((ext, version))
    cfg['exts'] = exts
    return cfg

def fix_version(st, ext, version):
    if ext == 'z80' and version == 1 and (st['machine'] != '48K' or st['pc'] == 0):
        return 3
    return version

class Recording:
    pass

def make_recording(rng, st, meta, cfg):
    is128 = meta['is128']
    machine = st['machine']
    inputs = gen.input_fn(meta)
    ext, version = cfg['exts'][0]
    version = fix_version(st, ext, version)
    cfg['exts'][0] = (ext, version)
    snap = build_snapshot(st, ext, version, cfg['compress_file'])
    parsed = parse_snapshot(snap, ext)
    t0 = st['tstates']

    def make_cpu(snap, ext, parsed, tstates):
        if cfg['mode'] == 'sim':
            cpu = SkoolCPU(snap, ext, cfg['cmio'], inputs)
        else:
            cpu = c20_refcpu.RefCPU(parsed, roms(is128), inputs)
        cpu.regs[25] = tstates
        ports = rzxrec.PortState(is128, parsed.get('out7ffd') or 0, parsed.get('outfffd') or 0, parsed.get('ay'), parsed.get('outfe') or 0, parsed['border'])
        return cpu, ports

    cpu, ports = make_cpu(snap, ext, parsed, t0)
    rec = rzxrec.Recorder(cpu, ports, cfg['ldair'], cfg['ei'])
    frng = rng
    flen, jitter = meta['flen'], meta['jitter']
    lens = [flen + (frng.randrange(jitter + 1) if jitter else 0) for _ in range(meta['frames'])]
    blocks = []
    done = 0
    for j, n in enumerate(cfg['sizes']):
        if j == 0:
            blk = rzxrec.Block(t0, snap, ext)
        elif cfg['layout'] == 'snaps':
            e2, v2 = cfg['exts'][j]
            cur = state_of(rec.cpu, rec.ports, machine)
            v2 = fix_version(cur, e2, v2)
            cfg['exts'][j] = (e2, v2)
            snap2 = build_snapshot(cur, e2, v2, cfg['compress_file'])
            parsed2 = parse_snapshot(snap2, e2)
            tnow = int(rec.cpu.regs[25])
            # the machine continues from what the embedded snapshot holds (that is what a snapshot block means)
            rec.cpu, rec.ports = make_cpu(snap2, e2, parsed2, tnow)
            blk = rzxrec.Block(tnow, snap2, e2)
        else:
            blk = rzxrec.Block(int(rec.cpu.regs[25]))
        base = done
        rec.record(blk, n, lambda i: lens[base + i])
        done += n
        blocks.append(blk)
    R = Recording()
    R.blocks = blocks
    R.frames = [f for b in blocks for f in b.frames]
    R.final = state_of(rec.cpu, rec.ports, machine)
    R.paged = rec.cpu.paged()
    R.rec = rec
    R.need_bit0 = rec.need_bit0
    R.need_bit1 = rzxrec.need_bit1(blocks, cfg['ei'])
    R.data = rzxrec.build_rzx(blocks, cfg['compress_snap'], cfg['compress_irb'], cfg['repeat'])
    R.repeats = [rzxrec.count_repeats([(f.fetch, f.ins) for f in b.frames], cfg['repeat']) for b in blocks]
    return R

# ------------------------------------------------------------------ tools

def play(infile, outfile, flags, cmio, python, stop=None):
    argv = ['--quiet', '--no-screen', '--flags', str(flags)]
    if cmio:
        argv.append('--cmio')
    if python:
        argv.append('--python')
    if stop is not None:
        argv += ['--stop', str(stop)]
    argv += [infile, outfile]
    if os.path.exists(outfile):
        os.unlink(outfile)
    r = harness.run_tool('rzxplay', argv)
    return r, argv

def load_final(fn):
    data = harness.read_file(fn)
    return parse_snapshot(data, fn.rpartition('.')[2])

FRAME_RE = re.compile(r'^  Frame (\d+):$')

def parse_info(text):
    """-> list of input recording blocks: {'n': declared frames, 'tstates': t, 'frames': [(fetch, in_counter_shown, eff_count, readings_text or None)]}"""
    blocks = []
    cur = None
    fr = None
    for line in text.splitlines():
        if not line.startswith(' '):
            cur = None
            if line.strip() == 'Input recording:':
                cur = {'n': None, 'tstates': None, 'frames': []}
                blocks.append(cur)
            continue
        if cur is None:
            continue
        s = line.strip()
        m = FRAME_RE.match(line)
        if m:
            fr = {'index': int(m.group(1)), 'fetch': None, 'in': None, 'eff': None, 'readings': None}
            cur['frames'].append(fr)
        elif s.startswith('Number of frames:'):
            cur['n'] = int(s.split(':')[1].split()[0])
        elif s.startswith('T-states:'):
            cur['tstates'] = int(s.split(':')[1])
        elif s.startswith('Fetch counter:') and fr is not None:
            fr['fetch'] = int(s.split(':')[1])
        elif s.startswith('IN counter:') and fr is not None:
            v = s.split(':')[1].split()
            fr['in'] = int(v[0])
            fr['eff'] = int(v[1].strip('()')) if len(v) > 1 else int(v[0])
        elif s.startswith('Port readings:') and fr is not None:
            fr['readings'] = s.split(':', 1)[1].strip()
    return blocks

def check_info(infile, expected_blocks):
    """expected_blocks: list of (tstates or None, [(fetch, [readings])]). Returns list of problems (strings)."""
    r = harness.run_tool('rzxinfo', ['--frames', infile])
    if not r.ok:
        return ['rzxinfo failed: %s' % r.describe()], r
    got = parse_info(r.out)
    probs = []
    if len(got) != len(expected_blocks):
        return ['rzxinfo lists %d input recording blocks, expected %d' % (len(got), len(expected_blocks))], r
    for bi, (g, (ts, frames)) in enumerate(zip(got, expected_blocks)):
        if g['n'] != len(frames):
            probs.append('block %d: number of frames %s, recorded %d' % (bi, g['n'], len(frames)))
        if ts is not None and g['tstates'] != ts:
            probs.append('block %d: T-states %s, recorded %d' % (bi, g['tstates'], ts))
        if len(g['frames']) != len(frames):
            probs.append('block %d: %d frames listed, recorded %d' % (bi, len(g['frames']), len(frames)))
            continue
        for k, (gf, (fetch, ins)) in enumerate(zip(g['frames'], frames)):
            if gf['index'] != k:
                probs.append('block %d frame %d: listed as frame %s' % (bi, k, gf['index']))
            if gf['fetch'] != fetch:
                probs.append('block %d frame %d: fetch counter %s, recorded %d' % (bi, k, gf['fetch'], fetch))
            if gf['in'] not in (len(ins), 65535) or gf['eff'] != len(ins):
                probs.append('block %d frame %d: IN counter %s (%s), recorded %d' % (bi, k, gf['in'], gf['eff'], len(ins)))
            want = None
            if ins:
                want = ', '.join(str(b) for b in ins[:10]) + ('...' if len(ins) > 10 else '')
            if gf['readings'] != want:
                probs.append('block %d frame %d: port readings %r, recorded %r' % (bi, k, gf['readings'], want))
            if len(probs) > 6:
                return probs, r
    return probs, r

def expected_after_stop(R, k):
    """Input recording blocks a dump written after k frames must list: the rest of the block that contains frame k, then
    the remaining blocks."""
    out = []
    done = 0
    started = False
    for b in R.blocks:
        n = len(b.frames)
        if started:
            out.append((b.tstates, [(f.fetch, f.ins) for f in b.frames]))
        elif k <= done + n:
            started = True
            out.append((None, [(f.fetch, f.ins) for f in b.frames[k - done:]]))
        done += n
    return out

# ------------------------------------------------------------------ one recording and everything played from it

def describe(st, meta, cfg, R):
    return {'machine': st['machine'], 'program': meta['kind'], 'org': meta['org'], 'frame_length': meta['flen'], 'jitter': meta['jitter'], 'frames': len(R.frames),
            'recorder': cfg['mode'] + ('+cmio' if cfg['cmio'] else ''), 'ldair': cfg['ldair'], 'ei': cfg['ei'], 'layout': cfg['layout'], 'block_sizes': cfg['sizes'],
            'snapshots': [('%s v%d' % tuple(e)) if e[0] == 'z80' else 'szx' for e in (cfg['exts'] if cfg['layout'] == 'snaps' else cfg['exts'][:1])],
            'compressed': [cfg['compress_snap'], cfg['compress_irb']], 'repeat_marker': cfg['repeat'],
            'fetch_counters': [f.fetch for f in R.frames][:12], 'in_counters': [len(f.ins) for f in R.frames][:12],
            'boundaries': ''.join({'halt': 'H', 'ei': 'E', 'ldair': 'L', 'prefix': 'P', 'other': '.'}[f.last] + ('!' if f.accepted else '') for f in R.frames)[:80]}

def classify(R, cfg, k=None, flags=0):
    """Known-finding mechanisms (predicates over the witness).
    C20-boundary-opcode-reread: at some frame boundary with interrupts enabled the bytes at the address of the frame's last
      instruction, read again after it executed, no longer say what kind of instruction it was (HALT / EI / LD A,I/R / other).
    C20-z80v1-pc0-dump: the snapshot in use at stop point k is a version 1 Z80 file and PC is 0 there (a v1 header marks
      itself by PC != 0, so the dump written by write_rzx cannot be read back)."""
    if R.rec.hazard:
        return 'C20-boundary-opcode-reread'
    if k is not None and R.frames[k - 1].pc == 0:
        j = 0
        if cfg['layout'] == 'snaps' and not flags & 4:
            done = 0
            for bi, b in enumerate(R.blocks):
                if k > done:
                    j = bi
                done += len(b.frames)
        if tuple(cfg['exts'][j]) == ('z80', 1):
            return 'C20-z80v1-pc0-dump'
    return None

MECHANISMS = {
    'C20-boundary-opcode-reread': 'an instruction that ends a frame changed the byte(s) at its own address, and rzxplay classifies the last instruction '
                                  '(HALT / EI / LD A,I/R) by re-reading memory after execution',
    'C20-z80v1-pc0-dump': 'embedded Z80 version 1 snapshot and PC = 0 at the stop point: write_rzx keeps the v1 header, which cannot hold PC = 0',
}

def witness_z80v1_pc0(rng):
    """Directed case for 'C20-z80v1-pc0-dump': DI; JP 0 recorded from a version 1 Z80 snapshot with 4 T frames: PC is 0 at the
    end of frame 2, so the dump written at --stop 2 has a v1 header with PC = 0."""
    st, meta = gen.gen_case(rng, allow_real=False)
    ram = bytearray(49152)
    code = [0xF3, 0xC3, 0x00, 0x00]
    ram[0x4000:0x4000 + len(code)] = bytes(code)
    st.update(machine='48K', ram=bytes(ram), pc=0x8000, sp=0xAF00, iff1=0, iff2=0, im=1, tstates=0, out7ffd=0)
    meta.update(kind='witness', is128=False, org=0x8000, flen=4, jitter=0, frames=4, flen_class='tiny', inputs='const')
    cfg = choose_config(rng, meta, 'quick', 'sim')
    cfg.update(cmio=False, layout='single', sizes=[4], exts=[('z80', 1)], ldair=False, ei=False, dump_ext='szx')
    return st, meta, cfg

def witness_reread(rng):
    """Directed case for the mechanism 'C20-boundary-opcode-reread': the last instruction of a frame, LD (0x8000),A at 0x8000
    with A=0x76 and interrupts enabled, overwrites its own first byte with the HALT opcode. The CPU is not halted, so the
    interrupt at the frame boundary must push 0x8003."""
    st, meta = gen.gen_case(rng, allow_real=False)
    ram = bytearray(49152)
    code = [0x32, 0x00, 0x80, 0x00, 0x00, 0x00, 0x18, 0xFE]
    ram[0x4000:0x4000 + len(code)] = bytes(code)
    st.update(machine='48K', ram=bytes(ram), a=0x76, pc=0x8000, sp=0xAF00, iff1=1, iff2=1, im=1, tstates=0, out7ffd=0)
    meta.update(kind='witness', is128=False, org=0x8000, flen=4, jitter=0, frames=3, flen_class='tiny', inputs='const')
    cfg = choose_config(rng, meta, 'quick', 'sim')
    cfg.update(cmio=False, layout='single', sizes=[3], exts=[('szx', 3)], ldair=False, ei=False, dump_ext='szx')
    return st, meta, cfg

def run_case(shard, case, asan=False, verbose=False):
    rng = shard.rng('case', case)
    tier = shard.tier
    if case == 'witness-reread':
        st, meta, cfg = witness_reread(rng)
    elif case == 'witness-z80v1-pc0':
        st, meta, cfg = witness_z80v1_pc0(rng)
    else:
        mode = 'ref' if not asan and rng.random() < 0.2 else 'sim'
        st, meta = gen.gen_case(rng, allow_real=mode == 'sim', ref_friendly=mode == 'ref')
        cfg = choose_config(rng, meta, tier, mode)
    R = make_recording(rng, st, meta, cfg)
    is128, cmio, refmode = meta['is128'], cfg['cmio'], cfg['mode'] == 'ref'
    rec = R.rec
    rp = {'case': case, 'seed': shard.seed, 'tier': tier, 'asan': asan, 'flavour': 'asan' if asan else 'plain'}
    info = describe(st, meta, cfg, R)
    if verbose:
        print(info)
    shard.hist('recorder', info['recorder'])
    shard.hist('machine', st['machine'])
    shard.hist('program', meta['kind'])
    shard.hist('frame_length_class', meta['flen_class'])
    shard.hist('layout', cfg['layout'])
    shard.hist('snapshot', ('%s v%d' % cfg['exts'][0]) if cfg['exts'][0][0] == 'z80' else 'szx')
    for k in ('halt', 'ei', 'ldair', 'prefix', 'accepted', 'ei_blocked', 'short', 'ins', 'im2', 'outs', 'halt_wrap',
              'locked_7ffd_writes', 'locked_7ffd_writes_other_value', 'locked_7ffd_writes_bit5_clear'):
        if rec.stats[k]:
            shard.inc('recorded:' + k, rec.stats[k])
    shard.inc('recorded:frames', len(R.frames))
    nrep = sum(r[0] for r in R.repeats)
    if nrep:
        shard.inc('recorded:repeat_markers_with_readings', nrep)
        shard.inc('recorded:recordings_with_repeated_frames')
    if sum(r[1] for r in R.repeats):
        shard.inc('recorded:repeat_markers_without_readings', sum(r[1] for r in R.repeats))
    shard.inc('recorded:recordings')
    if meta.get('lockseq'):
        shard.inc('recorded:recordings_with_paging_lock_history')
    # frames (0-based) in which a write to the locked paging port with another value happened after the lock was set
    lock_frame = rec.lock_frame if rec.stats['locked_7ffd_writes_other_value'] else None
    # ---- outside what the convention defines
    if rec.ambiguous:
        shard.skip(rec.ambiguous[0])
        return
    if refmode and (rec.pushed_af or rec.taint):
        # refz80 and the simulators differ by design in flags that C05 excludes: bits 5/3 of F (which PUSH AF would carry into
        # memory) and the flags of BIT n,(HL) / of a repeating block instruction between its iterations
        shard.skip('refz80-driven recording executed PUSH AF, BIT n,(HL) or a repeating block instruction (flags outside C05)')
        return
    if is128 and R.paged != rec.ports.page.value:
        # the paging model and the simulator's memory disagree: that is C08's subject, not this property's
        shard.skip('paging model and simulator memory disagree on 0x7FFD (C08 territory)')
        return
    nontrivial = rec.stats['ins'] > 0 or rec.stats['accepted'] > 0
    digest = harness.h64(R.data)
    harness.write_file('rec.rzx', R.data)
    # ---- flags
    base = (1 if cfg['ldair'] else 0) | (2 if cfg['ei'] else 0)
    # bit 2 (ignore later snapshots) is free when there are none, or when they hold the complete running state (szx)
    free2 = cfg['layout'] != 'snaps' or all(e[0] == 'szx' for e in cfg['exts'][1:len(R.blocks)])
    free = (0 if R.need_bit0 else 1) | (0 if R.need_bit1 else 2) | (4 if free2 else 0)
    flags = base ^ (rng.randrange(8) & free)
    if R.need_bit0:
        shard.inc('observed:flag1_constrained')
    if R.need_bit1:
        shard.inc('observed:flag2_constrained')
    dump_ext = cfg['dump_ext']
    nviol = [0]

    def fail(what, extra=None):
        nviol[0] += 1
        d = dict(rp)
        if extra:
            d.update(extra)
        fid = classify(R, cfg, (extra or {}).get('k'), flags)
        if fid:
            what = '[%s: %s] %s' % (fid, MECHANISMS[fid], what)
        shard.violation('%s\n recording: %s' % (what, info), d, fid)

    def full_play(python, fl, out):
        r, argv = play('rec.rzx', out, fl, cmio, python)
        if not r.ok or not os.path.isfile(out):
            fail('rzxplay %s failed on a recording of the simulator itself: %s\n%s' % (' '.join(argv), r.describe(), (r.tb or '')[-700:]))
            return None
        return load_final(out)

    # ---- 1. full plays: C and Python against the recorder
    finals = {}
    impls = [False] if asan else [False, True]
    for python in impls:
        got = full_play(python, flags, 'final_%s.%s' % ('py' if python else 'c', dump_ext))
        shard.inc('monitor:full_plays')
        if got is None:
            continue
        finals[python] = got
        d = compare(R.final, got, is128, cmio, dump_ext, refmode)
        shard.case((digest, 'full', flags, python), nontrivial, sample=info if case in (0, 1) and not python else None)
        if d:
            fail('%s playback (flags %d%s) does not end in the recorder\'s state: %s' % ('Python' if python else 'C', flags, ', --cmio' if cmio else '', d[:6]))
    if False in finals and True in finals:
        d = compare(finals[False], finals[True], is128, cmio, dump_ext, False)
        shard.inc('monitor:c_vs_python')
        shard.case((digest, 'c==py', flags), nontrivial)
        if d:
            fail('C and Python playback (flags %d%s) end in different states: %s' % (flags, ', --cmio' if cmio else '', d[:6]))
    ref_final = finals.get(False) or finals.get(True)
    # ---- 2. rzxinfo on the recording
    probs, r = check_info('rec.rzx', [(b.tstates, [(f.fetch, f.ins) for f in b.frames]) for b in R.blocks])
    shard.inc('monitor:rzxinfo_listings')
    shard.case((digest, 'info'), nontrivial)
    if probs:
        fail('rzxinfo --frames does not report what was recorded: %s' % '; '.join(probs[:5]))
    if ref_final is None or nviol[0]:
        return
    # ---- 3. other admissible flag values
    others = [base ^ m for m in range(8) if m & ~free == 0 and base ^ m != flags]
    rng.shuffle(others)
    for fl in others[:1 if tier == 'quick' else 3]:
        python = (not asan) and rng.random() < 0.3
        got = full_play(python, fl, 'alt.%s' % dump_ext)
        shard.inc('monitor:alt_flag_plays')
        if got is None:
            continue
        d = compare(ref_final, got, is128, cmio, dump_ext, False)
        shard.case((digest, 'flags', fl, python), nontrivial)
        if d:
            fail('playback with flags %d (free bits %d for this recording) differs from playback with flags %d: %s' % (fl, free, flags, d[:6]))
    # ---- 4. every stop point
    F = len(R.frames)
    used_exts = [e[0] for e in cfg['exts'][:len(R.blocks) if cfg['layout'] == 'snaps' else 1]]
    z80_embedded = 'z80' in used_exts          # the dump then carries a z80 snapshot: no MEMPTR, no port 0xFE latch
    memptr_lossy = cmio and z80_embedded
    for k in range(1, F):
        if shard.out_of_time():
            shard.inc('stopped_on_budget')
            break
        py1 = (not asan) and rng.random() < 0.2
        py2 = (not asan) and rng.random() < 0.2
        if meta['flen_class'] == 'real' and tier == 'quick':
            py1 = py2 = False
        r1, argv1 = play('rec.rzx', 'part.rzx', flags, cmio, py1, stop=k)
        if not r1.ok or not os.path.isfile('part.rzx'):
            fail('rzxplay %s failed: %s\n%s' % (' '.join(argv1), r1.describe(), (r1.tb or '')[-700:]), {'k': k})
            break
        fin = 'fin.%s' % dump_ext
        r2, argv2 = play('part.rzx', fin, flags, cmio, py2)
        shard.inc('monitor:stop_points')
        if not r2.ok or not os.path.isfile(fin):
            fail('stop at frame %d of %d, dump, then rzxplay %s failed: %s\n%s' % (k, F, ' '.join(argv2), r2.describe(), (r2.tb or '')[-700:]), {'k': k})
            if nviol[0] > 2:
                break
            continue
        got = load_final(fin)
        d = compare(ref_final, got, is128, cmio and not z80_embedded, dump_ext, False, with_outfe=not z80_embedded)
        if d and memptr_lossy and bit_hl_executed(R, st, meta, cfg):
            shard.skip('--cmio + z80 snapshot: MEMPTR is not carried and the program executes BIT n,(HL)')
            d = []
        shard.case((digest, 'resume', k, flags, py1, py2), nontrivial)
        if R.frames[k - 1].last != 'other' or R.frames[k - 1].accepted:
            shard.inc('observed:stop_at_special_boundary')
        if lock_frame is not None and k > lock_frame:
            shard.inc('observed:stop_after_paging_lock')
        if d:
            fail('stop at frame %d of %d (%s), dump .rzx, play the dump (%s): final state differs from uninterrupted playback (flags %d%s): %s' % (
                k, F, 'Python' if py1 else 'C', 'Python' if py2 else 'C', flags, ', --cmio' if cmio else '', d[:6]), {'k': k})
            if nviol[0] > 2:
                break
        probs, r = check_info('part.rzx', expected_after_stop(R, k))
        shard.inc('monitor:rzxinfo_listings')
        shard.case((digest, 'info', k), nontrivial)
        if probs:
            fail('rzxinfo --frames on the dump written after frame %d does not report the remaining recording: %s' % (k, '; '.join(probs[:5])), {'k': k})
            if nviol[0] > 2:
                break

def bit_hl_executed(R, st, meta, cfg):
    """Conservative: any CB 46..7E (BIT n,(HL)) byte pair anywhere in RAM at the end or the start of the recording."""
    def scan(ram):
        data = b''.join(bytes(b) for b in ram) if isinstance(ram, list) else bytes(ram)
        i = data.find(b'\xcb')
        while i >= 0 and i + 1 < len(data):
            b = data[i + 1]
            if b & 0xC7 == 0x46:
                return True
            i = data.find(b'\xcb', i + 1)
        return False
    return scan(st['ram']) or scan(R.final['ram'])

def run(shard, spec):
    quick = shard.tier == 'quick'
    if spec.get('asan'):
        n = 8 if quick else 150
        for case in range(n):
            run_case(shard, 'asan%d' % case, asan=True)
            if shard.out_of_time():
                shard.inc('stopped_on_budget')
                break
        return
    total = 150 if quick else 3000
    cases = list(range(spec['shard'], total, spec['of']))
    if spec['shard'] == 0:
        cases[:0] = ['witness-reread', 'witness-z80v1-pc0']
    for case in cases:
        run_case(shard, case)
        if shard.out_of_time():
            shard.inc('stopped_on_budget')
            break

def finalize(agg, tier):
    c = agg['counters']
    probs = []
    for k, n in (('monitor:full_plays', 20), ('monitor:c_vs_python', 10), ('monitor:stop_points', 100), ('monitor:rzxinfo_listings', 100),
                 ('monitor:alt_flag_plays', 5), ('recorded:halt', 5), ('recorded:ei', 5), ('recorded:ldair', 3), ('recorded:prefix', 3),
                 ('recorded:accepted', 50), ('recorded:ins', 100), ('recorded:recordings_with_repeated_frames', 3),
                 ('recorded:locked_7ffd_writes_other_value', 20), ('recorded:locked_7ffd_writes_bit5_clear', 10), ('observed:stop_after_paging_lock', 30), ('observed:stop_at_special_boundary', 50)):
        if c.get(k, 0) < n:
            probs.append('%s = %d (< %d): the workload did not reach what the check decides on' % (k, c.get(k, 0), n))
    return probs

def replay(shard, rp):
    shard.seed = rp.get('seed', shard.seed)
    shard.tier = rp.get('tier', shard.tier)
    run_case(shard, rp['case'], asan=rp.get('asan', False), verbose=True)
    for v in shard.violations:
        print(v['what'])

TECHNIQUE = ('boundary recorder on rzxplay/rzxinfo; reference RZX recorder (stated frame-boundary convention, independent M1 counting) driving the Python simulators or refz80; '
             'final-state identity, C == Python, resume identity at every stop point, rzxinfo listing == recorder log')
LEVEL_TEXT = ('Each generated program is recorded to an RZX file by the harness recorder; the real rzxplay must play it without error to the recorder\'s final state with both '
              'simulators, give the same state for every free flag value, and give the same state when stopped at any frame, dumped to .rzx and resumed; rzxinfo --frames must list '
              'exactly the recorded frames for the recording and for every dump.')
LEVEL_NOTE = ('Programs and frame lengths are sampled (F <= 40); the recorder shares the simulator\'s instruction semantics in sim mode (that is the property\'s premise) and refz80\'s in '
              'ref mode with bits 5/3 of F excluded; ASan/UBSan shard drives the C simulators only.')
