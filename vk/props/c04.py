"""C04 - skool2asm, skool2bin and the macro-visible snapshot agree on the assembled image.

Events:  stdout of skoolkit.skool2asm.main under each option set, the file written by skoolkit.skool2bin.main in the
         corresponding mode, the SkoolParser instance skool2asm/skool2html built (its snapshot after the conversion),
         the expansions of #PEEK in the ASM and HTML output, the PNG files #UDG wrote.
Oracle:  (i)   asmload(skool2asm output) == skool2bin image, same addresses, for the mode pairs skool2asm can express;
         (ii)  that image is identical across -D/-H x -l/-u x -c and with @label/@keep/@nowarn removed;
         (iii) what #PEEK / #UDG / the parser snapshot show equals the skool2bin (-d) image of the same mode; mode
               "none" is compared through skool2html (asm mode 0).
Guards (DESIGN.md C04 a-d) are evaluated from what the generator knows about the file it wrote, never from skoolkit.

Findings on the unchanged tree, keyed by mechanism (predicates below; each is generated on purpose in a few per cent
of the files so that the rest of the workload stays decidable):
  C04-label-on-inserted-instruction-crashes-asmwriter   AsmWriter.__init__ files labels under instruction.address;
        an instruction inserted by '>'/'+' (or written without address) has address None, so a label on it
        ('@rsub=>LABEL:op', or the -c label of an entry that begins with an inserted instruction) makes
        min(self.labels) raise TypeError as soon as another label exists.
  C04-data-directive-colon-in-comment   parse_asm_data_directive takes everything before the LAST colon of a
        @defb/@defs/@defw value for the address, including the "; arbitrary text" the documentation says is ignored:
        skool2asm/skool2html silently drop the directive, skool2bin -d dies unpacking the int it returns.
  C04-keep-reaches-inserted-instructions-in-skool2bin   BinWriter hands a line's @keep to every instruction the
        line's @*sub/@*fix directives insert, SkoolParser only to the instruction in the line: after a relocation
        skool2asm emits the label (moved address), skool2bin keeps the stale number.
"""
import os
import re
import shutil

from vk import harness
from vk.gens import c04_skoolgen as sg
from vk.ref import c04_asmload as al

ID = 'C04'
NEEDS_C = False
LEVEL = 'exploration'
RULE = ('generated skool file (1-6 contiguous or @org-separated entries of instructions from 12 template families and DEFB/DEFM/DEFS/DEFW '
        'statements with strings, characters, expressions and all bases; operands that are / merely equal addresses of other instructions; '
        '@isub/@ssub/@rsub/@ofix/@bfix/@rfix in every shape: replace, >before, +after, |overwrite, !remove, labels, comment-only, @if-wrapped, '
        'block directives; @org @equ @label @keep @nowarn @bytes @defb/@defs/@defw) in one of three profiles (rigid: size-preserving substitutions '
        'and arbitrary labels; fluid: every shape with all referenced instructions labelled; mixed: every shape, arbitrary labels) x 6 base mode '
        'pairs + 1 of 3 extra pairs x (default options + 3 of the 17 other -D/-H x -l/-u x -c sets, some on the file with @label/@keep/@nowarn '
        'removed); a file is non-trivial when it has at least one substitution directive and at least one mode comparison was decided; distinct '
        'by hash of the file text')
ASSUMPTIONS = [
    'instruction encoding is delegated to skoolkit.z80.Assembler in asmload (validated by C02); asmload normalises OUT (C),$00 to OUT (C),0',
    'guard a: entries are contiguous or separated by an @org directive; skool2asm prints ORG only there',
    'guard b: the snapshot comparison (iii) is asserted only in modes where every substitution that can be active is a one-for-one, '
    'size-preserving replacement and no @org value differs from the skool address',
    'guard c: when a size-changing substitution can be active, (i)/(ii) against skool2bin are asserted only if every address-like literal that '
    'equals an instruction address points at an instruction with an explicit label; otherwise only the base/case invariance of the skool2asm '
    'image is asserted for that mode, and the mode is counted as skipped for (i)',
    'removing @label/@keep/@nowarn is asserted to change nothing only in modes without a size-changing substitution (with one, labels are what '
    'relocates an operand, so removing them legitimately changes the image)',
    '@bytes values equal the assembler encoding except in rigid files, where alternative encodings of the same length are masked out of (i)/(ii) '
    '(ASM output cannot carry them) and compared in (iii)',
    'a removed or overwritten instruction carries no directive of its own; a relative jump that no longer reaches its target after relocation is '
    'outside the property (skipped)',
]
MIN_NONTRIVIAL = {'quick': 100, 'thorough': 3000}
N_FILES = {'quick': 1500, 'thorough': 40000}

# name, skool2asm argv, skool2bin argv, (asm, fix)
MODES = [
    ('isub', [], ['-i'], (1, 0)),
    ('ssub', ['-s'], ['-s'], (2, 0)),
    ('rsub', ['-r'], ['-r'], (3, 1)),
    ('ofix', ['-f', '1'], ['-i', '-o'], (1, 1)),
    ('bfix', ['-f', '2'], ['-i', '-b'], (1, 2)),
    ('rfix', ['-f', '3'], ['-R'], (3, 3)),
]
EXTRA_MODES = [
    ('ssub+ofix', ['-s', '-f', '1'], ['-s', '-o'], (2, 1)),
    ('ssub+bfix', ['-s', '-f', '2'], ['-s', '-b'], (2, 2)),
    ('rsub+bfix', ['-r', '-f', '2'], ['-r', '-b'], (3, 2)),
]
OPTSETS = [(b, c, k) for b in (None, '-D', '-H') for c in (None, '-l', '-u') for k in (False, True)]
STRIPS = ['label', 'keep', 'nowarn']

def plan(tier, seed):
    n = 16
    q = tier == 'quick'
    return [{'shard': i, 'of': n, 'timeout': 600 if q else 6000, 'budget_s': 42 if q else 1000} for i in range(n)]

# ------------------------------------------------------------------ guards from the generator's own knowledge

def kind_active(kind, asm, fix):
    return {'isub': asm >= 1, 'ssub': asm >= 2, 'rsub': asm >= 3, 'ofix': fix >= 1, 'bfix': fix >= 2, 'rfix': fix >= 3}[kind]

def moving(meta, asm, fix):
    return 'all' in meta['moving'] or any(kind_active(k, asm, fix) for k in meta['moving'] if k != 'all')

def strip_text(text, what):
    out = []
    for l in text.split('\n'):
        if 'label' in what and l.startswith('@label='):
            continue
        if 'keep' in what and l.startswith('@keep'):
            continue
        if 'nowarn' in what and (l.startswith('@nowarn') or l.startswith('@ignoreua')):
            continue
        out.append(l)
    return '\n'.join(out)

# ------------------------------------------------------------------ recorders

_REC = {}

def install_recorders():
    if _REC:
        return
    import skoolkit.skool2asm as s2a
    import skoolkit.skool2html as s2h
    import skoolkit.z80 as z80
    base = s2a.SkoolParser

    class RecParser(base):
        def __init__(self, *a, **k):
            super().__init__(*a, **k)
            _REC['last'] = self

    s2a.SkoolParser = RecParser
    s2h.SkoolParser = RecParser
    _REC['asm'] = z80.Assembler()
    _REC['last'] = None

def assemble(op, addr):
    return _REC['asm'].assemble(op, addr)

def run_bin(shard, fname, argv, data):
    r = harness.run_tool('skool2bin', argv + (['-d'] if data else []) + [fname, 'c04.bin'])
    shard.inc('events:skool2bin_runs')
    if not r.ok:
        return r, None
    m = re.search(r'start=(\d+), end=(\d+), size=(\d+)', r.err)
    if not m:
        return r, None
    return r, (int(m.group(1)), int(m.group(2)), harness.read_file('c04.bin'))

def run_asm(shard, fname, mode_argv, optset, quiet_warnings):
    argv = ['-q'] + (['-w'] if quiet_warnings else []) + list(mode_argv)
    b, c, k = optset
    for o in (b, c):
        if o:
            argv.append(o)
    if k:
        argv.append('-c')
    _REC['last'] = None
    r = harness.run_tool('skool2asm', argv + [fname])
    shard.inc('events:skool2asm_runs')
    return r, argv, _REC['last']

def optname(optset):
    b, c, k = optset
    return ' '.join(x for x in (b, c, '-c' if k else None) if x) or '(default)'

def peek_values(text):
    """Integers between the PKBEGIN/PKEND markers of comment or HTML text (None if the markers are missing)."""
    flat = re.sub(r'\n\s*;\s?', '', text)
    m = re.search(r'PKBEGIN:([0-9/\s]*):PKEND', flat)
    if not m:
        return None
    return [int(x) for x in re.split(r'[/\s]+', m.group(1).strip()) if x]

def diff_images(bstart, bend, bdata, img, mask):
    """First differences between the skool2bin file and an asmload image: list of (address, skool2bin, skool2asm)."""
    span = img.span()
    out = []
    if span is None:
        return [('span', (bstart, bend), None)]
    lo, hi = min(bstart, span[0]), max(bend, span[1])
    for a in range(lo, hi):
        if a in mask:
            continue
        x = bdata[a - bstart] if bstart <= a < bend else None
        y = img.mem.get(a, 0 if span[0] <= a < span[1] else None)
        if x != y:
            out.append((a, x, y))
            if len(out) >= 6:
                break
    return out

def context(img, address):
    rows = [o for o in img.ops if o[0] <= address < o[0] + max(1, len(o[3]))]
    return '; '.join('%d: %s  [%s] -> %s' % (o[0], o[1], o[2], ' '.join('%02X' % b for b in o[3])) for o in rows[:2])

# ------------------------------------------------------------------ one file

def check_file(shard, text, meta, rng, exhaustive=False, html=False, only_mode=None):
    """Returns the number of decided (i) comparisons."""
    install_recorders()
    harness.write_file('c04.skool', text)
    stripped_files = {}
    decided = 0
    mask = set()
    for a, n in meta['alt_bytes']:
        mask.update(range(a, a + n))
    modes = list(MODES)
    if exhaustive:
        modes += EXTRA_MODES
    else:
        modes.append(rng.choice(EXTRA_MODES))
    if only_mode:
        modes = [m for m in modes if m[0] == only_mode] or modes
    lo, hi = meta['peek']
    for name, asm_argv, bin_argv, (am, fm) in modes:
        rp = {'skool': text, 'meta': meta, 'mode': name}
        mov = moving(meta, am, fm)
        guard_c = mov and bool(meta['unlabelled_refs'])
        rb, binimg = run_bin(shard, 'c04.skool', bin_argv, False)
        if rb.exc:
            shard.violation('skool2bin %s crashed: %s\n%s' % (' '.join(bin_argv), rb.exc, (rb.tb or '')[-1200:]), rp)
            continue
        bind = binimg
        if meta['has_data'] and binimg is not None:
            rb2, bind = run_bin(shard, 'c04.skool', bin_argv, True)
            if rb2.exc:
                shard.violation('skool2bin -d %s crashed: %s\n%s' % (' '.join(bin_argv), rb2.exc, (rb2.tb or '')[-1200:]), rp, classify_bin_crash(rb2, text))
                bind = None
        # ---- option sets for this mode
        sets = [((None, None, False), ())]
        if exhaustive:
            sets += [(o, ()) for o in OPTSETS[1:]]
            if not mov:
                sets += [(o, tuple(STRIPS)) for o in OPTSETS[::5]] + [((None, None, False), (s,)) for s in STRIPS]
        else:
            for o in rng.sample(OPTSETS[1:], 3):
                st = ()
                if not mov and rng.random() < 0.35:
                    st = tuple(s for s in STRIPS if rng.random() < 0.6) or ('label',)
                sets.append((o, st))
        base_img = {}
        for n, (optset, strips) in enumerate(sets):
            fname = 'c04.skool'
            if strips:
                fname = 'c04-%s.skool' % '-'.join(strips)
                if fname not in stripped_files:
                    harness.write_file(fname, strip_text(text, strips))
                    stripped_files[fname] = 1
            ra, argv, parser = run_asm(shard, fname, asm_argv, optset, quiet_warnings=n > 0)
            rpv = dict(rp, opts=argv, strip=list(strips))
            what = 'skool2asm %s%s' % (' '.join(argv[1:]), ' (without @%s)' % '/@'.join(strips) if strips else '')
            if ra.exc:
                shard.violation('%s crashed: %s\n%s' % (what, ra.exc, (ra.tb or '')[-1200:]), rpv, classify_crash(ra, parser))
                if n == 0:
                    break          # the mode cannot be decided; one witness is enough
                continue
            if not ra.ok or binimg is None:
                if not ra.ok and binimg is None:
                    shard.skip('both tools reject the file')
                elif not ra.ok:
                    shard.violation('%s fails (%s) on a file skool2bin %s converts' % (what, ra.describe(), ' '.join(bin_argv)), rpv)
                else:
                    shard.violation('skool2bin %s fails (%s) on a file %s converts' % (' '.join(bin_argv), rb.describe(), what), rpv)
                break
            try:
                img = al.load(ra.out, assemble)
            except al.AsmRefused as e:
                shard.skip('asmload refused: ' + str(e).split(':')[0][:60])
                continue
            shard.inc('observed:symbols_resolved', img.symbols_used)
            if img.failed:
                if all(f[1].upper().startswith(('JR ', 'DJNZ ')) for f in img.failed):
                    shard.skip('relative jump out of range after relocation')
                    break
                f = img.failed[0]
                shard.violation('%s wrote an operation that does not assemble: "%s" at %d (after label resolution: "%s")'
                                % (what, f[1], f[0], f[2]), rpv)
                continue
            bstart, bend, bdata = binimg
            if guard_c:
                # skool2bin relocates raw addresses, skool2asm only labelled ones: only base/case invariance is decidable
                key = optset[2]
                ref = base_img.get(key)
                if ref is None:
                    base_img[key] = (img, what)
                    if n == 0:
                        shard.skip('mode with a size-changing substitution and an unlabelled referenced instruction (guard c)')
                else:
                    shard.inc('oracle_ii:variant_comparisons')
                    d = diff_images(min(ref[0].mem), max(ref[0].mem) + 1, ref[0].flat(min(ref[0].mem), max(ref[0].mem) + 1), img, mask)
                    if d:
                        shard.violation('image differs between "%s" and "%s" at (address, first, second) %s\n%s' % (ref[1], what, d, context(img, d[0][0]) if isinstance(d[0][0], int) else ''), rpv)
                continue
            d = diff_images(bstart, bend, bdata, img, mask)
            if n == 0:
                shard.inc('oracle_i:mode_comparisons')
                shard.hist('modes_decided', name)
                decided += 1
            else:
                shard.inc('oracle_ii:variant_comparisons')
                shard.hist('option_sets', optname(optset))
                if strips:
                    shard.inc('oracle_ii:strip_variants')
            shard.inc('observed:bytes_compared', bend - bstart)
            if d:
                ctx = context(img, d[0][0]) if isinstance(d[0][0], int) else ''
                shard.violation('%s and skool2bin %s disagree at (address, skool2bin, skool2asm) %s\n%s'
                                % (what, ' '.join(bin_argv), d, ctx), rpv, classify(shard, text, meta, strips, bin_argv, argv, mask))
            # ---- (iii) the snapshot the macros read (baseline run of the mode only)
            if n == 0 and not mov and bind is not None and parser is not None:
                check_snapshot(shard, parser.snapshot, ra.out, bind, lo, hi, 'skool2asm ' + ' '.join(argv[1:]), 'skool2bin -d ' + ' '.join(bin_argv), rpv)
            elif n == 0 and mov:
                shard.inc('oracle_iii:skipped_modes(guard b)')
    # ---- mode none: skool2html's parser (asm mode 0) against plain skool2bin
    if only_mode in (None, 'none'):
        rp = {'skool': text, 'meta': meta, 'mode': 'none'}
        if 'all' in meta['moving']:
            shard.inc('oracle_iii:skipped_modes(guard b)')
        else:
            rb, bind = run_bin(shard, 'c04.skool', [], meta['has_data'])
            if rb.exc:
                shard.violation('skool2bin crashed: %s\n%s' % (rb.exc, (rb.tb or '')[-1200:]), rp, classify_bin_crash(rb, text))
            elif bind is not None:
                check_html(shard, text, meta, bind, lo, hi, rp, full=html)
    return decided

F_KEEP_INSERT = 'C04-keep-reaches-inserted-instructions-in-skool2bin'

def drop_keep_on_sub_lines(text):
    """The file without the @keep directives that stand in front of a line which also carries @*sub/@*fix/@if directives."""
    out = []
    group = []
    for l in text.split('\n'):
        if l.startswith('@'):
            group.append(l)
            continue
        if any(g.startswith(('@isub=', '@ssub=', '@rsub=', '@ofix=', '@bfix=', '@rfix=', '@if(')) for g in group):
            group = [g for g in group if not g.startswith('@keep')]
        out.extend(group)
        group = []
        out.append(l)
    out.extend(group)
    return '\n'.join(out)

def classify(shard, text, meta, strips, bin_argv, asm_argv, mask):
    """Mechanism predicate for a skool2asm/skool2bin disagreement: BinWriter hands the @keep of a line to every instruction
    the line's @*sub/@*fix directives insert, SkoolParser only to the instruction in the line. Decided on the witness: the
    two tools agree again once the @keep directives on such lines are deleted (which changes both tools' input equally)."""
    if not meta.get('keep_insert') or 'keep' in strips:
        return None
    t2 = drop_keep_on_sub_lines(strip_text(text, strips) if strips else text)
    harness.write_file('c04-nokeep.skool', t2)
    rb, binimg = run_bin(shard, 'c04-nokeep.skool', bin_argv, False)
    ra = harness.run_tool('skool2asm', asm_argv + ['c04-nokeep.skool'])
    if binimg is None or not ra.ok:
        return None
    try:
        img = al.load(ra.out, assemble)
    except al.AsmRefused:
        return None
    if not img.failed and not diff_images(binimg[0], binimg[1], binimg[2], img, mask):
        return F_KEEP_INSERT
    return None

F_LABEL_NO_ADDRESS = 'C04-label-on-inserted-instruction-crashes-asmwriter'

F_DATA_COLON = 'C04-data-directive-colon-in-comment'

def classify_bin_crash(r, text):
    """skool2bin -d dies in _relocate unpacking the result of parse_asm_data_directive: the text after the values of a
    @defb/@defs/@defw directive (documented as ignored) contains a colon, so everything before it is taken for the address."""
    if r.exc.startswith('TypeError') and harness.innermost_frame(r.tb) == ('skool2bin.py', '_relocate'):
        for l in text.split('\n'):
            if l.startswith(('@defb=', '@defs=', '@defw=')):
                spec, sep, comment = l[6:].partition(' ; ')
                if sep and ':' in comment:
                    return F_DATA_COLON
    return None

def classify_crash(r, parser):
    """Mechanism predicates over the witness (the traceback and the parser the tool had built)."""
    if parser is not None and r.exc.startswith('TypeError') and harness.innermost_frame(r.tb) == ('skoolasm.py', '__init__'):
        # AsmWriter.__init__ builds {address: label}; an instruction inserted by '>'/'+' (or an unaddressed line) has address None
        if any(i.address is None and i.asm_label for e in parser.memory_map for i in e.instructions):
            return F_LABEL_NO_ADDRESS
    return None

def check_snapshot(shard, snapshot, out_text, bind, lo, hi, who, binwho, rp):
    bstart, bend, bdata = bind
    snap = bytes(snapshot[bstart:bend])
    shard.inc('oracle_iii:snapshot_comparisons')
    if snap != bdata:
        bad = [(bstart + i, bdata[i], snap[i]) for i in range(len(bdata)) if snap[i] != bdata[i]][:6]
        shard.violation('parser snapshot of %s differs from the image of %s at (address, skool2bin, snapshot) %s' % (who, binwho, bad), rp)
    vals = peek_values(out_text)
    if vals is None or len(vals) != hi - lo + 1:
        shard.violation('#PEEK probe of %s did not expand to %d values: %r' % (who, hi - lo + 1, None if vals is None else len(vals)), rp)
        return
    n = 0
    bad = []
    for a in range(max(lo, bstart), min(hi + 1, bend)):
        n += 1
        if vals[a - lo] != bdata[a - bstart]:
            bad.append((a, bdata[a - bstart], vals[a - lo]))
    shard.inc('oracle_iii:peek_values_compared', n)
    if bad:
        shard.violation('#PEEK in the output of %s differs from the image of %s at (address, skool2bin, #PEEK) %s' % (who, binwho, bad[:6]), rp)

def check_html(shard, text, meta, bind, lo, hi, rp, full):
    bstart, bend, bdata = bind
    if not full:
        # the parser exactly as skool2html builds it (asm mode 0, html), without writing the tree
        import skoolkit.skool2html as s2h
        try:
            parser = s2h.SkoolParser('c04.skool', html=True)
        except Exception as e:
            shard.violation('SkoolParser(html=True) failed: %s: %s' % (type(e).__name__, e), rp)
            return
        shard.inc('oracle_iii:html_parser_snapshots')
        snap = bytes(parser.snapshot[bstart:bend])
        if snap != bdata:
            bad = [(bstart + i, bdata[i], snap[i]) for i in range(len(bdata)) if snap[i] != bdata[i]][:6]
            shard.violation('HTML-mode parser snapshot differs from the image of plain skool2bin at (address, skool2bin, snapshot) %s' % (bad,), rp)
        return
    udgs = [a for a in (bstart, max(bstart, bend - 8), (bstart + bend) // 2) if a + 8 <= bend][:3]
    harness.write_file('c04h.skool', sg.SkoolFile.add_udgs(text, udgs))
    shutil.rmtree('c04html', ignore_errors=True)
    _REC['last'] = None
    r = harness.run_tool('skool2html', ['-q', '-d', 'c04html', '-w', 'dm', 'c04h.skool'])
    shard.inc('events:skool2html_runs')
    rp = dict(rp, html=True)
    if not r.ok:
        shard.violation('skool2html fails on a file skool2bin converts: %s\n%s' % (r.describe(), (r.tb or '')[-800:]), rp)
        return
    parser = _REC['last']
    pages = ''
    pngs = {}
    for root, dirs, files in os.walk('c04html'):
        for fn in files:
            p = os.path.join(root, fn)
            if fn.endswith('.html'):
                with open(p, encoding='utf-8') as f:
                    pages += f.read() + '\n'
            elif fn.startswith('c04udg') and fn.endswith('.png'):
                pngs[int(fn[6:-4])] = harness.read_file(p)
    if parser is not None:
        check_snapshot(shard, parser.snapshot, re.sub(r'<[^>]*>', '', pages), bind, lo, hi, 'skool2html', 'plain skool2bin', rp)
    else:
        shard.note_inconclusive('skool2html built no SkoolParser the recorder could see')
    from vk.ref import c15_png
    for n, a in enumerate(udgs):
        data = pngs.get(n)
        if data is None:
            shard.violation('#UDG%d wrote no image file' % a, rp)
            continue
        png = c15_png.decode(data)
        if not png.ok or not png.frames or png.frames[0].rows is None or png.width != 8 or png.height != 8:
            shard.violation('#UDG%d image is not a readable 8x8 PNG: %s' % (a, png.problems[:2]), rp)
            continue
        rows = c15_png.rgba_rows(png, png.frames[0])
        got = []
        for row in rows:
            v = 0
            for px in row:
                v = (v << 1) | (1 if px is not None and sum(px[:3]) < 120 else 0)      # attribute 56: ink black on white paper
            got.append(v)
        want = list(bdata[a - bstart:a - bstart + 8])
        shard.inc('oracle_iii:udg_images_compared')
        if got != want:
            shard.violation('#UDG%d drew bytes %s but the skool2bin image holds %s' % (a, got, want), rp)
    shutil.rmtree('c04html', ignore_errors=True)

# ------------------------------------------------------------------ driver

def make_file(shard, case):
    rng = shard.rng('file', case)
    r = rng.random()
    profile = 'rigid' if r < 0.35 else ('fluid' if r < 0.75 else 'mixed')
    f = sg.generate(rng, profile)
    install_recorders()
    text = f.render(assemble)
    return f, text

def run(shard, spec):
    n = N_FILES[shard.tier]
    for case in range(spec['shard'], n, spec['of']):
        f, text = make_file(shard, case)
        meta = f.meta()
        decided = check_file(shard, text, meta, shard.rng('opts', case), html=(case % 4 == 0))
        shard.case(harness.h64(text), nontrivial=f.n_subs > 0 and decided > 0,
                   sample={'profile': f.profile, 'features': f.features[:12], 'skool_head': text.splitlines()[:14]} if case < 2 else None)
        shard.hist('profiles', f.profile)
        for ft in f.features:
            shard.hist('features', ft)
        if meta['low_org']:
            shard.inc('observed:files_with_code_below_256')
        shard.inc('observed:instruction_lines', f.n_lines)
        shard.inc('observed:substitution_directives', f.n_subs)
        if shard.out_of_time():
            shard.inc('stopped_on_budget')
            break

def finalize(agg, tier):
    out = []
    c = agg['counters']
    for k in ('oracle_i:mode_comparisons', 'oracle_ii:variant_comparisons', 'oracle_ii:strip_variants', 'oracle_iii:snapshot_comparisons',
              'oracle_iii:peek_values_compared', 'oracle_iii:html_parser_snapshots', 'oracle_iii:udg_images_compared', 'observed:symbols_resolved',
              'observed:files_with_code_below_256'):
        if not c.get(k):
            out.append('monitor "%s" observed nothing' % k)
    skipped = sum(v for k, v in agg['skipped'].items() if not k.startswith('mode with a size-changing'))
    runs = c.get('events:skool2asm_runs', 0)
    if runs and skipped > 0.05 * runs:
        out.append('%d of %d skool2asm runs skipped for reasons other than guard c (> 5%%): %s' % (skipped, runs, agg['skipped']))
    return out

def replay(shard, rp):
    import random
    decided = check_file(shard, rp['skool'], rp['meta'], random.Random(0), exhaustive=True, html=True, only_mode=rp.get('mode'))
    shard.case(('replay',), True)
    print('replayed: %d mode comparisons decided, %d violations' % (decided, shard.nviolations))
    for v in shard.violations[:5]:
        print(' ', v['what'][:600])

TECHNIQUE = ('boundary recorder on the real skool2asm, skool2bin and skool2html entry points (stdout, the file written, the SkoolParser instance '
             'the tool built, #PEEK expansions, #UDG image files) with offline identity oracles: a two-pass ASM loader (asmload) rebuilds the '
             'image from skool2asm output and it is compared byte for byte, address for address, with the skool2bin file')
LEVEL_TEXT = ('Each generated skool file is converted by the real tools in 7 mode pairs and, per mode, under the default and 3 other base/case/'
              'label-creation option sets (some on the file stripped of @label/@keep/@nowarn); every image must equal the skool2bin file of the '
              'mode; the parser snapshot, the #PEEK expansions over the whole image and sampled #UDG images must equal the skool2bin -d image. '
              'Sampled exploration over a grammar-based generator; which comparisons are decidable is determined by guards computed from the '
              'generator\'s own knowledge of the file.')
LEVEL_NOTE = ('Modes in which a size-changing substitution meets an unlabelled referenced instruction are only checked for base/case invariance '
              '(skool2bin relocates raw addresses by design); the snapshot comparison is limited to modes without size-changing substitutions.')
