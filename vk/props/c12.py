"""C12 - a program converted to tape by bin2tap loads back to the same memory via tap2sna's simulated LOAD.

Boundary recorder on the real bin2tap.main and tap2sna.main (in-process). The snapshot tap2sna writes is decoded by the
Z80 / ZX-State decoders of vk/ref (written from the format texts, no skoolkit import) and compared with what the
documentation of bin2tap.py promises: the original bytes at the original addresses, PC at START, SP as requested,
for 128K tapes every requested bank and the value of port 0x7FFD.
"""
import os
import re

from vk import harness
from vk.gens import c12_tapes as G
from vk.ref import c09_z80fmt, c09_szxfmt

ID = 'C12'
NEEDS_C = True
LEVEL = 'exploration'
RULE = ('random program (1 byte..41K; uniform, offset-tagged, all-ones, zero, text, runs, return-address-like content) x one bin2tap '
        'option set inside the documented domain - no --clear: ORG default/explicit incl. data over the screen, the machine-code loader '
        'at 23296 and the system variables, --begin/--end sub-ranges, START inside/outside the data, STACK default or placed so that '
        'the last four stack bytes lie inside / are cut by the end / start below the data, or the data lies inside the 14 stack bytes; '
        '--clear: CLEAR from the documented minimum (23952/23972, 23957/23977 on 128K) upwards, data above CLEAR or in free memory '
        'below the BASIC stack; 128K: 131072-byte file, --7ffd 0..63, --banks default / subset in any order / ",", --loader default '
        '(CLEAR+1, possibly over the main block) or elsewhere - x {tap,pzx} x {no screen, 6912-byte screen, shorter screen file} x one simulated-LOAD '
        'configuration from C13\'s matrix (python 0/1, fast-load 0/1, cmio 0/1, accelerator auto/none/rom/list/named, '
        'accelerate-dec-a 0..3, pause 0/1) x machine 48/128 x {z80,szx} output x --start given or not (where tap2sna does not need it). '
        'A case is non-trivial when both tools ran to completion, at least one byte was compared and at least one option other than '
        '-o was given or the LOAD configuration is not the default; distinct by hash of (file, bin2tap argv, tap2sna argv).')
ASSUMPTIONS = [
    'tap2sna is given --start START whenever its documentation says the simulated LOAD would otherwise stop elsewhere (fast-load=0: '
    '"end of tape and a custom loader was detected"; machine=128: "PC in RAM" is reached inside the paging routines / the bank loader); '
    '--start only sets the stop address in simulated-LOAD mode, PC is still the simulator\'s',
    '-c timeout= is a logical budget computed from the tape (7 s per block + 8.5 ms per byte + 20 s), never a wall-clock limit',
    'excluded from the comparison, as documented or implied by the documented loading process: STACK-14..STACK-1 (no --clear); the '
    '39-45 bytes of the 128K bank loader at --loader; KSTATE and FRAMES (written by the ROM interrupt routine) when data of a tape '
    'made without --clear covers the system variables',
    'the generator stays inside the documented domain: BEGIN >= 16384, ORG <= BEGIN < END <= ORG+length, STACK >= 16398 and not within '
    '23297..23800 (its 14 bytes would hit the not-yet-executed loader at 23296 or interrupt-written system variables), START in RAM '
    'and not inside the loader code itself, CLEAR >= the documented minimum and < 49152 on 128K tapes, data above CLEAR (or in free '
    'memory at least 320 bytes below it), --7ffd within 0..63 and not 0x20..0x2F (paging locked with the editor ROM selected: its interrupt routine cannot page ROM 1 in and the machine crashes at the first interrupt after the EI of the bank loader, a race that depends on the tape length), END <= 49152 on 128K tapes, screen files of exactly 6912 bytes with --clear, and of at most 6912 bytes without it (bin2tap pads the loader block that carries the screen with zeros); '
    '-p 0 / -o 0 / -s 0 are outside it (STACK must be at least 16398)',
    'with --clear the stack pointer is "left alone": the check requires RAMTOP == CLEAR and SP within the 64 bytes below CLEAR, not an '
    'exact value',
    'the loading screen is not part of the statement: whether the display file equals the screen file is counted, not judged',
    'two consequences of a correct BASIC loader are judged although the statement does not spell them out, because the design lists the '
    'BASIC line length among the breaks to catch and RANDOMIZE USR never reaches the end of the line: (a) on --clear tapes the lines of the '
    'loaded BASIC program tile PROG..VARS exactly; (b) the documented purpose of --clear - a program that returns to BASIC does so without '
    'crashing: with a RET at START the 48K simulated LOAD, run on to the ROM report handler (0x1303), shows report 0 OK for line 10',
    'Python-simulator runs without fast loading are confined to tapes of at most 900 bytes (cost), C-simulator runs cover all sizes',
]
MIN_NONTRIVIAL = {'quick': 250, 'thorough': 6000}
N_CASES = {'quick': 960, 'thorough': 16000}
SLOW_PY_BYTES = 900
MAX_ALARMS_PER_SHARD = 6

FINDING_PREFILL = 'C12-stack-prefill-skipped-when-stack-starts-below-data'
FINDING_18 = 'C12-interrupt-between-ei-and-ret-uses-18-stack-bytes'

PROGRESS = re.compile(r'\[[ 0-9.]+%\]\x08+')

_DOC = {}

def documented_stack_bytes():
    """The number N in the sentence of the bin2tap.py documentation "Stack operations will overwrite the bytes in the address range
    STACK-N to STACK-1 inclusive" of the tree under test (14 at the pinned commit). Read from the documentation so that the
    exclusion is exactly "the documented stack bytes", whatever the documentation says."""
    if 'n' not in _DOC:
        n = G.STACK_BYTES
        try:
            from vk import paths
            with open(os.path.join(paths.REPO, 'sphinx', 'source', 'commands.rst'), encoding='utf-8') as f:
                m = re.search(r'address\s+range\s+STACK-(\d+)\s+to\s+STACK-1\s+inclusive', f.read())
            if m and 4 <= int(m.group(1)) <= 64:
                n = int(m.group(1))
        except OSError:
            pass
        _DOC['n'] = n
    return _DOC['n']

def plan(tier, seed):
    n = 16
    q = tier == 'quick'
    specs = [{'shard': i, 'of': n, 'timeout': 900 if q else 7000, 'budget_s': 150 if q else 2400} for i in range(n)]
    # the same workload family under the ASan/UBSan build of the C simulators (C cases only)
    specs.append({'shard': 0, 'of': 1, 'flavour': 'asan', 'asan': True, 'cases': 16 if q else 500, 'timeout': 900 if q else 7000,
                  'budget_s': 100 if q else 2000})
    return specs

# ------------------------------------------------------------------ one case

def read_snapshot(name):
    raw = harness.read_file(name)
    if name.endswith('.szx'):
        return c09_szxfmt.parse(raw)
    return c09_z80fmt.parse(raw)

class Mem:
    """CPU-address view of a decoded snapshot."""
    def __init__(self, snap):
        self.is128 = snap['machine'] != '48K'
        self.snap = snap
        if self.is128:
            banks = snap['ram']
            self.low = banks[5] + banks[2]
            self.top = banks[(snap['out7ffd'] or 0) & 7]
        else:
            self.low = snap['ram'][:0x8000]
            self.top = snap['ram'][0x8000:]

    def peek(self, a):
        a &= 0xFFFF
        if a < 0x4000:
            return None
        if a < 0xC000:
            return self.low[a - 0x4000]
        return self.top[a - 0xC000]

    def slice(self, a, n):
        """n bytes from CPU address a (must not reach into ROM; wraps are not used by callers)."""
        out = bytearray()
        while n > 0:
            if a < 0xC000:
                k = min(n, 0xC000 - a)
                out += self.low[a - 0x4000:a - 0x4000 + k]
            else:
                k = min(n, 0x10000 - a)
                out += self.top[a - 0xC000:a - 0xC000 + k]
            a += k
            n -= k
        return bytes(out)

def compare_main(mem, addr, data, excluded):
    """-> (number of bytes compared, list of (address, expected, got) mismatches (first 8), total mismatches)."""
    got = mem.slice(addr, len(data))
    n = len(data)
    if got == data:
        skipped = sum(max(0, min(hi, addr + n) - max(lo, addr)) for lo, hi, _ in _merge(excluded))
        return n - skipped, [], 0
    skip = set()
    for lo, hi, _ in excluded:
        skip.update(range(max(lo, addr), min(hi, addr + n)))
    bad = []
    total = 0
    for i in range(n):
        if got[i] != data[i] and (addr + i) not in skip:
            total += 1
            if len(bad) < 8:
                bad.append((addr + i, data[i], got[i]))
    return n - len(skip), bad, total

def _merge(ranges):
    out = []
    for lo, hi, r in sorted(ranges):
        if out and lo < out[-1][1]:
            if hi > out[-1][1]:
                out[-1] = (out[-1][0], hi, out[-1][2])
        else:
            out.append((lo, hi, r))
    return out

def basic_program_problem(mem):
    """Walk the BASIC program area of the snapshot: every line is (number hi, number lo, length lo, length hi, text) and the lines
    must end exactly at VARS. Only called when the data cannot have overwritten the BASIC area (--clear tapes)."""
    w = lambda a: mem.peek(a) + 256 * mem.peek(a + 1)
    prog, vars_ = w(23635), w(23627)
    if not 23755 <= prog < vars_ <= 24300:
        return 'BASIC area of the snapshot is implausible: PROG=%d VARS=%d' % (prog, vars_)
    a = prog
    lines = 0
    while a < vars_:
        if a + 4 > vars_:
            return 'BASIC loader: %d stray bytes after the last line (PROG=%d VARS=%d)' % (vars_ - a, prog, vars_)
        length = w(a + 2)
        if a + 4 + length > vars_:
            return ('BASIC loader line %d declares a length of %d but only %d bytes remain before VARS (PROG=%d VARS=%d)'
                    % (256 * mem.peek(a) + mem.peek(a + 1), length, vars_ - a - 4, prog, vars_))
        if mem.peek(a + 4 + length - 1) != 13:
            return 'BASIC loader line %d does not end with ENTER at its declared length %d' % (256 * mem.peek(a) + mem.peek(a + 1), length)
        a += 4 + length
        lines += 1
    return None

def classify(spec, problems, facts=None):
    """Mechanism predicates for defects known on the unchanged tree. Returns a finding id or None."""
    if facts and spec['clear'] is None and facts.get('only_main_block_differs') and facts.get('bad_complete'):
        # Everything is right except bytes in STACK-18..STACK-15: the ROM's SA/LD-RET routine (0x053F) does PUSH AF, EI, JR C, POP AF,
        # RET; a frame interrupt accepted between EI and RET finds SP at STACK-4 (or STACK-2) and its 14 bytes of pushes and calls
        # reach down to STACK-18 (STACK-16) - four more bytes than the documented "STACK-14 to STACK-1".
        st = spec['eff_stack']
        if facts['bad_addrs'] and all(st - 18 <= a < st - documented_stack_bytes() for a in facts['bad_addrs']):
            return FINDING_18
    if spec['clear'] is None and G.prefill_overlap(spec) == 'head':
        # The last four stack bytes [STACK-4, STACK) begin below BEGIN (STACK = BEGIN+1..BEGIN+3): bin2tap must put the part of
        # (0x053F, START) that falls inside the data into the data block. The known defect leaves the data untouched, so the
        # block loads its own bytes over the return addresses. Only claim the mechanism when the data's own bytes at those
        # positions differ from what is needed (otherwise any failure has another cause).
        st, eb = spec['eff_stack'], spec['eff_begin']
        need = (0x3F, 0x05, spec['eff_start'] & 0xFF, spec['eff_start'] >> 8)
        off = eb - spec['eff_org']
        for k in range(4):
            a = st - 4 + k
            if eb <= a < spec['eff_end'] and spec['bin'][off + a - eb] != need[k]:
                return FINDING_PREFILL
    return None

def check_case(shard, spec, cfg, tag='', stem='p'):
    """Runs bin2tap then tap2sna and judges the snapshot. Returns (completed, bytes_compared).
    stem: base name of the files; it becomes the title in the tape headers and so shifts the timing of everything after them."""
    files = G.write_inputs(spec, stem)
    tape = stem + '.' + spec['fmt']
    sna = stem + '.' + cfg['out']
    for f in (tape, stem + '.z80', stem + '.szx'):
        if os.path.exists(f):
            os.unlink(f)
    b2t = G.bin2tap_argv(spec, files, tape)
    t2s = G.tap2sna_argv(spec, cfg, tape, sna)
    rp = {'spec': G.to_replay(spec), 'cfg': cfg, 'flavour': 'asan' if tag == 'asan' else 'plain'}
    ctx = 'bin2tap %s ; tap2sna %s' % (' '.join(b2t), ' '.join(t2s))

    r1 = harness.run_tool('bin2tap', b2t)
    shard.inc('events:bin2tap_runs')
    if not r1.ok or not os.path.isfile(tape):
        shard.violation('bin2tap failed on an input inside its documented domain: %s\n%s\n%s' % (r1.describe(), (r1.tb or '')[-1200:], ctx), rp)
        return False, 0
    r2 = harness.run_tool('tap2sna', t2s)
    shard.inc('events:tap2sna_runs')
    out = PROGRESS.sub('', r2.out)
    m = re.search(r'Simulation stopped \(([^)]*)\): PC=(\d+)', out)
    reason = m.group(1) if m else 'no stop line'
    shard.hist('stop_reason', reason)
    if not r2.ok or not os.path.isfile(sna):
        shard.violation('tap2sna failed on a tape made by bin2tap: %s\n%s\n%s' % (r2.describe(), (r2.tb or '')[-1200:], ctx), rp,
                        classify(spec, ['tap2sna failed']))
        return False, 0
    try:
        snap = read_snapshot(sna)
    except (c09_z80fmt.FormatError, c09_szxfmt.FormatError) as e:
        shard.violation('snapshot written by tap2sna is not well formed: %s\n%s' % (e, ctx), rp)
        return False, 0
    shard.inc('events:snapshots_decoded')
    exp = G.expected(spec, stack_bytes=documented_stack_bytes())
    shard.hist('documented_stack_bytes', documented_stack_bytes())
    mem = Mem(snap)
    problems = []
    facts = None
    want128 = cfg['machine'] == 128
    if mem.is128 != want128:
        problems.append('snapshot machine is %s, simulated machine was %s' % (snap['machine'], cfg['machine']))
    # ---- program counter, stack pointer
    if snap['pc'] != exp['pc']:
        problems.append('PC=%d, START=%d (simulation stopped: %s)' % (snap['pc'], exp['pc'], reason))
    shard.inc('observed:pc_checked')
    if exp['sp'] is not None:
        shard.inc('observed:sp_checked_exact')
        if snap['sp'] != exp['sp']:
            problems.append('SP=%d, STACK=%d' % (snap['sp'], exp['sp']))
    else:
        clear = exp['clear']
        shard.inc('observed:sp_checked_clear')
        ramtop = (mem.peek(23730) or 0) + 256 * (mem.peek(23731) or 0)
        if ramtop != clear:
            problems.append('RAMTOP=%d, CLEAR=%d' % (ramtop, clear))
        if not clear - 64 <= snap['sp'] < clear:
            problems.append('SP=%d is not just below CLEAR=%d' % (snap['sp'], clear))
        else:
            shard.hist('clear_minus_sp', clear - snap['sp'])
    # ---- main block
    addr, data = exp['main']
    compared = 0
    if mem.is128 == want128:
        n, bad, total = compare_main(mem, addr, data, exp['excluded'])
        compared += n
        if total and not problems:
            facts = {'only_main_block_differs': True, 'bad_complete': total == len(bad), 'bad_addrs': [b[0] for b in bad]}
        shard.inc('observed:bytes_compared', n)
        if total:
            problems.append('%d of %d compared bytes of the main block differ; first (address, original, snapshot): %s' % (total, n, bad))
        # ---- 128K banks and port
        if spec['machine'] == 128:
            shard.inc('observed:port_7ffd_checked')
            if snap['out7ffd'] != exp['o7ffd']:
                problems.append('port 0x7FFD holds %s, requested %d' % (snap['out7ffd'], exp['o7ffd']))
            for b, content in exp['banks']:
                shard.inc('observed:banks_compared')
                shard.hist('bank', b)
                got = snap['ram'][b]
                if got != content:
                    diff = [i for i in range(0x4000) if got[i] != content[i]]
                    problems.append('RAM bank %d differs in %d bytes; first offsets %s' % (b, len(diff), diff[:6]))
                compared += 0x4000
                shard.inc('observed:bank_bytes_compared', 0x4000)
        # ---- not judged: loading screen
        if spec['scr'] is not None and not problems:
            scr_now = mem.slice(16384, G.SCR_LEN)
            shard.hist('screen', 'equals the screen file' if scr_now == bytes(spec['scr']) + bytes(G.SCR_LEN - len(spec['scr'])) else 'differs (data/loader/stack lie in the display file or text was printed)')
        # ---- the BASIC loader bin2tap wrote must be a well-formed program: its lines tile PROG..VARS exactly
        if spec['clear'] is not None and not problems:
            bp = basic_program_problem(mem)
            shard.inc('observed:basic_loader_structure_checked')
            if bp:
                problems.append(bp)
        # ---- documented use of --clear: a program that returns to BASIC ends line 10 with report 0 OK
        if spec.get('ret_probe') and cfg['machine'] == 48 and not problems and not (cfg['python'] and not cfg['fast_load']):
            t2p = G.tap2sna_argv(spec, cfg, tape, sna, stop_at=G.MAIN_4)
            os.unlink(sna)
            r3 = harness.run_tool('tap2sna', t2p)
            shard.inc('events:tap2sna_runs')
            ctx += ' ; tap2sna ' + ' '.join(t2p)
            if not r3.ok or not os.path.isfile(sna):
                problems.append('tap2sna failed when run until the program returns to BASIC: %s' % r3.describe())
            else:
                try:
                    m2 = Mem(read_snapshot(sna))
                except (c09_z80fmt.FormatError, c09_szxfmt.FormatError) as e:
                    m2 = None
                    problems.append('snapshot written by tap2sna is not well formed: %s' % e)
                if m2:
                    shard.inc('observed:return_to_basic_checked')
                    err_nr, ppc = m2.peek(23610), m2.peek(23621) + 256 * m2.peek(23622)
                    if m2.snap['pc'] != G.MAIN_4 or err_nr != 255 or ppc != 10:
                        problems.append('a program consisting of RET at START did not return to BASIC with report "0 OK" in line 10: '
                                        'PC=%d (report handler at %d), ERR_NR=%d (255 = OK), PPC=%d' % (m2.snap['pc'], G.MAIN_4, err_nr, ppc))
                    n2, bad2, total2 = compare_main(m2, addr, data, exp['excluded'])
                    if total2:
                        problems.append('after returning to BASIC %d bytes of the main block differ: %s' % (total2, bad2))
    if problems:
        if facts and len(problems) > 1:
            facts['only_main_block_differs'] = False
        fid = classify(spec, problems, facts)
        what = '%s\n  %s\n  spec: %s\n  tap2sna said: %s' % ('; '.join(problems), ctx, G.describe(spec), ' | '.join(out.strip().splitlines()[-4:]))
        shard.violation(what, rp, fid)
        return False, compared
    return True, compared

def nontrivial(spec, cfg, completed, compared):
    if not completed or not compared:
        return False
    opts = any(spec[k] is not None for k in ('begin', 'end', 'start', 'stack', 'clear', 'scr', 'o7ffd'))
    default_cfg = (cfg['python'], cfg['fast_load'], cfg['cmio'], cfg['accelerator'], cfg['dec_a'], cfg['pause'], cfg['machine']) == (0, 1, 0, 'auto', 3, 1, 48)
    return opts or not default_cfg

def record_dims(shard, spec, cfg, compared):
    shard.hist('kind', spec['kind'])
    shard.hist('tape_format', spec['fmt'])
    shard.hist('content', spec['style'])
    shard.hist('screen_option', 'yes' if spec['scr'] is not None else 'no')
    n = spec['eff_end'] - spec['eff_begin']
    shard.hist('main_block_length', '1-5' if n <= 5 else '6-21' if n <= 21 else '22-1199' if n < 1200 else '1200-8999' if n < 9000 else '9000-29999' if n < 30000 else '30000+')
    for k in ('org', 'begin', 'end', 'start', 'stack', 'clear'):
        if spec[k] is not None:
            shard.hist('bin2tap_options', k)
    shard.hist('snapshot_format', cfg['out'])
    shard.hist('cfg_simulator', ('python' if cfg['python'] else 'C') + ('+cmio' if cfg['cmio'] else ''))
    shard.hist('cfg_fast_load', cfg['fast_load'])
    shard.hist('cfg_accelerator', cfg['accelerator'])
    shard.hist('cfg_accelerate_dec_a', cfg['dec_a'])
    shard.hist('cfg_pause', cfg['pause'])
    shard.hist('cfg_machine', cfg['machine'])
    shard.hist('cfg_start_given', ('yes' if cfg['use_start'] else 'no') + ('+finish-tape' if cfg['finish_tape'] else ''))
    if spec['clear'] is None:
        ov = G.prefill_overlap(spec)
        shard.hist('last_four_stack_bytes_vs_data', ov)
        st, eb, ee = spec['eff_stack'], spec['eff_begin'], spec['eff_end']
        if st - documented_stack_bytes() < ee and st > eb:
            shard.inc('observed:data_inside_the_14_stack_bytes')
        if eb < G.LOADER48[1] and ee > G.LOADER48[0]:
            shard.inc('observed:data_over_the_loader_at_23296')
        if eb < 23755 and ee > 23552:
            shard.inc('observed:data_over_system_variables')
        if eb < 23296:
            shard.inc('observed:data_in_display_file')
    else:
        if spec.get('under'):
            shard.inc('observed:data_below_the_basic_stack')
        lo = G.CLEAR_MIN[(cfg['machine'], spec['scr'] is not None)]
        if spec['clear'] == lo:
            shard.inc('observed:clear_at_documented_minimum')
    if spec['machine'] == 128:
        shard.hist('banks_requested', len(spec['eff_banks']))
        shard.hist('banks_option', 'default' if spec['banks'] is None else ('empty' if not spec['banks'] else 'subset'))
        shard.hist('port_7ffd_value', spec['o7ffd'])
        lo = spec['eff_loader']
        L = G.loader_len(len(spec['eff_banks']))
        shard.hist('bank_loader', 'default' if spec['loader'] is None else 'explicit')
        if lo < spec['eff_end'] and lo + L > spec['eff_begin']:
            shard.inc('observed:bank_loader_over_main_block')

# ------------------------------------------------------------------ shard driver

def make_case(shard, case, asan=False):
    rng = shard.rng('case', case, 'asan' if asan else '')
    r = rng.random()
    # a fixed share of small programs loaded by the Python simulators without fast loading
    slow_py = (not asan) and r < 0.06
    if slow_py:
        kind = rng.choice(('48stack', '48stack', '48clear'))
        spec = G.gen_spec(rng, kind, max_len=rng.choice((1, 4, 20, 60, 300, 700)))
        if spec['scr'] is not None:
            spec['scr'] = None              # a screen alone costs 6912 bytes of tape
        if spec.get('ok128'):
            spec['ok128'] = False
    else:
        max_len = G.MAX_LEN
        if asan:
            max_len = 6000
        spec = G.gen_spec(rng, None, max_len=max_len)
    blocks, total = G.tape_stats(spec)
    cfg = G.gen_config(rng, spec, slow_python_ok=slow_py and total <= SLOW_PY_BYTES, python_ok=not asan)
    if cfg['python'] and spec['machine'] == 128 and total > 40000:
        cfg['python'] = 0                   # fast loading copies byte by byte in Python; keep the big 128K tapes on the C simulators
    return spec, cfg

def run_known_witness(shard):
    """The known stack pre-fill defect, replayed first so that its line is printed deterministically while it exists."""
    spec = {'kind': '48stack', 'fmt': 'tap', 'machine': 48, 'bin': bytes((0xAA, 0x55)), 'style': 'witness', 'org': 25240, 'begin': None, 'end': None,
            'start': 25241, 'stack': 25242, 'clear': None, 'scr': None, 'banks': None, 'o7ffd': None, 'loader': None,
            'eff_org': 25240, 'eff_begin': 25240, 'eff_end': 25242, 'eff_start': 25241, 'eff_stack': 25242}
    cfg = {'python': 0, 'fast_load': 1, 'cmio': 0, 'accelerator': 'auto', 'dec_a': 3, 'pause': 1, 'machine': 48, 'out': 'z80', 'finish_tape': 0, 'use_start': True}
    ok, compared = check_case(shard, spec, cfg)
    shard.inc('witness:stack_prefill_' + ('loads correctly' if ok else 'fails'))
    shard.case(('witness', 'prefill'), False)

def run_witness_18(shard):
    """66 bytes at 40000, STACK = END+16, loaded without the ROM shortcut: the frame interrupt falls between EI and POP AF in SA/LD-RET
    and the KEY-SCAN return address lands on STACK-18/-17, i.e. on the last two bytes of the data."""
    spec = {'kind': '48stack', 'fmt': 'tap', 'machine': 48, 'bin': b'\x11' * 66, 'style': 'witness', 'org': 40000, 'begin': None, 'end': None,
            'start': None, 'stack': 40082, 'clear': None, 'scr': None, 'banks': None, 'o7ffd': None, 'loader': None,
            'eff_org': 40000, 'eff_begin': 40000, 'eff_end': 40066, 'eff_start': 40000, 'eff_stack': 40082}
    cfg = {'python': 0, 'fast_load': 0, 'cmio': 0, 'accelerator': 'auto', 'dec_a': 3, 'pause': 1, 'machine': 48, 'out': 'z80', 'finish_tape': 0, 'use_start': True}
    ok, compared = check_case(shard, spec, cfg, stem='a')     # found with this title; the phase of the interrupt depends on it
    shard.inc('witness:18_stack_bytes_' + ('not reproduced' if ok else 'reproduced'))
    shard.case(('witness', '18'), False)

def run(shard, spec):
    asan = bool(spec.get('asan'))
    if not asan and spec['shard'] == 0:
        run_known_witness(shard)
        run_witness_18(shard)
    n = spec.get('cases') or N_CASES[shard.tier]
    for case in range(spec['shard'], n, spec['of']):
        pspec, cfg = make_case(shard, case, asan)
        completed, compared = check_case(shard, pspec, cfg, 'asan' if asan else '')
        key = (harness.h64(pspec['bin']), harness.h64(pspec['scr'] or b''), G.describe(pspec), sorted(cfg.items()))
        nt = nontrivial(pspec, cfg, completed, compared)
        sample = None
        if case < 4 and not asan:
            sample = {'spec': G.describe(pspec), 'sim_load': {k: v for k, v in cfg.items()}, 'bytes_compared': compared, 'loaded': completed}
        shard.case(key, nt, sample)
        record_dims(shard, pspec, cfg, compared)
        if completed:
            shard.inc('observed:loads_completed')
            if asan:
                shard.inc('observed:loads_completed_under_sanitizers')
            if cfg['python']:
                shard.inc('observed:loads_completed_python' + ('_slow' if not cfg['fast_load'] else ''))
        if shard.out_of_time():
            shard.inc('stopped_on_budget')
            break
        if sum(1 for v in shard.violations if v.get('finding') is None) >= MAX_ALARMS_PER_SHARD:
            shard.inc('stopped_after_%d_violations' % MAX_ALARMS_PER_SHARD)   # the verdict is settled; keep the replay directory small
            break

def finalize(agg, tier):
    c = agg['counters']
    h = agg['hists']
    probs = []
    def need(name, minimum=1):
        if c.get(name, 0) < minimum:
            probs.append('monitor %s observed %d events (< %d)' % (name, c.get(name, 0), minimum))
    need('observed:bytes_compared', 1000)
    need('observed:bank_bytes_compared', 16384)
    need('observed:port_7ffd_checked')
    need('observed:sp_checked_exact')
    need('observed:sp_checked_clear')
    need('observed:loads_completed_python')
    need('observed:loads_completed_python_slow')
    need('observed:data_inside_the_14_stack_bytes')
    need('observed:bank_loader_over_main_block')
    need('observed:basic_loader_structure_checked')
    need('observed:return_to_basic_checked')
    for hist, keys in (('kind', ('48stack', '48clear', '128')), ('tape_format', ('tap', 'pzx')), ('cfg_fast_load', ('0', '1')),
                       ('screen_option', ('yes', 'no')), ('last_four_stack_bytes_vs_data', ('inside', 'tail', 'head', 'none')),
                       ('cfg_machine', ('48', '128')), ('snapshot_format', ('z80', 'szx')), ('cfg_pause', ('0', '1'))):
        for k in keys:
            if not h.get(hist, {}).get(k):
                probs.append('no case with %s=%s was evaluated' % (hist, k))
    return probs

def replay(shard, rp):
    spec = G.from_replay(rp['spec'])
    cfg = rp['cfg']
    ok, compared = check_case(shard, spec, cfg, 'asan' if rp.get('flavour') == 'asan' else '')
    shard.case(('replay',), True)
    print('replayed: loaded correctly =', ok, 'bytes compared =', compared, 'violations =', shard.nviolations)
    for v in shard.violations:
        print(v['what'])

TECHNIQUE = ('boundary recorder on the real bin2tap and tap2sna entry points composed in-process (C and Python simulators, plus an ASan/UBSan '
             'build of the C simulators), with a memory/PC/SP/bank/port identity oracle over snapshots decoded by independent Z80/SZX decoders')
LEVEL_TEXT = ('Each case writes a generated program (and screen), runs the real bin2tap.main to make a TAP or PZX file, runs the real tap2sna.main '
              'with one simulated-LOAD configuration and a --sim-load timeout scaled to the tape, decodes the snapshot with the vk/ref decoders and '
              'requires the original bytes at the original addresses (bar the documented 14 stack bytes, the bank loader and interrupt-written '
              'system variables), PC == START, SP == STACK (or RAMTOP == CLEAR with SP just below it), every requested 128K bank and the '
              'requested 0x7FFD value. Sampled, boundary-biased exploration.')
LEVEL_NOTE = ('Option sets are confined to what the bin2tap documentation allows; tap2sna gets --start where its documented stop rules require '
              'it. The known stack pre-fill defect (STACK = BEGIN+1..BEGIN+3) is classified by mechanism.')
