"""C14 - sna2ctl always emits a complete, ordered, non-overlapping control file.

Boundary recorder on sna2ctl.main / sna2skool.main / skool2bin.main, a counting wrapper on the decoder for
bounded progress, and structural oracles over the emitted control file.
"""
import os
import re

from vk import harness
from vk.gens import memgen

ID = 'C14'
NEEDS_C = True
LEVEL = 'exploration'
RULE = ('memory image (7 styles incl. code-like, text-rich, zero runs, prefix-heavy, ending mid-instruction) x [start,end) x code map (none; real execution trace from trace.py --map; '
        'arbitrary address set) written in each supported format (rzxplay/trace, Fuse profile, Spud log, SpecEmu log, Zero log hex/decimal, Z80 bitmap, SpecEmu map) x options '
        '-C -r -h -l TextChars TextMinLengthCode TextMinLengthData Dictionary; a case is non-trivial when the control file has >= 3 blocks or a code map was used; distinct by hash of inputs')
ASSUMPTIONS = ['"terminates" is decided on logical steps: the number of items the decoder yields must stay below 64*(END-START)^2+3*10^6 (the constant covers the full-memory scans of code-map mode; a first bound of 10^4 was too small and raised a false alarm in a thorough run); a wall-clock watchdog only gives "inconclusive"',
               'sna2skool is run on the control file without -r (the file already declares RST arguments)',
               'when END is 65536 there is no terminating directive to write (nothing follows)']
MIN_NONTRIVIAL = {'quick': 600, 'thorough': 15000}
N_CASES = {'quick': 8000, 'thorough': 100000}

def plan(tier, seed):
    n = 16
    q = tier == 'quick'
    return [{'shard': i, 'of': n, 'timeout': 900 if q else 14000, 'budget_s': 100 if q else 3000} for i in range(n)]

MAP_FORMATS = ['rzxplay', 'fuse', 'spud', 'specemu_log', 'zero_hex', 'zero_dec', 'z80_map', 'specemu_map']

def write_map(fmt, addrs, fname):
    addrs = list(addrs)
    if fmt == 'rzxplay':
        data = ''.join('$%04X\n' % a for a in addrs)
    elif fmt == 'fuse':
        data = ''.join('0x%04x,%d\n' % (a, 1 + a % 7) for a in addrs)
    elif fmt == 'spud':
        data = ''.join('PC = %04X  AF = 0044\n' % a for a in addrs)
    elif fmt == 'specemu_log':
        data = 'PC:   IX:   HL:   DE:   BC:   AF:\n' + ''.join('%04X  NOP\n' % a for a in addrs)
    elif fmt == 'zero_hex':
        data = 'All numbers in hexadecimal\n' + ''.join('%04X\tNOP\n' % a for a in addrs)
    elif fmt == 'zero_dec':
        data = 'All numbers in decimal\n' + ''.join('%d\tNOP\n' % a for a in addrs)
    elif fmt == 'z80_map':
        b = bytearray(8192)
        for a in addrs:
            b[a // 8] |= 1 << (a % 8)
        harness.write_file(fname, bytes(b))
        return
    else:
        b = bytearray(65536)
        for a in addrs:
            b[a] |= 1
        harness.write_file(fname, bytes(b))
        return
    harness.write_file(fname, data)

def structured_program(rng, org, rst=False):
    """Code with call structure for real traces: a main routine that calls hot routines, makes conditional calls/jumps
    that are NOT taken to cold (unexecuted but referenced) regions, some of which fall through into the next hot
    routine; hot routines sit back to back (RET followed directly by the next executed routine)."""
    filler = [0x3C, 0x3D, 0x04, 0x05, 0x23, 0x2B, 0x00, 0xA7, 0x87, 0x47, 0x4F]
    nhot = rng.randint(2, 5)
    hot_ins = []
    for _ in range(nhot):
        ins = []
        for _ in range(rng.randint(1, 6)):
            k = rng.random()
            if rst and k < 0.3:
                # RST 8 with its argument byte (the default RST handler of -r: '8:B'); the argument is often the opcode
                # of a multi-byte or block-ending instruction
                ins.append([0xCF, rng.choice([0x18, 0xC3, 0xC9, 0xE9, 0x10, 0x21, 0xCD, 0x00, 0xFF, rng.randrange(256)])])
            elif k < 0.45:
                ins.append([0x01, rng.randrange(256), rng.randrange(256)])      # LD BC,nn
            elif k < 0.55:
                ins.append([0x3E, rng.randrange(256)])                          # LD A,n
            else:
                ins.append([rng.choice(filler)])
        ins.append([0xC9])
        hot_ins.append(ins)
    hot = [[b for i in ins for b in i] for ins in hot_ins]
    cold = []
    for k in range(nhot):
        if rng.random() < 0.7:
            body = [rng.choice(filler) for _ in range(rng.randint(1, 5))]
            if rng.random() < 0.4:
                body += [0xC9]
            cold.append(body)          # without RET it falls through into hot[k]
        else:
            cold.append(None)
    # main: per routine [XOR A (Z set); CALL NZ/JP NZ cold_k (not taken)]; CALL hot_k, directly or through a JP (HL)
    # trampoline (an executed routine that no instruction in the range refers to); RET; trampoline
    indirect = [rng.random() < 0.4 for _ in range(nhot)]
    # optionally a last cold block behind everything else (referenced, never executed) that ends with a block-ending
    # instruction of one or more bytes: with the image placed flush against 64K it is the last block of memory
    end_cold = None
    if rng.random() < 0.35:
        end_cold = [rng.choice(filler) for _ in range(rng.randint(0, 3))] + rng.choice([[0x18, rng.randrange(256)], [0xC3, rng.randrange(256), rng.randrange(256)],
                                                                                        [0xED, 0x45], [0xDD, 0xE9], [0xC9], [0xED, 0x4D], [0xFD, 0xE9]])
    main_len = sum((4 if cold[k] is not None else 0) + (6 if indirect[k] else 3) for k in range(nhot)) + 2 + (4 if end_cold else 0)
    tramp = org + main_len - 1
    addr = org + main_len
    cold_at, hot_at = [], []
    for k in range(nhot):
        if cold[k] is not None:
            cold_at.append(addr)
            addr += len(cold[k])
        else:
            cold_at.append(None)
        hot_at.append(addr)
        addr += len(hot[k])
    out = []
    for k in range(nhot):
        if cold[k] is not None:
            out += [0xAF, rng.choice([0xC4, 0xC2]), cold_at[k] & 0xFF, cold_at[k] >> 8]     # XOR A: Z set, so the NZ call/jump is not taken
        if indirect[k]:
            out += [0x21, hot_at[k] & 0xFF, hot_at[k] >> 8, 0xCD, tramp & 0xFF, tramp >> 8]
        else:
            out += [0xCD, hot_at[k] & 0xFF, hot_at[k] >> 8]
    if end_cold:
        out += [0xAF, rng.choice([0xC4, 0xC2]), addr & 0xFF, addr >> 8]       # addr: first address behind the last hot routine
    out += [0xC9, 0xE9]
    main_len = len(out)
    for k in range(nhot):
        if cold[k] is not None:
            out += cold[k]
        out += hot[k]
    tail = [rng.randrange(256) for _ in range(rng.randint(0, 12))]
    if end_cold:
        out += end_cold
        tail = []
    # the addresses an execution visits when every call is made and RST 8 returns behind its argument byte
    walk = []
    a = org
    for k in range(nhot):
        if cold[k] is not None:
            walk += [a, a + 1]
            a += 4
        if indirect[k]:
            walk += [a, a + 3]
            a += 6
        else:
            walk.append(a)
            a += 3
    if end_cold:
        walk += [a, a + 1]
        a += 4
    walk += [a, a + 1]
    for k in range(nhot):
        a = hot_at[k]
        for i in hot_ins[k]:
            walk.append(a)
            a += len(i)
    return out + tail, main_len, sorted(walk)


def make_case(rng):
    size = rng.choice([16, 30, 64, 100, 256, 700, 2048])
    top = rng.random() < 0.2
    org = 65536 - size if top else rng.choice([16384, 23296, 32768, 49152, rng.randrange(16384, 65536 - size)])
    data = memgen.gen_bytes(rng, size, org=org)
    structured = rng.random() < 0.2
    walk = None
    with_rst = False
    if structured:
        with_rst = rng.random() < 0.35
        if top:
            state = rng.getstate()
            prog, main_len, walk = structured_program(rng, org, with_rst)
            org = 65536 - len(prog)            # the same program again (same draws), flush against the top of memory
            rng.setstate(state)
        prog, main_len, walk = structured_program(rng, org, with_rst)
        if len(prog) <= 65536 - org:
            data = prog
            size = len(prog)
        else:
            structured = False
    if not structured and rng.random() < 0.25:
        # end mid-instruction
        tail = rng.choice([[0x18], [0xC3], [0xCD, 0x00], [0x21], [0xDD], [0xED], [0xDD, 0xCB, 0x01], [0x10], [0xC9], [0xFD, 0x21, 0x00]])
        data[-len(tail):] = tail[:len(data)]
    start, end = org, org + size
    entry = None
    if structured and rng.random() < 0.3:
        entry, start = org, org + main_len        # the driver lies before the disassembled range
    if not structured and rng.random() < 0.25 and size > 8:
        start = org + rng.randrange(0, size // 2)
        end = rng.randrange(start + 1, org + size + 1)
    opts = []
    if rng.random() < 0.4:
        opts.append('-C')
    rst = rng.random() < 0.3 or (structured and with_rst)
    if rst:
        opts.append('-r')
    r = rng.random()
    if r < 0.2:
        opts.append('-h')
    elif r < 0.3:
        opts.append('-l')
    if rng.random() < 0.2:
        opts += ['-I', 'TextMinLengthCode=%d' % rng.choice([1, 3, 12, 40])]
    if rng.random() < 0.2:
        opts += ['-I', 'TextMinLengthData=%d' % rng.choice([1, 3, 10])]
    if rng.random() < 0.15:
        opts += ['-I', 'TextChars=%s' % rng.choice(['abcdefghijklmnopqrstuvwxyz', 'ABC ', '0123456789'])]
    mapkind = 'trace' if structured and rng.random() < 0.8 else rng.choice(['none', 'none', 'trace', 'trace', 'arbitrary'])
    if structured and (with_rst or rng.random() < 0.2):
        mapkind = 'walk'       # the map of an execution in which every call is made (with RST 8: returning behind the argument byte)
    else:
        walk = None
    return {'image': bytes(data), 'org': org, 'start': start, 'end': end, 'entry': entry, 'walk': walk, 'opts': opts, 'rst': rst, 'mapkind': mapkind,
            'mapfmt': rng.choice(MAP_FORMATS), 'dict': rng.random() < 0.1}

class DecodeCounter:
    def __init__(self):
        self.n = 0

    def install(self):
        import skoolkit.snactl as snactl
        import skoolkit.opcodes as opcodes
        orig = opcodes.decode
        counter = self
        def counting(*a, **k):
            for item in orig(*a, **k):
                counter.n += 1
                yield item
        self.orig = snactl.decode
        snactl.decode = counting

    def remove(self):
        import skoolkit.snactl as snactl
        snactl.decode = self.orig

def parse_ctl(text):
    blocks = []
    subs = []
    for l in text.splitlines():
        m = re.match(r'^([bcgistuw]) (\$[0-9A-Fa-f]+|\d+)', l)
        if m:
            a = m.group(2)
            blocks.append((m.group(1), int(a[1:], 16) if a.startswith('$') else int(a)))
            continue
        m = re.match(r'^([BCSTW ]) (\$[0-9A-Fa-f]+|\d+)(?:,(\d+))?', l)
        if m:
            a = m.group(2)
            subs.append((m.group(1), int(a[1:], 16) if a.startswith('$') else int(a), int(m.group(3)) if m.group(3) else None))
    return blocks, subs

def classify_crash(r, c):
    fr = harness.innermost_frame(r.tb)
    return None

def check_case(shard, c, rp):
    rngmap = None
    harness.write_file('in.bin', c['image'])
    argv = ['-o', str(c['org'])] + c['opts']
    start, end = c['start'], c['end']
    if start != c['org']:
        argv += ['-s', str(start)]
    if end != c['org'] + len(c['image']):
        argv += ['-e', str(end)]
    if c['dict']:
        harness.write_file('words.txt', 'the\nand\nscore\nlives\n')
        argv += ['-I', 'Dictionary=words.txt']
    addrs = None
    if c['mapkind'] == 'trace':
        # real execution trace of the image
        r = harness.run_tool('trace', ['-o', str(c['org']), '-s', str(c.get('entry') or start), '-m', '300', '-n', '--map', 'trace.map', 'in.bin'])
        if r.ok and os.path.isfile('trace.map'):
            addrs = [int(l[1:5], 16) for l in harness.read_file('trace.map', False).splitlines() if l.startswith('$')]
            shard.inc('observed:real_trace_maps')
        else:
            c = dict(c, mapkind='none')
    elif c['mapkind'] == 'walk':
        addrs = [a for a in c['walk'] if start <= a < end]
        shard.inc('observed:walk_maps')
    elif c['mapkind'] == 'arbitrary':
        rr = shard.rng('map', harness.h64(c['image']), start)
        n = rr.choice([1, 3, 10, 50])
        addrs = sorted({rr.randrange(max(0, start - 4), min(65536, end + 4)) for _ in range(n)} | ({end} if rr.random() < 0.3 and end < 65536 else set()) | ({start} if rr.random() < 0.5 else set()))
    if addrs is not None:
        write_map(c['mapfmt'], addrs, 'code.map')
        argv += ['-m', 'code.map']
        shard.hist('map_format', c['mapfmt'])
    argv.append('in.bin')
    dc = DecodeCounter()
    dc.install()
    try:
        with harness.time_limit(60):
            r = harness.run_tool('sna2ctl', argv)
    except harness.CaseTimeout:
        shard.note_inconclusive('sna2ctl wall-clock watchdog (60 s) fired; decode items so far: %d' % dc.n)
        return None
    finally:
        dc.remove()
    shard.inc('monitor:sna2ctl_runs')
    bound = 64 * (end - start) ** 2 + 3 * 10 ** 6     # code-map mode scans up to 65536 from each new entry point: the constant term is a few full-memory decodes
    if dc.n > bound:
        shard.violation('bounded progress: decoder yielded %d items for a %d-byte range (bound %d); argv=%s' % (dc.n, end - start, bound, argv), rp)
    shard.inc('monitor:decode_items', dc.n)
    if not r.ok:
        shard.violation('sna2ctl failed: %s; argv=%s\n%s' % (r.describe(), argv, (r.tb or '')[-900:]), rp, classify_crash(r, c))
        return None
    ctl = r.out
    blocks, subs = parse_ctl(ctl)
    what = None
    if not blocks:
        what = 'no block directive at all'
    elif blocks[0][1] != start:
        what = 'first block directive is at %d, START is %d' % (blocks[0][1], start)
    else:
        for (t1, a1), (t2, a2) in zip(blocks, blocks[1:]):
            if a2 <= a1:
                what = 'block directives not strictly increasing: %s %d then %s %d' % (t1, a1, t2, a2)
                break
    if what is None:
        if end < 65536:
            if blocks[-1][1] != end or blocks[-1][0] != 'i':
                what = 'control file does not end with a terminating directive at END=%d: last block directive is "%s %d"' % (end, blocks[-1][0], blocks[-1][1])
        elif blocks[-1][1] >= 65536:
            what = 'block directive at or beyond 65536'
    finding = None
    if what and 'terminating' in what and blocks[-1][1] >= end:
        finding = classify_terminator(c, blocks)
    if what:
        shard.violation('%s; argv=%s\nctl tail: %s' % (what, argv, ctl.splitlines()[-4:]), rp, finding)
        if finding is None:
            return None
    # every code-map address inside a code block
    if addrs is not None and not what:
        bl = blocks + [('i', 65536)]
        for a in addrs:
            if start <= a < end:
                t = next(t for (t, s), (t2, e) in zip(bl, bl[1:]) if s <= a < e)
                if t != 'c':
                    shard.violation('code-map address %d lies in a "%s" block; argv=%s' % (a, t, argv), rp)
                    break
        shard.inc('monitor:map_addresses_checked', len(addrs))
    # feed it to sna2skool (without -r: the ctl already declares RST arguments)
    harness.write_file('out.ctl', ctl)
    sargv = ['-o', str(c['org']), '-c', 'out.ctl']
    if start != c['org']:
        sargv += ['-s', str(start)]
    sargv += ['-e', str(end), 'in.bin']
    r2 = harness.run_tool('sna2skool', sargv)
    shard.inc('monitor:sna2skool_runs')
    if not r2.ok:
        shard.violation('sna2skool failed on sna2ctl output: %s\n%s' % (r2.describe(), (r2.tb or '')[-600:]), rp)
        return None
    warns = [l for l in r2.err.splitlines() if l.startswith('WARNING')]
    strict = True
    if c['mapkind'] == 'arbitrary':
        # arbitrary address sets are in the quantifier for the termination/tiling part only: they may name
        # addresses inside one another's instructions, and then no overlap-free control file exists
        strict = False
        shard.inc('guard:arbitrary_map_tiling_only')
    elif addrs:
        from skoolkit.opcodes import decode
        snap = [0] * 65536
        snap[c['org']:c['org'] + len(c['image'])] = c['image']
        ex = sorted(set(a for a in addrs if start <= a < end))
        ext = {a: next(decode(snap, a, a + 1))[1] for a in ex}
        if any(b < a + ext[a] for a, b in zip(ex, ex[1:])):
            strict = False
            shard.skip('the real trace executed overlapping instructions (jump into an operand): no overlap-free control file exists')
    if not strict:
        warns_for_oracle = []
    else:
        warns_for_oracle = warns
    if warns_for_oracle and not finding:
        shard.violation('sna2skool warns about the control file sna2ctl wrote (argv=%s): %s' % (argv, warns[:2]), rp, classify_warning(c, warns, blocks, set(addrs) if addrs is not None else None))
    skool = r2.out
    # sub-block directives sit on instruction boundaries
    iaddrs = set()
    for l in skool.splitlines():
        m = re.match(r'^[ bcgistuw*](\$[0-9A-Fa-f]{4}|[ 0-9]{4}[0-9]) ', l)
        if m:
            a = m.group(1).strip()
            iaddrs.add(int(a[1:], 16) if a.startswith('$') else int(a))
    for t, a, ln in subs:
        if strict and not warns and start <= a < end and a not in iaddrs:
            shard.violation('sub-block directive "%s %d" is not on an instruction boundary of sna2skool\'s output; argv=%s' % (t, a, argv), rp)
            break
    shard.inc('monitor:subblocks_checked', len(subs))
    # C01 for the pair
    harness.write_file('out.skool', skool)
    r3 = harness.run_tool('skool2bin', ['out.skool', 'out.bin'])
    if not r3.ok:
        shard.violation('skool2bin failed on the regenerated skool file: %s' % r3.describe(), rp)
        return None
    m = re.search(r'start=(\d+), end=(\d+)', r3.err)
    if m and not warns and not what and strict:
        bstart, bend = int(m.group(1)), int(m.group(2))
        out = harness.read_file('out.bin')
        img = c['image']
        for a in range(start, end):
            got = out[a - bstart] if bstart <= a < bend else None
            if got != img[a - c['org']]:
                shard.violation('C01 for the generated control file: byte at %d is %s, original %d; argv=%s' % (a, got, img[a - c['org']], argv), rp)
                break
        shard.inc('monitor:bytes_compared', end - start)
    return len(blocks)

def _snap(c):
    snap = [0] * 65536
    snap[c['org']:c['org'] + len(c['image'])] = c['image']
    return snap

def _crosses_end(c, blocks):
    """True if decoding the last code block of the control file as code reaches an instruction that starts before END
    and extends past it (the range ends inside an instruction)."""
    from skoolkit.opcodes import decode
    end = c['end']
    cb = [a for t, a in blocks if t == 'c' and a < end]
    if not cb:
        return False
    last = None
    rst_handler = None
    if c.get('rst'):
        from skoolkit.components import get_rst_handler
        rst_handler = get_rst_handler()
    for item in decode(_snap(c), cb[-1], end, rst_handler):
        last = item
    return last is not None and last[0] + last[1] > end

def classify_terminator(c, blocks):
    """No listed finding covers a wrong or missing terminating directive any more: the 'b END' face of
    C14-range-ends-inside-instruction was repaired by f283fa7, and with the predicate kept the check absorbed a seeded change
    that brought it back (round 16). A terminator problem is always reported."""
    return None

def _waddr(tok):
    return int(tok[1:], 16) if tok.startswith('$') else int(tok)

def _in_rst_argument_sweep(c, mapped, x, y):
    """Replays, on the witness, what step 2 of the generator does behind an executed RST 8 whose argument byte was not
    executed: the blocks the map reader returns (instructions sized without RST arguments, adjacent ones merged), then the
    sweep from the argument byte to the next block-ending instruction. The listed mechanism is the case in which that sweep
    ends by planting an *unexecuted* ('U') boundary - when it swallowed the start of an executed block inside its last
    instruction the boundary is planted as code and a later pass repairs it, so an overlap there has another cause."""
    from skoolkit.opcodes import END, decode
    from skoolkit.components import get_rst_handler
    snap = _snap(c)
    handler = get_rst_handler()
    start, end = c['start'], c['end']
    blocks = []
    for a in sorted(m for m in mapped if start <= m < end):
        size = next(decode(snap, a, a + 1))[1]
        if blocks and a <= sum(blocks[-1]):
            if a == sum(blocks[-1]):
                blocks[-1][1] += size
        else:
            blocks.append([a, size])
    ctls0 = {}
    for a, ln in blocks:
        ctls0[a] = 'c'
        if a + ln < end:
            ctls0[a + ln] = 'U'
    for a in sorted(mapped):
        if start <= a < end - 1 and snap[a] == 0xCF and a + 1 not in mapped and ctls0.get(a + 1) == 'U':
            ctls = dict(ctls0)
            addr = a + 1
            next_ctl = 'U'
            planted = None
            while addr < end:
                i_addr, size, max_count, op_id = next(decode(snap, addr, addr + 1, handler))[:4]
                addr = min(addr + size, end)
                for k in range(i_addr, addr):
                    if k in ctls:
                        next_ctl = ctls.pop(k)
                if ctls.get(addr) == 'c':
                    break
                if op_id == END:
                    if addr < 65536 and addr not in ctls:
                        planted = next_ctl
                    break
            if planted == 'U' and (a + 1 <= x < addr or a + 1 <= y <= addr):
                return True
    return False

def classify_warning(c, warns, blocks, mapped=None):
    end = c['end']
    ids = set()
    bl = blocks + [('i', 65536)]
    for w in warns:
        m = re.match(r'WARNING: Instruction at (\$?[0-9A-Fa-f]+) overlaps the following instruction at (\$?[0-9A-Fa-f]+)$', w)
        if not m:
            return None
        x, y = _waddr(m.group(1)), _waddr(m.group(2))
        if y == end and _crosses_end(c, blocks):
            ids.add('C14-range-ends-inside-instruction')
            continue
        # C14-text-block-splits-instruction: no code map; the overlapping instruction is in a code block whose neighbour
        # is a text block that the text scan cut out of code at a character (not instruction) boundary
        if c['mapkind'] == 'none' or True:
            idx = next((i for i, ((t, s), (t2, e)) in enumerate(zip(bl, bl[1:])) if s <= x < e), None)
            if idx is not None and bl[idx][0] == 'c':
                neigh = [bl[j][0] for j in (idx - 1, idx + 1) if 0 <= j < len(bl) - 1]
                if 't' in neigh and y == bl[idx + 1][1]:
                    ids.add('C14-text-block-splits-instruction')
                    continue
        # C14-unexecuted-gap-decoded-as-code: with a code map, bytes that were never executed but sit between executed
        # code are put in a code block and decode to an instruction that runs into an executed instruction
        if mapped is not None and x not in mapped and y in mapped:
            ids.add('C14-unexecuted-gap-decoded-as-code')
            continue
        # C14-rst-argument-gap-decoded-as-code: -m with -r. The code-map reader sizes an executed RST without its
        # argument bytes, so the argument of an RST 8 (default handler '8:B') that was not itself executed is an
        # unexecuted gap behind a block that does not end with RET/JP/JR; step 2 of the generator decodes from that
        # argument byte to the next block-ending instruction and puts a block boundary at its end. Decided on the witness:
        # the overlap lies inside, or at the end of, such a sweep.
        if mapped is not None and c['rst'] and _in_rst_argument_sweep(c, mapped, x, y):
            ids.add('C14-rst-argument-gap-decoded-as-code')
            continue
        return None
    # every warning of the case has been attributed to a listed mechanism (an unattributed one returned None above); a
    # case showing several of them is reported under the most specific one
    for k in ('C14-rst-argument-gap-decoded-as-code', 'C14-unexecuted-gap-decoded-as-code', 'C14-text-block-splits-instruction', 'C14-range-ends-inside-instruction'):
        if k in ids:
            return k
    return None

# witness of the listed finding C14-rst-argument-gap-decoded-as-code (first seen in a thorough run): replayed in every run
RST_GAP_WITNESS = {
    'image': bytes.fromhex('cdb0feafc4b6fe21bafecdaffecdc4fe21ccfecdaffec9e987cf18cf10c94f234f47233efdcfc9cf00cfc3c905cf4f3dcfe900c9cfc3c9c3fc80'),
    'org': 65176, 'start': 65176, 'end': 65234, 'entry': None, 'opts': ['-r'], 'rst': True, 'mapkind': 'walk', 'mapfmt': 'zero_hex', 'dict': False,
    'walk': [65176, 65179, 65180, 65183, 65186, 65189, 65192, 65195, 65198, 65199, 65200, 65201, 65203, 65205, 65210, 65211, 65213, 65215, 65217, 65219, 65220,
             65221, 65223, 65224, 65226, 65227, 65228, 65230]}

def run(shard, spec):
    n = N_CASES[shard.tier]
    cases = list(range(spec['shard'], n, spec['of']))
    if spec['shard'] == 0:
        cases.insert(0, 'rst-gap-witness')
    for case in cases:
        rng = shard.rng('case', case)
        c = make_case(rng) if case != 'rst-gap-witness' else dict(RST_GAP_WITNESS)
        rp = {'image': harness.b64(c['image']), 'org': c['org'], 'start': c['start'], 'end': c['end'], 'opts': c['opts'], 'mapkind': c['mapkind'], 'mapfmt': c['mapfmt'], 'dict': c['dict'], 'rst': c['rst'], 'entry': c.get('entry'), 'walk': c.get('walk')}
        res = check_case(shard, c, rp)
        shard.case((harness.h64(c['image']), c['org'], c['start'], c['end'], c['opts'], c['mapkind'], c['mapfmt']), bool(res) and (res >= 3 or c['mapkind'] != 'none'),
                   sample={'org': c['org'], 'range': [c['start'], c['end']], 'opts': c['opts'], 'map': c['mapkind'] + '/' + c['mapfmt'], 'blocks': res} if case in (0, 1, 2) else None)
        shard.hist('map_kind', c['mapkind'])
        for o in c['opts']:
            if o != '-I':
                shard.hist('options', o.split('=')[0])
        if shard.out_of_time():
            shard.inc('stopped_on_budget')
            break

def finalize(agg, tier):
    c = agg['counters']
    probs = []
    for k in ('monitor:sna2ctl_runs', 'monitor:sna2skool_runs', 'monitor:map_addresses_checked', 'monitor:subblocks_checked', 'monitor:decode_items', 'observed:real_trace_maps'):
        if not c.get(k):
            probs.append('monitor %s observed nothing' % k)
    return probs

def replay(shard, rp):
    c = dict(rp)
    c['image'] = harness.unb64(rp['image'])
    res = check_case(shard, c, rp)
    shard.case(('replay',), True)
    print('replayed: blocks', res, 'violations', shard.nviolations)

TECHNIQUE = 'boundary recorder on sna2ctl/sna2skool/skool2bin with structural oracles on the emitted control file and a step counter on the decoder (bounded progress)'
LEVEL_TEXT = ('The real sna2ctl is run on generated images, ranges, options and code maps in all eight supported formats (maps from real trace.py executions of random and call-structured programs, maps of an execution in which every call of such a program is made, and arbitrary address sets); '
              'its output must start at START, strictly increase, end with "i END", put every mapped address in a code block, make sna2skool warning-free with all sub-block '
              'directives on instruction boundaries, and reproduce the bytes through skool2bin; the decoder may not yield more than a quadratic bound of items.')
LEVEL_NOTE = 'Sampled inputs; termination is restated as bounded progress on a logical step count.'
