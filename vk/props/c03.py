"""C03 - skool -> control file -> skool round trip retains every annotation and directive.

Boundary recorder on sna2skool.main and skool2ctl.main; oracle: skool1 == skool0 byte for byte and ctl2 == ctl1.
"""
import re

from vk import harness
from vk.gens import memgen, ctlgen

ID = 'C03'
NEEDS_C = False
LEVEL = 'exploration'
RULE = ('skool0 = sna2skool(image, generated annotated control file: C01\'s space + titles, D/R/N/E, M, dot continuation lines, @ directives incl. ignoreua variants, '
        '> header blocks); ctl1 = skool2ctl -b [-k] [-h|-l](skool0); skool1 = sna2skool(image, ctl1); ctl2 = skool2ctl(skool1). A case is non-trivial when the control '
        'file carries at least 3 annotation feature kinds and 2 sub-block kinds; distinct by hash of (image, ctl0, options)')
ASSUMPTIONS = ['input space = skool files sna2skool writes from well-formed annotated control files (no overlap warnings, no dots-only block-level paragraphs, manual comment line breaks (dot directives) only together with skool2ctl -k, comment words without '
               'leading/trailing/double blanks, balanced braces in the interior of instruction comments only, @ignoreua:X only next to a comment of type X)',
               'ListRefs=0 (referrer comments off), as the property says']
MIN_NONTRIVIAL = {'quick': 400, 'thorough': 8000}
N_CASES = {'quick': 8000, 'thorough': 90000}

def plan(tier, seed):
    n = 16
    q = tier == 'quick'
    return [{'shard': i, 'of': n, 'timeout': 900 if q else 14000, 'budget_s': 100 if q else 3000} for i in range(n)]

def make_case(rng):
    size = rng.choice([16, 30, 64, 100, 256, 700])
    org = rng.choice([16384, 23296, 32768, 49152, rng.randrange(16384, 65536 - size), 65536 - size])
    data = memgen.gen_bytes(rng, size, org=org)
    snap = [0] * 65536
    snap[org:org + size] = data
    sopts = []
    if rng.random() < 0.4:
        sopts.append('-H')
    if rng.random() < 0.3:
        sopts.append('-l')
    if rng.random() < 0.4:
        sopts += ['-w', str(rng.choice([60, 79, 100, 132]))]
    sopts += ['-I', 'ListRefs=0']
    copts = ['-b']
    if rng.random() < 0.3:
        copts.append('-k')
    r = rng.random()
    if r < 0.2:
        copts.append('-h')
    elif r < 0.3:
        copts.append('-l')
    lay = ctlgen.generate(rng, snap, org, org + size, annotate=2, allow_ignored=False, allow_dots='-k' in copts)
    return {'image': bytes(snap[org:org + size]), 'org': org, 'ctl': lay.text(), 'sopts': sopts, 'copts': copts, 'layout': lay}

def sna2skool(c, ctlname):
    return harness.run_tool('sna2skool', ['-o', str(c['org'])] + c['sopts'] + ['-c', ctlname, 'in.bin'])

def first_diff(a, b):
    la, lb = a.splitlines(), b.splitlines()
    for i in range(min(len(la), len(lb))):
        if la[i] != lb[i]:
            return i, la[i], lb[i]
    return min(len(la), len(lb)), (la[len(lb)] if len(la) > len(lb) else '<eof>'), (lb[len(la)] if len(lb) > len(la) else '<eof>')

def _addr(tok):
    tok = tok.strip()
    try:
        return int(tok[1:], 16) if tok.startswith('$') else int(tok)
    except ValueError:
        return None

def _line_addr(line):
    m = re.match(r'^[ bcgistuw*](\$[0-9A-Fa-f]{4}|[ 0-9]{4}[0-9])[ \t]', line)
    return _addr(m.group(1)) if m else None

def _group_end(lines, ad):
    """Address of the first statement after the brace-delimited comment group that starts at address ad (None if there is
    no such group or nothing follows it)."""
    k = next((i for i, l in enumerate(lines) if _line_addr(l) == ad), None)
    if k is None:
        return None
    first = lines[k].partition(' ; ')[2]
    if not first.lstrip().startswith('{'):
        return None
    depth_closed = False
    balance = 0
    j = k
    while j < len(lines):
        l = lines[j]
        if l.startswith('@'):
            j += 1               # ASM directives between statements
            continue
        if j > k and not l.strip():
            return None
        if j > k and _line_addr(l) is None and not l.lstrip().startswith(';'):
            return None
        if depth_closed and _line_addr(l) is not None:
            return _line_addr(l)
        text = l.partition(' ; ')[2] if _line_addr(l) is not None else l.lstrip()[1:]
        if not depth_closed:
            balance += text.count('{') - text.count('}')
        if not depth_closed and text.rstrip().endswith('}') and balance <= 0:
            depth_closed = True          # braces inside the comment text ('{the {x} ...}') do not close the group
        elif depth_closed and _line_addr(l) is None:
            return None          # a comment line (mid-block comment) follows the group: it has a directive of its own
        j += 1
    return None

def classify(skool0, skool1, ctl1, keep):
    """Known-finding mechanisms of skool2ctl around 'M' (mixed statement types under one comment) groups."""
    i, a, b = first_diff(skool0, skool1)
    lines0 = skool0.splitlines()
    # address of the first differing instruction line
    daddr = None
    for l in lines0[i:i + 1] + lines0[i::-1]:
        daddr = _line_addr(l)
        if daddr is not None:
            break
    if daddr is None:
        return None
    direct = set()
    ms = []
    cl = ctl1.splitlines()
    for k, l in enumerate(cl):
        m = re.match(r'^([A-Za-z ]) (\$[0-9A-Fa-f]+|\d+)(?:,(\d*))?(.*)$', l)
        if not m or m.group(1) in '.:>@':
            continue
        ad = _addr(m.group(2))
        if ad is None:
            continue
        if m.group(1) == 'M':
            ln = int(m.group(3)) if m.group(3) else None
            rest = m.group(4)
            # comment text: what follows the (optional) parameters
            text = rest.split(' ', 1)[1] if ' ' in rest else ''
            cont = k + 1 < len(cl) and cl[k + 1][:1] in '.:'
            ms.append((ad, ln, text, cont))
        else:
            direct.add(ad)
    for ad, ln, text, cont in ms:
        if ln is not None and ad <= daddr and (ad + ln) not in direct and _group_end(lines0, ad) == ad + ln:
            # the M directive itself is right (it spans exactly the statements under the one comment in the file it was
            # written from); what is missing is a directive at its end address
            return 'C03-m-group-end-not-marked'
        if keep and not text and not cont and ad <= daddr <= ad + (ln or 1 << 16):
            return 'C03-blank-m-comment-lost-with-k'
    return None

def check_case(shard, c, rp):
    harness.write_file('in.bin', c['image'])
    harness.write_file('ctl0.ctl', c['ctl'])
    r0 = sna2skool(c, 'ctl0.ctl')
    if not r0.ok:
        shard.violation('sna2skool failed on the generated control file: %s\n%s' % (r0.describe(), (r0.tb or '')[-800:]), rp)
        return None
    if 'WARNING' in r0.err:
        shard.skip('sna2skool warned about the generated control file (precondition): %s' % r0.err.strip().splitlines()[-1][:50].split(' at ')[0])
        return False
    skool0 = r0.out
    harness.write_file('s0.skool', skool0)
    r1 = harness.run_tool('skool2ctl', c['copts'] + ['s0.skool'])
    if not r1.ok:
        shard.violation('skool2ctl failed on sna2skool output: %s\n%s' % (r1.describe(), (r1.tb or '')[-800:]), rp)
        return None
    ctl1 = r1.out
    harness.write_file('ctl1.ctl', ctl1)
    r2 = sna2skool(c, 'ctl1.ctl')
    if not r2.ok:
        shard.violation('sna2skool failed on the control file written by skool2ctl: %s\n%s' % (r2.describe(), (r2.tb or '')[-800:]), rp)
        return None
    skool1 = r2.out
    shard.inc('monitor:round_trips')
    if skool1 != skool0:
        i, a, b = first_diff(skool0, skool1)
        shard.violation('skool file changed after skool2ctl %s + sna2skool: first difference at line %d\n  before: %s\n  after : %s\n  warnings: %s' % (
            ' '.join(c['copts']), i + 1, a, b, r2.err.strip()[-200:]), rp, classify(skool0, skool1, ctl1, '-k' in c['copts']))
        return True
    harness.write_file('s1.skool', skool1)
    r3 = harness.run_tool('skool2ctl', c['copts'] + ['s1.skool'])
    shard.inc('monitor:fixed_point_checks')
    if not r3.ok or r3.out != ctl1:
        i, a, b = first_diff(ctl1, r3.out if r3.ok else '')
        shard.violation('second round trip is not a fixed point: ctl line %d\n  first : %s\n  second: %s' % (i + 1, a, b), rp)
    return True

def run(shard, spec):
    n = N_CASES[shard.tier]
    for case in range(spec['shard'], n, spec['of']):
        rng = shard.rng('case', case)
        c = make_case(rng)
        rp = {'image': harness.b64(c['image']), 'org': c['org'], 'ctl': c['ctl'], 'sopts': c['sopts'], 'copts': c['copts']}
        res = check_case(shard, c, rp)
        lay = c['layout']
        ann = {f for f in lay.features if f in ('D', 'R', 'E', 'N-start', 'N-mid', 'M-directive', 'dot-directive', 'header-block', 'asm-label', 'asm-keep', 'asm-nowarn') or f.startswith('ignoreua')}
        subs = {f for f in lay.features if f.startswith('sub-')}
        shard.case((harness.h64(c['image']), c['org'], c['ctl'], c['sopts'], c['copts']), bool(res) and len(ann) >= 3 and len(subs) >= 2,
                   sample={'org': c['org'], 'sna2skool_opts': c['sopts'], 'skool2ctl_opts': c['copts'], 'ctl_head': c['ctl'].splitlines()[:14]} if case < 2 else None)
        for f in lay.features:
            shard.hist('ctl_features', f)
        for o in c['copts']:
            shard.hist('skool2ctl_options', o)
        if shard.out_of_time():
            shard.inc('stopped_on_budget')
            break

def finalize(agg, tier):
    probs = []
    if not agg['counters'].get('monitor:round_trips'):
        probs.append('no round trip completed')
    sk = sum(agg['skipped'].values())
    if agg['evaluations'] and sk > 0.2 * agg['evaluations']:
        probs.append('%d of %d generated control files were outside the precondition (>20%%)' % (sk, agg['evaluations']))
    return probs

def replay(shard, rp):
    c = {'image': harness.unb64(rp['image']), 'org': rp['org'], 'ctl': rp['ctl'], 'sopts': rp['sopts'], 'copts': rp['copts']}
    res = check_case(shard, c, rp)
    shard.case(('replay',), True)
    print('replayed: result', res, 'violations', shard.nviolations)

TECHNIQUE = 'boundary recorder on the real sna2skool and skool2ctl entry points; round-trip identity and fixed-point oracle over generated annotated control files'
LEVEL_TEXT = ('Each case writes a skool file with the real sna2skool from a generated, annotated control file, converts it with the real skool2ctl -b (also -k, -h, -l), regenerates the skool '
              'file from that control file and the same memory and requires byte-for-byte identity, then requires the second skool2ctl output to equal the first.')
LEVEL_NOTE = 'The generator only emits annotation shapes whose meaning the documentation defines unambiguously (see ASSUMPTIONS); sampled exploration.'
