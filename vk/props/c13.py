"""C13 - simulated LOAD results do not depend on speed-up options or simulator choice.

Boundary recorder on tap2sna.main (in-process): every tape is loaded under a matrix of configurations; for each run the
snapshot file is read back and, because the file does not carry T, the simulator's 30 register slots (incl. R, T, IFF,
IM, HALT, MEMPTR), the RAM and the hardware state handed over by tap2sna.get_state are captured by wrapping that
function from outside. Oracle:

  * within the class {accelerator any, accelerate-dec-a 0..3, pause 0/1, python 0/1} (fast-load, cmio, polarity,
    first-edge, tape held fixed): everything captured and the snapshot file must be identical;
  * across fast-load 0/1 and cmio 0/1: only the bytes loaded from the tape's data blocks, PC and SP.

Tapes (vk/gens/c13_tapes.py): bin2tap-made tapes (real bin2tap.main) and custom-loader tapes whose loader is built
around each tape-sampling loop shape that tap2sna recognises, followed by turbo blocks.
"""
import os
import re

from vk import harness
from vk.gens import c13_tapes as g

ID = 'C13'
NEEDS_C = True
LEVEL = 'exploration'
RULE = ('tapes: (a) bin2tap-made TAP/TZX tapes of random binaries, (b) a bin2tap-made prefix carrying a synthesised loader built around one of the 53 '
        'recognised tape-sampling loops (47 single-loop "edge" loaders incl. all counter/EAR register variants, and 3 "cycle" loaders made of the 6 polarity-sensitive loops) x '
        'wildcard fill x DEC A delay-loop form (JR / JP / unrecognised) x 1-2 turbo blocks (TZX 0x11 or 0x12+0x13+0x14) x pauses x payload x '
        'polarity x first-edge x {--start given, not given}; each tape is run under accelerator in {none, auto, list, its own name, an unrelated name} x '
        'accelerate-dec-a 0..3 x pause 0/1 x python 0/1 (sampled for the Python simulator) x fast-load 0/1 x cmio 0/1. A case is one configuration run compared '
        'with the reference run of its class; it is non-trivial when the tape loaded (payload found at its destination in RAM) and the run differs from the '
        'reference in at least one of accelerator / accelerate-dec-a / pause / python; distinct by (tape bytes, options)')
ASSUMPTIONS = ['"a tape that loads" = at least one configuration of the matrix ends with every data block at its destination; tapes that load in no '
               'configuration are skipped and counted',
               'the loop signatures are a frozen copy of skoolkit/loadsample.py at the pinned commit; per-accelerator hit counts reported by accelerator=list '
               'are the evidence that the fast-forward arithmetic was executed for that shape',
               'a loader using IN A,(C) (activision shape) needs -c in-flags=4; that option is treated as part of the tape',
               'when --start is not given the simulation stops where tap2sna decides; PC and SP are then compared as they are']
MIN_NONTRIVIAL = {'quick': 1500, 'thorough': 8000}

REG_NAMES = ['A', 'F', 'B', 'C', 'D', 'E', 'H', 'L', 'IXh', 'IXl', 'IYh', 'IYl', 'SP', '13', 'I', 'R', "A'", "F'", "B'", "C'", "D'", "E'", "H'", "L'",
             'PC', 'T', 'IFF', 'IM', 'HALT', 'MEMPTR']
R_IDX, T_IDX, SP_IDX, PC_IDX = 15, 25, 12, 24

F_PAUSE = 'C13-pause-changes-tape-position-when-loader-is-not-sampling-at-block-start'
F_ROMSTOP = 'C13-no-start-fast-load-0-stops-inside-rom-loader-at-tape-end'
F_NEGEDGE = 'C13-negative-first-edge-rejected-by-c-simulator-only'
F_DECZERO = 'C13-countdown-accelerator-entered-with-counter-0'
F_RETZ = 'C13-alkatraz-accelerator-skips-ret-z-taken-after-counter-overflow'
ALKATRAZ_WILD = ('alkatraz', 'alkatraz-05', 'alkatraz-09', 'alkatraz-0a', 'alkatraz-0b')

def plan(tier, seed):
    if tier == 'quick':
        return [{'shard': i, 'of': 16, 'timeout': 600, 'budget_s': 30} for i in range(16)]
    # thorough: 15 plain shards plus, at the same time, one sanitizer shard (C configurations only) under the same workload
    specs = [{'shard': i, 'of': 15, 'timeout': 7200, 'budget_s': 1000} for i in range(15)]
    specs.append({'shard': 0, 'of': 1, 'flavour': 'asan', 'asan': True, 'timeout': 7200, 'budget_s': 900})
    return specs

# ------------------------------------------------------------------ hooks (installed from outside, removed afterwards)

class Hooks:
    def __init__(self):
        self.rec = None
        self.tracer = None
        self.saved = []

    def install(self):
        import skoolkit
        import skoolkit.tap2sna as t2s
        import skoolkit.loadtracer as lt
        hooks = self
        orig_get_state = t2s.get_state

        def get_state(sim, *a, **k):
            res = orig_get_state(sim, *a, **k)
            rec = hooks.rec
            if rec is not None:
                rec['regs'] = [int(x) for x in sim.registers]
                rec['simcls'] = type(sim).__name__
                ram = res[0]
                if ram and isinstance(ram[0], (list, bytearray, bytes)):
                    rec['ram'] = b''.join(bytes(b) for b in ram)
                else:
                    rec['ram'] = bytes(ram)
                rec['sregs'] = list(res[1])
                rec['sstate'] = list(res[2])
                rec['captures'] = rec.get('captures', 0) + 1
            return res

        class RecTracer(lt.LoadTracer):
            def __init__(s, *a, **k):
                super().__init__(*a, **k)
                hooks.tracer = s

            def next_block(s, tstates):
                super().next_block(tstates)
                if hooks.rec is not None:
                    hooks.rec['events'].append(('block', int(s.block_index), int(s.state[1]), int(tstates)))

        orig_wl = skoolkit.write_line

        def write_line(line):
            rec, tr = hooks.rec, hooks.tracer
            if rec is not None and tr is not None and isinstance(line, str) and line.startswith('Data ('):
                try:
                    rec['events'].append(('first-read', int(tr.block_index), int(tr.state[1]), int(tr.simulator.registers[25])))
                except Exception:
                    pass
            return orig_wl(line)

        self.saved = [(t2s, 'get_state', orig_get_state), (t2s, 'LoadTracer', t2s.LoadTracer), (skoolkit, 'write_line', orig_wl), (lt, 'write_line', lt.write_line)]
        t2s.get_state = get_state
        t2s.LoadTracer = RecTracer
        skoolkit.write_line = write_line
        lt.write_line = write_line

    def remove(self):
        for mod, name, val in reversed(self.saved):
            setattr(mod, name, val)
        self.saved = []

# ------------------------------------------------------------------ tapes

def rand_bytes(rng, n):
    k = rng.random()
    if k < 0.6:
        return bytes(rng.randrange(256) for _ in range(n))
    if k < 0.75:
        return bytes(rng.choice((0x00, 0xFF)) for _ in range(n))
    if k < 0.9:
        return bytes([rng.choice((0x00, 0xFF, 0x55, 0xAA, 0x80, 0x01))] * n)
    return bytes((i * 7 + 3) & 0xFF for i in range(n))

def make_custom(rng, loader, tier, force=None):
    """Returns the tape description (dict). All choices come from rng; `force` overrides some of them."""
    force = force or {}
    kind, accs = g.LOADERS[loader]
    has_wild = any(None in g.SHAPE[a].sig and g.SHAPE[a].sig.count(None) >= 3 for a in accs)
    fill = rng.choice(('ret', 'ret', 'nop')) if has_wild else 'ret'
    delay_kind = rng.choice(('jr', 'jr', 'jp', 'jp', 'other'))
    nblocks = 1 if rng.random() < 0.6 else 2
    container = rng.choice(('turbo', 'turbo', 'pure'))
    polarity = 0 if rng.random() < 0.65 else 1
    first_edge = rng.choice((0, 0, 0, 1, 777, 2168, 69888, 100001))
    swap = rng.randrange(2)
    ending = rng.choice(('loop', 'halt'))
    use_start = rng.random() < 0.6
    org = rng.choice((0x8000, 0x9000, 0xA123, 0xB400, 0xFD00 - 0x400))
    n_max = 60 if tier == 'quick' else 300
    init_ctr = True if loader == 'software-projects' else rng.random() < 0.5
    init_ctr = force.get('init_ctr', init_ctr)
    # boundary-value DEC A delay loops (A = 0 on entry means 256 iterations), in both forms: one inside the loader while the pilot
    # tone is playing (its length decides which edge is sampled next), one after the last block (its length shows in T)
    def bd():
        return (rng.choice(('jp', 'jr')), rng.choice((0, 0, 0, 1, 2, 255, 255, rng.randrange(256))), rng.random() < 0.5)
    wait_delay = bd() if rng.random() < 0.5 else None
    post_delay = bd() if rng.random() < 0.6 else None
    wait_delay = force.get('wait_delay', wait_delay)
    post_delay = force.get('post_delay', post_delay)
    fill = force.get('fill', fill)
    nblocks = force.get('nblocks', nblocks)
    polarity = force.get('polarity', polarity)
    first_edge = force.get('first_edge', first_edge)
    use_start = force.get('use_start', use_start)
    blocks = []
    dest = rng.choice((0xC000, 0xC800, 0x4000, 0x5B00, 0xE000))
    for i in range(nblocks):
        n = rng.choice((1, 2, 17, n_max // 2, n_max, rng.randrange(1, n_max + 1)))
        blocks.append({'dest': dest, 'data': rand_bytes(rng, n), 'flag': rng.choice((0xFF, 0xFF, 0x00, 0x5A)), 'npilot': rng.choice((900, 1200, 1601))})
        dest += n + rng.choice((0, 1, 256))
    prog = g.build_program(loader, org, rng, blocks, fill=fill, delay_kind=delay_kind, swap=swap, ending=ending, init_ctr=init_ctr, wait_delay=wait_delay, post_delay=post_delay)
    prefix_pause = rng.choice((1000, 300, 300, 100))
    block_pauses = [rng.choice((0, 0, 100, 1000)) for _ in blocks]
    jitter = rng.choice((0, 0, 0, -3, 5))
    # (the cycle loaders take 16+ long cycles for a pilot and would lock on to a longer false start)
    splits = [(rng.choice((200, 301) if kind == 'edge' else (20, 27)), rng.choice((8, 25, 60))) if rng.random() < 0.35 else None for _ in blocks]
    splits = force.get('splits', splits)
    harness.write_file('prog.bin', prog['code'])
    r = harness.run_tool('bin2tap', ['-o', str(org), 'prog.bin', 'prog.tap'])
    if not r.ok:
        return {'error': 'bin2tap failed: ' + r.describe()}
    tzx = g.custom_tzx(harness.read_file('prog.tap'), prog, blocks, rng, container=container, prefix_pause=prefix_pause,
                       block_pauses=block_pauses, tape_pol=polarity, jitter=jitter, splits=splits)
    regions = [(org, prog['code'])] + [(b['dest'], bytes(b['data'])) for b in blocks]
    extra = ['-c', 'in-flags=4'] if loader == 'activision' else []
    return {'kind': 'custom', 'loader': loader, 'skeleton': kind, 'accs': list(accs), 'named': ','.join(accs), 'tape': tzx, 'ext': 'tzx',
            'polarity': polarity, 'first_edge': first_edge, 'start': prog['fin'] if use_start else None, 'regions': regions, 'extra': extra,
            'timeout': (g.tzx_duration(tzx) + abs(first_edge)) // 3500000 + 5, 'desc': {'loader': loader, 'fill': fill, 'delay': delay_kind, 'blocks': [len(b['data']) for b in blocks], 'container': container,
                                    'polarity': polarity, 'first_edge': first_edge, 'swap': swap, 'init_ctr': init_ctr, 'ending': ending, 'start': use_start, 'org': org,
                                    'prefix_pause': prefix_pause, 'block_pauses': block_pauses, 'jitter': jitter, 'false_starts': splits,
                                    'wait_delay': wait_delay, 'post_delay': post_delay}}

def _tap_block(payload):
    chk = 0
    for x in payload:
        chk ^= x
    return bytes([(len(payload) + 1) & 0xFF, (len(payload) + 1) >> 8]) + bytes(payload) + bytes([chk])

def _wrap_code_block(tap, extra, rng):
    """Lengthen the last CODE block of a TAP file (header + data) by `extra` bytes."""
    blocks = g.tap_blocks(tap)
    hi = max(i for i, b in enumerate(blocks) if len(b) == 19 and b[0] == 0 and b[1] == 3)
    hdr = bytearray(blocks[hi][:-1])
    ln = hdr[12] + 256 * hdr[13] + extra
    hdr[12], hdr[13] = ln & 0xFF, ln >> 8
    body = bytearray(blocks[hi + 1][:-1]) + bytes(rng.randrange(256) for _ in range(extra))
    out = b''
    for i, b in enumerate(blocks):
        if i == hi:
            out += _tap_block(hdr)
        elif i == hi + 1:
            out += _tap_block(body)
        else:
            out += _tap_block(b[:-1])
    return out

def make_bin2tap(rng, tier, force=None):
    force = force or {}
    n = rng.choice((1, 2, 5, 40, 150, 300)) if tier == 'quick' else rng.choice((1, 2, 3, 40, 300, 1000, 2500))
    org = rng.choice((0x8000, 0x6000, 0xC000, 65536 - n - 64, 30000, 65536 - n - 3, 65536 - n - 3))
    body = rand_bytes(rng, n)
    # the binary starts with DI; JR $ so that the machine is at rest once the program has been entered
    data = bytes((0xF3, 0x18, 0xFE)) + body
    harness.write_file('b.bin', data)
    opts = ['-o', str(org)]
    clear = None
    if rng.random() < 0.3 or (org + len(data) == 65536 and rng.random() < 0.7) or force.get('wrap'):
        clear = org - 1
        opts += ['-c', str(clear)]
    elif rng.random() < 0.3 and org + len(data) + 40 < 65536:
        opts += ['-p', str(org + len(data) + 40)]
    r = harness.run_tool('bin2tap', opts + ['b.bin', 'b.tap'])
    if not r.ok:
        return {'error': 'bin2tap failed: ' + r.describe()}
    tap = harness.read_file('b.tap')
    wrap_extra = 0
    if force.get('wrap') or (clear is not None and org + len(data) == 65536 and rng.random() < 0.8):
        # a CODE block that runs past 0xFFFF: the ROM loader's IX wraps to 0 and the rest of the block falls on ROM, where
        # it is not stored. Made from a --clear tape (standard header + data block) by moving the block up against the top
        # of memory and lengthening header and data block by a few bytes.
        wrap_extra = rng.choice((1, 2, 57, 200))
        tap = _wrap_code_block(tap, wrap_extra, rng)
    as_tzx = rng.random() < 0.5
    if as_tzx:
        nb = len(g.tap_blocks(tap))
        tape = g.std_tzx(tap, [rng.choice((1000, 1000, 2000, 700)) for _ in range(nb)])
    else:
        tape = tap
    polarity = 0 if rng.random() < 0.7 else 1
    first_edge = rng.choice((0, 0, 0, 1, 2168, 69888))
    use_start = rng.random() < 0.6
    polarity = force.get('polarity', polarity)
    first_edge = force.get('first_edge', first_edge)
    use_start = force.get('use_start', use_start)
    return {'kind': 'bin2tap', 'loader': 'rom-routine', 'skeleton': 'rom', 'accs': ['rom'], 'named': 'rom', 'tape': tape, 'ext': 'tzx' if as_tzx else 'tap',
            'polarity': polarity, 'first_edge': first_edge, 'start': org if use_start else None, 'regions': [(org, data)], 'extra': [],
            'timeout': ((g.tzx_duration(tape) if as_tzx else g.tap_duration(tape)) + abs(first_edge)) // 3500000 + 5,
            'desc': {'loader': 'bin2tap', 'length': len(data), 'org': org, 'clear': clear, 'container': 'tzx' if as_tzx else 'tap', 'polarity': polarity,
                     'first_edge': first_edge, 'start': use_start, 'opts': opts, 'bytes_beyond_ffff': wrap_extra}}

# ------------------------------------------------------------------ running one configuration

def cfg_key(c):
    return (c['acc'], c['dec_a'], c['pause'], c['python'], c['fast_load'], c['cmio'])

def cfg_argv(tape, c):
    argv = ['-c', 'accelerator=%s' % c['acc']]
    if c['acc'] != 'list':
        argv += ['-c', 'accelerate-dec-a=%d' % c['dec_a']]
    argv += ['-c', 'pause=%d' % c['pause'], '-c', 'python=%d' % c['python'], '-c', 'fast-load=%d' % c['fast_load'], '-c', 'cmio=%d' % c['cmio'],
             '-c', 'polarity=%d' % tape['polarity'], '-c', 'first-edge=%d' % tape['first_edge'], '-c', 'timeout=%d' % tape['timeout']]
    argv += tape['extra']
    if tape['start'] is not None:
        argv += ['--start', str(tape['start'])]
    return argv

HITS_RE = re.compile(r'Accelerators: (.*); misses: (\d+); dec-a: (\d+)/(\d+)/(\d+)')

def run_cfg(hooks, tape, c, fmt):
    """Returns a result dict: ok, out, err, regs, ram, sregs, sstate, file, loaded, stop, events, hits."""
    out = 'o.' + fmt
    if os.path.exists(out):
        os.remove(out)
    rec = {'events': []}
    hooks.rec = rec
    hooks.tracer = None
    argv = cfg_argv(tape, c) + ['tape.' + tape['ext'], out]
    try:
        with harness.time_limit(600):
            r = harness.run_tool('tap2sna', argv)
    except harness.CaseTimeout:
        return {'watchdog': True, 'argv': argv}
    finally:
        hooks.rec = None
    if r.exc and 'CaseTimeout' in r.exc:
        # the tool runner turned the wall-clock alarm into a tool exception: it is still only a watchdog, never a verdict
        return {'watchdog': True, 'argv': argv}
    res = {'argv': argv, 'run': r, 'ok': r.ok, 'regs': rec.get('regs'), 'ram': rec.get('ram'), 'sregs': rec.get('sregs'), 'sstate': rec.get('sstate'),
           'events': rec['events'], 'simcls': rec.get('simcls'), 'captures': rec.get('captures', 0)}
    res['file'] = harness.read_file(out) if os.path.exists(out) else None
    text = r.out.replace('\x08', '')
    m = re.search(r'Simulation stopped \(([^)]*)\)', text)
    res['stop'] = m.group(1) if m else None
    h = HITS_RE.search(text)
    if h:
        hits = {}
        if h.group(1) != 'none':
            for part in h.group(1).split('; '):
                name, _, cnt = part.rpartition(': ')
                hits[name] = int(cnt)
        res['hits'] = {'tsl': hits, 'misses': int(h.group(2)), 'dec_a': (int(h.group(3)), int(h.group(4)), int(h.group(5)))}
    loaded = False
    if res['ram'] is not None and res['ok']:
        ram = res['ram']
        loaded = all(ram[a - 0x4000:a - 0x4000 + len(d)] == d for a, d in tape['regions'])
        if loaded and tape['start'] is not None and res['stop'] != 'PC at start address':
            loaded = False
    res['loaded'] = loaded
    return res

def state_diff(a, b):
    """Names of what differs between two captured runs (in-class comparison: everything)."""
    d = []
    if a['ok'] != b['ok']:
        d.append('exit(%s | %s)' % (a['run'].describe() if not a['ok'] else 'ok', b['run'].describe() if not b['ok'] else 'ok'))
        return d
    if a['regs'] is None or b['regs'] is None:
        if (a['regs'] is None) != (b['regs'] is None):
            d.append('state-capture-missing')
        return d
    for i, (x, y) in enumerate(zip(a['regs'], b['regs'])):
        if x != y:
            d.append('%s(%d|%d)' % (REG_NAMES[i], x, y))
    if a['ram'] != b['ram']:
        bad = [i for i in range(len(a['ram'])) if a['ram'][i] != b['ram'][i]]
        d.append('RAM(%d bytes, first at %d: %d|%d)' % (len(bad), bad[0] + 0x4000, a['ram'][bad[0]], b['ram'][bad[0]]))
    if a['sstate'] != b['sstate']:
        d.append('hw-state(%s | %s)' % (a['sstate'], b['sstate']))
    if a['sregs'] != b['sregs']:
        d.append('snapshot-registers')
    if a['file'] != b['file']:
        d.append('snapshot-file')
    if a['stop'] != b['stop']:
        d.append('stop-reason(%s | %s)' % (a['stop'], b['stop']))
    return d

def confined_to_phase(tape, a, b):
    """Do two runs differ in nothing but what follows the phase between CPU and tape: R, T and - when the simulation was
    stopped inside the sampling loop - the loop's counter register? (Same RAM, PC, SP, stop reason, hardware state.)"""
    if a['regs'] is None or b['regs'] is None or not (a['ok'] and b['ok']):
        return False
    allowed = {R_IDX, T_IDX}
    if tape['kind'] == 'custom':
        allowed.add(2 + 'BCDEHL'.index(g.SHAPE[tape['accs'][0]].ctr))
    for i, (x, y) in enumerate(zip(a['regs'], b['regs'])):
        if x != y and i not in allowed:
            return False
    return a['ram'] == b['ram'] and a['sstate'] == b['sstate'] and a['stop'] == b['stop']

def late_first_read(res):
    """True when, in this run, the first tape-port read of some block came after the tape had already moved past that
    block's first edge (the tape was not paused and the loader was not sampling when the block began)."""
    first = {}
    for ev in res['events']:
        if ev[0] == 'block':
            first[ev[1]] = ev[2]
        elif ev[0] == 'first-read':
            f = first.get(ev[1])
            if f is not None and ev[2] > f:
                return True
    return False

def weak_diff(tape, a, b):
    """Cross-class comparison (fast-load / cmio): loaded bytes, PC, SP only."""
    d = []
    if a['ok'] != b['ok'] or a['regs'] is None or b['regs'] is None:
        d.append('exit/state(%s | %s)' % (a['run'].describe() if not a['ok'] else 'ok', b['run'].describe() if not b['ok'] else 'ok'))
        return d
    for addr, data in tape['regions']:
        x = a['ram'][addr - 0x4000:addr - 0x4000 + len(data)]
        y = b['ram'][addr - 0x4000:addr - 0x4000 + len(data)]
        if x != y:
            d.append('loaded-bytes@%d' % addr)
    if a['regs'][PC_IDX] != b['regs'][PC_IDX]:
        d.append('PC(%d|%d)' % (a['regs'][PC_IDX], b['regs'][PC_IDX]))
    if a['regs'][SP_IDX] != b['regs'][SP_IDX]:
        d.append('SP(%d|%d)' % (a['regs'][SP_IDX], b['regs'][SP_IDX]))
    return d

def run_cfg_child(tape, c, fmt):
    """Same as run_cfg, but in a separate interpreter, so that a crash of the C code is observed instead of suffered."""
    import json
    import subprocess
    from vk import paths
    argv = cfg_argv(tape, c) + ['tape.' + tape['ext'], 'oc.' + fmt]
    with open('child_in.json', 'w') as f:
        json.dump({'argv': argv}, f)
    if os.path.exists('child_out.json'):
        os.remove('child_out.json')
    try:
        p = subprocess.run([paths.PYTHON, '-m', 'vk.props.c13', 'child', 'child_in.json', 'child_out.json'], cwd=os.getcwd(), capture_output=True, text=True, timeout=600)
    except subprocess.TimeoutExpired:
        return {'watchdog': True, 'argv': argv}
    if p.returncode < 0 or not os.path.exists('child_out.json'):
        return {'crashed': p.returncode, 'stderr': (p.stderr or '')[-600:], 'argv': argv}
    with open('child_out.json') as f:
        j = json.load(f)
    res = {'argv': argv, 'run': harness.ToolResult(j['out'], j['err'], j['code'], j['exc'], None), 'regs': j['regs'], 'ram': harness.unb64(j['ram']) if j['ram'] else None,
           'sregs': j['sregs'], 'sstate': j['sstate'], 'events': [tuple(e) for e in j['events']], 'simcls': j['simcls'], 'captures': 1 if j['regs'] else 0, 'stop': None}
    res['ok'] = res['run'].ok
    res['file'] = harness.read_file('oc.' + fmt) if os.path.exists('oc.' + fmt) else None
    m = re.search(r'Simulation stopped \(([^)]*)\)', j['out'].replace('\x08', ''))
    res['stop'] = m.group(1) if m else None
    ram = res['ram']
    res['loaded'] = bool(ram is not None and res['ok'] and all(ram[a - 0x4000:a - 0x4000 + len(d)] == d for a, d in tape['regions']))
    return res

def child_main(argv):
    import json
    from vk import boot
    boot.init(flavour='plain', use_c=True, scratch=False)
    with open(argv[0]) as f:
        spec = json.load(f)
    hooks = Hooks()
    hooks.install()
    rec = {'events': []}
    hooks.rec = rec
    r = harness.run_tool('tap2sna', spec['argv'])
    hooks.rec = None
    with open(argv[1], 'w') as f:
        json.dump({'out': r.out, 'err': r.err, 'code': r.code, 'exc': r.exc, 'regs': rec.get('regs'), 'ram': harness.b64(rec['ram']) if rec.get('ram') is not None else None,
                   'sregs': rec.get('sregs'), 'sstate': rec.get('sstate'), 'events': rec['events'], 'simcls': rec.get('simcls')}, f)
    return 0

# ------------------------------------------------------------------ configuration matrix

def unrelated_name(tape):
    for n in ('speedlock', 'tiny', 'alkatraz'):
        if n not in tape['accs']:
            return n

def matrix(tape, rng, tier, asan=False):
    """List of (group key, [configs]); the first config of each group is its reference (the plainest one)."""
    q = tier == 'quick'
    accs = ['none', 'auto', tape['named'], unrelated_name(tape)]
    groups = []

    def C(acc, dec_a, pause, python, fl, cm):
        return {'acc': acc, 'dec_a': dec_a, 'pause': pause, 'python': python, 'fast_load': fl, 'cmio': cm}

    # G1: fast-load=1, cmio=0 - the full class for the C simulator, a sample for the Python one
    g1 = [C('none', 0, 1, 0, 1, 0)]
    for acc in accs:
        for d in range(4):
            for p in (1, 0):
                if (acc, d, p) != ('none', 0, 1):
                    g1.append(C(acc, d, p, 0, 1, 0))
    g1 += [C('list', 3, 1, 0, 1, 0), C('list', 3, 0, 0, 1, 0)]
    if not asan:
        py = [C('none', 0, 1, 1, 1, 0), C(tape['named'], 3, 1, 1, 1, 0), C('auto', 3, 0, 1, 1, 0), C('auto', rng.choice((1, 2)), rng.randrange(2), 1, 1, 0),
              C('auto', rng.choice((1, 2)), rng.randrange(2), 1, 1, 0)]
        py[4]['dec_a'] = 3 - py[3]['dec_a']
        if not q:
            py += [C('none', 3, 0, 1, 1, 0), C('auto', 0, 1, 1, 1, 0), C('list', 3, 1, 1, 1, 0)]
        for _ in range(1 if q else 8):
            c = C(rng.choice(accs + ['list']), rng.randrange(4), rng.randrange(2), 1, 1, 0)
            if c['acc'] == 'list':
                c['dec_a'] = 3
            py.append(c)
        if tape['kind'] == 'bin2tap':
            py = py[:2] + py[3:4]             # with fast loading nothing but BASIC is simulated: the Python runs are alike
        g1 += py
    groups.append((('fl1', 'cmio0'), g1))
    # G2: fast-load=0, cmio=0
    g2 = [C('none', 0, 1, 0, 0, 0), C('none', 0, 0, 0, 0, 0), C('auto', 3, 1, 0, 0, 0), C(tape['named'], 3, 0, 0, 0, 0), C('none', 3, 0, 0, 0, 0), C('auto', 0, 0, 0, 0, 0),
          C(tape['named'], 1, 1, 0, 0, 0), C('auto', 2, 1, 0, 0, 0), C('list', 3, 1, 0, 0, 0)]
    if not asan:
        small = sum(len(d) for a, d in tape['regions']) <= 400
        if (not q) or rng.random() < 0.2:
            g2.append(C('auto', 3, rng.randrange(2), 1, 0, 0))
        if not q and small:
            g2.append(C(tape['named'], rng.randrange(4), rng.randrange(2), 1, 0, 0))
        if not q and small and rng.random() < 0.15:
            g2.append(C('none', 0, 1, 1, 0, 0))
    groups.append((('fl0', 'cmio0'), g2))
    # G3: fast-load=1, cmio=1 (acceleration is disabled by tap2sna: the accelerator options must then be inert)
    g3 = [C('none', 0, 1, 0, 1, 1), C('none', 0, 0, 0, 1, 1), C('auto', 3, 1, 0, 1, 1), C(tape['named'], 2, 0, 0, 1, 1)]
    if not asan and ((not q) or rng.random() < 0.25):
        g3.append(C('auto', 3, rng.randrange(2), 1, 1, 1))
    groups.append((('fl1', 'cmio1'), g3))
    # G4: fast-load=0, cmio=1
    g4 = [C('none', 0, 1, 0, 0, 1), C('none', 0, 0, 0, 0, 1), C('auto', 3, 0, 0, 0, 1)]
    groups.append((('fl0', 'cmio1'), g4))
    return groups

# ------------------------------------------------------------------ checking one tape

def describe_cfg(c):
    return 'accelerator=%s accelerate-dec-a=%s pause=%d python=%d fast-load=%d cmio=%d' % (c['acc'], '3(list)' if c['acc'] == 'list' else c['dec_a'], c['pause'],
                                                                                             c['python'], c['fast_load'], c['cmio'])

def replay_dict(tape, ca, cb, why):
    return {'tape_b64': harness.b64(tape['tape']), 'ext': tape['ext'], 'desc': tape['desc'], 'argv_a': cfg_argv(tape, ca), 'argv_b': cfg_argv(tape, cb),
            'regions': [(a, harness.b64(d)) for a, d in tape['regions']], 'why': why}

def check_tape(shard, hooks, tape, rng, case_key, asan=False, only_groups=None):
    harness.write_file('tape.' + tape['ext'], tape['tape'])
    fmt = rng.choice(('z80', 'szx'))
    groups = matrix(tape, rng, shard.tier, asan)
    results = {}          # group key -> list of (cfg, result)
    any_loaded = False
    tape_hash = harness.h64(tape['tape'])
    for gk, cfgs in groups:
        if only_groups and gk not in only_groups:
            continue
        lst = []
        for c in cfgs:
            res = run_cfg(hooks, tape, c, fmt)
            shard.inc('monitor:tap2sna_runs')
            if res.get('watchdog'):
                shard.note_inconclusive('wall-clock watchdog fired on one tap2sna run (%s)' % describe_cfg(c))
                continue
            if res['captures']:
                shard.inc('monitor:state_captures')
            if res['run'].exc:
                # an uncaught exception in tap2sna is a difference in its own right (reported through the comparison below)
                shard.inc('observed:tap2sna_uncaught_exception')
            any_loaded = any_loaded or res['loaded']
            lst.append((c, res))
            shard.hist('simulator', res.get('simcls') or 'none')
            if 'hits' in res and not c['python'] and c['cmio'] == 0 and gk[0] == ('fl1' if tape['kind'] == 'custom' else 'fl0'):
                h = res['hits']
                for name, cnt in h['tsl'].items():
                    shard.hist('accelerator_hits(list)', name, cnt)
                shard.hist('dec_a_hits(list)', 'jr', h['dec_a'][0])
                shard.hist('dec_a_hits(list)', 'jp', h['dec_a'][1])
                shard.hist('dec_a_hits(list)', 'miss', h['dec_a'][2])
                shard.hist('accelerator_misses(list)', tape['loader'], h['misses'])
                tape['hits'] = h
            if shard.out_of_time() and len(lst) >= 6 and gk != groups[0][0]:
                break
        results[gk] = lst
    if not any_loaded:
        shard.skip('tape does not load in any configuration (%s)' % tape['loader'])
        shard.hist('loader_not_loading', tape['loader'])
        return
    shard.hist('loader_loaded', tape['loader'])
    shard.hist('tape_kind', tape['kind'])
    shard.hist('polarity', tape['polarity'])
    shard.hist('first_edge', tape['first_edge'])
    shard.hist('start_given', tape['start'] is not None)
    if tape['kind'] == 'custom':
        for where in ('wait_delay', 'post_delay'):
            bdl = tape['desc'].get(where)
            if bdl:
                bit = 2 if bdl[0] == 'jp' else 1
                pyruns = sum(1 for lst in results.values() for c, r in lst if c['python'] and c['cmio'] == 0 and c['dec_a'] & bit and r.get('regs') is not None)
                key = '%s/%s/A=%s' % (where.split('_')[0], bdl[0], bdl[1] if bdl[1] in (0, 1, 2, 255) else 'other')
                shard.hist('boundary_dec_a_delay(tapes)', key)
                if pyruns:
                    shard.hist('boundary_dec_a_delay(python runs with that form accelerated)', key, pyruns)
    hits = tape.get('hits')
    exercised = bool(hits and all(hits['tsl'].get(a, 0) > 0 for a in tape['accs']))
    if exercised:
        shard.hist('loader_with_hits_for_own_accelerator', tape['loader'])
    # ---- in-class comparisons
    for gk, lst in results.items():
        if not lst:
            continue
        for pause in (1, 0):
            sub = [(c, r) for c, r in lst if c['pause'] == pause]
            if not sub:
                continue
            ref_c, ref = sub[0]
            for c, r in sub[1:]:
                shard.inc('monitor:inclass_comparisons')
                nontrivial = ref['loaded'] or r['loaded']
                shard.case((tape_hash, tape['polarity'], tape['first_edge'], tape['start'], cfg_key(c)), nontrivial)
                shard.hist('config', 'acc=%s/dec-a=%d/pause=%d/%s/fl=%d/cmio=%d' % ('named' if c['acc'] == tape['named'] else 'unrelated' if c['acc'] not in ('none', 'auto', 'list') else c['acc'],
                                                                                     c['dec_a'], c['pause'], 'py' if c['python'] else 'C', c['fast_load'], c['cmio']))
                d = state_diff(ref, r)
                if d:
                    finding = classify_inclass(tape, ref_c, ref, c, r)
                    shard.violation('%s tape (%s): [%s] and [%s] end differently: %s' % (tape['kind'], tape['desc'], describe_cfg(ref_c), describe_cfg(c), ', '.join(d[:8])),
                                    replay_dict(tape, ref_c, c, d[:8]), finding)
        # pause=1 reference against its pause=0 twin (same options otherwise)
        p1 = [(c, r) for c, r in lst if c['pause'] == 1]
        twin = None
        if p1:
            c1, r1 = p1[0]
            for c, r in lst:
                if c['pause'] == 0 and cfg_key(dict(c, pause=1)) == cfg_key(c1):
                    twin = (c, r)
                    break
        if twin:
            c0, r0 = twin
            shard.inc('monitor:pause_comparisons')
            shard.case((tape_hash, tape['polarity'], tape['first_edge'], tape['start'], 'pause', gk), r1['loaded'] or r0['loaded'])
            d = state_diff(r1, r0)
            if late_first_read(r0):
                shard.inc('observed:pause0_runs_with_late_first_read')
            if d:
                finding = None
                if confined_to_phase(tape, r1, r0) and late_first_read(r0) and not late_first_read(r1):
                    finding = F_PAUSE
                shard.violation('%s tape (%s): pausing the tape between blocks changes the result: [%s] vs [%s]: %s' % (
                    tape['kind'], tape['desc'], describe_cfg(c1), describe_cfg(c0), ', '.join(d[:8])), replay_dict(tape, c1, c0, d[:8]), finding)
    # ---- cross-class comparisons: loaded bytes, PC, SP
    base = results.get(('fl1', 'cmio0'))
    if base:
        bc, br = base[0]
        for gk, lst in results.items():
            if gk == ('fl1', 'cmio0') or not lst:
                continue
            c, r = lst[0]
            shard.inc('monitor:crossclass_comparisons')
            shard.case((tape_hash, tape['polarity'], tape['first_edge'], tape['start'], 'cross', gk), br['loaded'] or r['loaded'])
            d = weak_diff(tape, br, r)
            if d:
                finding = classify_cross(tape, bc, br, c, r, d)
                shard.violation('%s tape (%s): [%s] vs [%s]: %s (stop reasons: %s | %s)' % (tape['kind'], tape['desc'], describe_cfg(bc), describe_cfg(c), ', '.join(d),
                                                                                          br['stop'], r['stop']), replay_dict(tape, bc, c, d), finding)

def acc_active(tape, c):
    """Is an accelerator that matches this tape's sampling loop switched on in configuration c?"""
    return c['cmio'] == 0 and (c['acc'] in ('auto', 'list') or c['acc'] == tape['named'])

def classify_inclass(tape, ca, ra, cb, rb):
    """Mechanism predicates for in-class differences between two runs with the same pause value."""
    # C simulator refuses a negative first-edge (array('Q') of edge times), the Python simulator accepts it
    if tape['first_edge'] < 0 and ca['python'] != cb['python']:
        c_run, p_run = (ra, rb) if not ca['python'] else (rb, ra)
        if not c_run['ok'] and p_run['ok'] and "can't convert negative int to unsigned" in (c_run['run'].err + str(c_run['run'].exc)):
            return F_NEGEDGE
    # alkatraz family, wildcard bytes that fall through (NOPs): when the counter overflows, 'INC B' leaves Z set, the
    # skipped bytes are executed and the 'RET Z' after 'IN A,($FE): RRA' IS taken; the accelerator, entered at that very
    # IN, fast-forwards the loop instead. The two runs must differ in whether the loop's accelerator is active.
    if (tape['kind'] == 'custom' and tape['loader'] in ALKATRAZ_WILD and tape['desc']['fill'] == 'nop'
            and acc_active(tape, ca) != acc_active(tape, cb) and ra['ok'] and rb['ok']):
        return F_RETZ
    return None

def classify_cross(tape, ca, ra, cb, rb, d):
    """fast-load=0 without --start: the ROM loader's own port reads mark a 'custom loader', so the simulation stops at the
    very port read that reaches the end of the tape, inside LD-SAMPLE, instead of running on to the first RAM address."""
    if tape['start'] is None and ca['fast_load'] == 1 and cb['fast_load'] == 0 and rb['regs'] is not None:
        pc = rb['regs'][PC_IDX]
        if rb['stop'] == 'end of tape' and 0x0562 <= pc <= 0x05F3 and ra['stop'] == 'PC in RAM' and all(x.startswith(('PC(', 'SP(')) for x in d):
            return F_ROMSTOP
    return None

# ------------------------------------------------------------------ shard driver

def loader_order(seed):
    names = sorted(g.LOADERS)
    k = (seed * 7) % len(names)
    return names[k:] + names[:k]

def find_witness_tape(hooks, name, loader, force, ca, cb, tries=16):
    """The mechanisms below depend on where the CPU happens to be when a block begins or a counter overflows, which moves with
    every change of the generator: look (deterministically, C simulator only) for the first tape on which the two probe
    configurations differ."""
    import random
    tape = rng = None
    for t in range(tries):
        rng = random.Random('C13/witness/%s/%d' % (name, t))
        tape = make_custom(rng, loader, 'quick', force)
        if 'error' in tape:
            continue
        harness.write_file('tape.' + tape['ext'], tape['tape'])
        ra, rb = run_cfg(hooks, tape, ca, 'z80'), run_cfg(hooks, tape, cb, 'z80')
        if ra.get('watchdog') or rb.get('watchdog'):
            continue
        if (ra['loaded'] or rb['loaded']) and state_diff(ra, rb):
            break
    return tape, rng

def witness(shard, hooks, k):
    """Deterministic witnesses of the recorded mechanisms (one each for shards 0..4, before anything else)."""
    import random
    C = lambda acc, pause: {'acc': acc, 'dec_a': 0, 'pause': pause, 'python': 0, 'fast_load': 1, 'cmio': 0}
    if k == 0:
        # alkatraz-09 loop with NOP-filled wildcard bytes: a counter overflow does not end the search for an edge properly,
        # the loader drops into its wait loop, and the turbo block begins while the loader is not sampling
        tape, rng = find_witness_tape(hooks, 'pause', 'alkatraz-09', {'fill': 'nop', 'nblocks': 1, 'polarity': 0, 'first_edge': 0, 'use_start': True, 'splits': [None],
                                                                       'wait_delay': None, 'post_delay': None}, C('none', 1), C('none', 0))
        if tape and 'error' not in tape:
            check_tape(shard, hooks, tape, rng, 'w0', asan=True, only_groups=[('fl1', 'cmio0')])
    elif k == 1:
        # plain bin2tap tape without --start, fast-load 0 vs 1
        rng = random.Random('C13/witness/romstop')
        tape = make_bin2tap(rng, 'quick', {'polarity': 0, 'first_edge': 0, 'use_start': False})
        if 'error' not in tape:
            check_tape(shard, hooks, tape, rng, 'w1', asan=True)
    elif k == 2:
        # negative first-edge
        rng = random.Random('C13/witness/negedge')
        tape = make_custom(rng, 'rom', 'quick', {'nblocks': 1, 'polarity': 0, 'first_edge': -2168, 'use_start': True})
        if 'error' not in tape:
            check_tape(shard, hooks, tape, rng, 'w2', only_groups=[('fl1', 'cmio0')])
    elif k == 3:
        # alkatraz loop with NOP-filled wildcard bytes and a false start (silence while the tape is playing, so that the counter
        # overflows where the accelerator is active): accelerated vs not
        tape, rng = find_witness_tape(hooks, 'retz', 'alkatraz', {'fill': 'nop', 'nblocks': 1, 'polarity': 0, 'first_edge': 0, 'use_start': True, 'splits': [(200, 60)],
                                                                   'wait_delay': None, 'post_delay': None}, C('none', 1), C('auto', 1))
        if tape and 'error' not in tape:
            check_tape(shard, hooks, tape, rng, 'w3', asan=True, only_groups=[('fl1', 'cmio0')])
    elif k == 4:
        # software-projects loop (samples BEFORE it counts down) entered with a counter of 0 after a time-out
        rng = random.Random('C13/witness/deczero/15')
        tape = make_custom(rng, 'software-projects', 'quick', {'init_ctr': False, 'nblocks': 1, 'polarity': 0, 'first_edge': 0, 'use_start': True})
        if 'error' not in tape:
            check_deczero(shard, hooks, tape)

def check_deczero(shard, hooks, tape):
    harness.write_file('tape.' + tape['ext'], tape['tape'])
    C = lambda acc, py: {'acc': acc, 'dec_a': 3, 'pause': 1, 'python': py, 'fast_load': 1, 'cmio': 0}
    ref_c = C('none', 0)
    ref = run_cfg(hooks, tape, ref_c, 'z80')
    shard.inc('monitor:tap2sna_runs')
    if ref.get('watchdog') or not ref['loaded']:
        shard.skip('witness tape for the countdown accelerator does not load unaccelerated')
        return
    for c, child in ((C(tape['named'], 1), False), (C(tape['named'], 0), True)):
        res = run_cfg_child(tape, c, 'z80') if child else run_cfg(hooks, tape, c, 'z80')
        shard.inc('monitor:tap2sna_runs')
        if res.get('watchdog'):
            shard.note_inconclusive('wall-clock watchdog fired on the countdown-accelerator witness')
            continue
        shard.inc('monitor:inclass_comparisons')
        shard.case(('deczero', cfg_key(c)), True)
        if 'crashed' in res:
            shard.violation('custom tape (%s): [%s] kills the interpreter (exit status %s) while [%s] loads the tape: %s' % (
                tape['desc'], describe_cfg(c), res['crashed'], describe_cfg(ref_c), res['stderr'][-300:]), replay_dict(tape, ref_c, c, ['crash']), F_DECZERO)
            continue
        d = state_diff(ref, res)
        if d:
            shard.violation('custom tape (%s): [%s] and [%s] end differently: %s' % (tape['desc'], describe_cfg(ref_c), describe_cfg(c), ', '.join(d[:8])),
                            replay_dict(tape, ref_c, c, d[:8]), F_DECZERO)

def one_tape(shard, hooks, kind, nm, key, asan, sample=False, force=None):
    rng = shard.rng('tape', *key)
    tape = make_custom(rng, nm, shard.tier, force) if kind == 'custom' else make_bin2tap(rng, shard.tier)
    if 'error' in tape:
        shard.violation('tape construction failed: %s' % tape['error'], {'key': list(key)})
        return
    if sample:
        shard.sample(tape['desc'])
    check_tape(shard, hooks, tape, rng, key, asan=asan)

def run(shard, spec):
    hooks = Hooks()
    hooks.install()
    try:
        asan = bool(spec.get('asan'))
        names = loader_order(shard.seed)
        n, of = spec['shard'], spec['of']
        case = 0
        if not asan:
            if n < 5:
                witness(shard, hooks, n)
            # mandatory part (not subject to the soft budget): every loader shape once, shared out over the shards, and one bin2tap tape
            for j, nm in enumerate(names[n::of]):
                # (wildcard bytes get the working fill here, so that every accelerator is compared exactly at least once; the
                # boundary-value delay loops rotate through form x {0, 1, 2, 255} x position so that every run has them all)
                k = n + j * of
                vals = (0, 255, 1, 2)
                force = {'fill': 'ret', 'post_delay': (('jp', 'jr')[k % 2], vals[(k // 2) % 4], k % 3 == 0),
                         'wait_delay': (('jr', 'jp')[k % 2], vals[(k // 4) % 4], k % 3 == 1) if k % 4 < 2 else None}
                one_tape(shard, hooks, 'custom', nm, (n, 'm', nm), asan, sample=case == 0, force=force)
                case += 1
            one_tape(shard, hooks, 'bin2tap', None, (n, 'm', 'bin2tap'), asan, sample=True)
        # random tapes until the budget is used
        limit = 40 if shard.tier == 'quick' else 600
        while case < limit and not shard.out_of_time():
            rsel = shard.rng('select', n, case)
            kind = 'custom' if rsel.random() < 0.8 else 'bin2tap'
            one_tape(shard, hooks, kind, rsel.choice(names), (n, 'r', case), asan)
            case += 1
    finally:
        hooks.remove()

def finalize(agg, tier):
    c = agg['counters']
    h = agg['hists']
    probs = []
    if not c.get('monitor:state_captures'):
        probs.append('the get_state wrapper never fired: no simulator state was captured')
    if c.get('monitor:inclass_comparisons', 0) < 100:
        probs.append('fewer than 100 in-class comparisons were made')
    if not c.get('monitor:crossclass_comparisons'):
        probs.append('no fast-load/cmio comparison was made')
    sims = h.get('simulator', {})
    for cls in ('CSimulator', 'Simulator', 'CCMIOSimulator'):
        if not sims.get(cls):
            probs.append('no run used %s' % cls)
    if tier == 'thorough' and not sims.get('CMIOSimulator'):
        probs.append('no run used CMIOSimulator')
    exercised = len(h.get('loader_with_hits_for_own_accelerator', {}))
    need = 45 if tier == 'quick' else 50
    if exercised < need:
        probs.append('only %d loader shapes were both loaded and shown (accelerator=list) to hit their own accelerator (< %d)' % (exercised, need))
    bd = h.get('boundary_dec_a_delay(python runs with that form accelerated)', {})
    for key in ('post/jp/A=0', 'post/jr/A=0', 'wait/jp/A=0', 'wait/jr/A=0', 'post/jp/A=255', 'post/jr/A=255'):
        if not bd.get(key):
            probs.append('no Python-simulator run accelerated a DEC A delay loop of kind %s' % key)
    da = h.get('dec_a_hits(list)', {})
    if not da.get('jr') or not da.get('jp'):
        probs.append('the DEC A accelerator was not exercised in both forms (jr=%s jp=%s)' % (da.get('jr'), da.get('jp')))
    return probs

def replay(shard, rp):
    hooks = Hooks()
    hooks.install()
    try:
        ext = rp['ext']
        harness.write_file('tape.' + ext, harness.unb64(rp['tape_b64']))
        outs = []
        for argv in (rp['argv_a'], rp['argv_b']):
            rec = {'events': []}
            hooks.rec = rec
            r = harness.run_tool('tap2sna', list(argv) + ['tape.' + ext, 'o.z80'])
            hooks.rec = None
            outs.append((r, rec))
            print('tap2sna.py %s tape.%s o.z80' % (' '.join(argv), ext))
            print('  -> %s; registers %s' % ('ok' if r.ok else r.describe(), dict(zip(REG_NAMES, rec.get('regs') or []))))
        ra, rb = outs[0][1].get('regs'), outs[1][1].get('regs')
        if ra != rb or outs[0][1].get('ram') != outs[1][1].get('ram'):
            shard.violation('replayed pair still differs: %s' % rp.get('why'), rp)
    finally:
        hooks.remove()

TECHNIQUE = ('boundary recorder on tap2sna.main plus a wrapper on tap2sna.get_state that captures the simulator registers, T and RAM at the moment the simulated LOAD '
             'returns; differential comparison across the configuration matrix per tape')
LEVEL_TEXT = ('Each generated tape (bin2tap-made tapes and synthesised custom loaders around every recognised sampling-loop shape, with turbo blocks) is loaded by the real '
              'tap2sna.py under accelerator none/auto/list/named/unrelated x accelerate-dec-a 0..3 x pause 0/1 x C/Python x fast-load 0/1 x cmio 0/1; within a class '
              'the complete final state (RAM, 30 register slots incl. R and T, hardware state, snapshot file) must be identical, across fast-load/cmio the loaded bytes, '
              'PC and SP.')
LEVEL_NOTE = ('Tapes and Python-simulator configurations are sampled; accelerator=list hit counts in the evidence show which loop shapes had their fast-forward '
              'arithmetic executed. 128K machines and real-world tape images are not covered.')


if __name__ == '__main__':
    import sys
    if len(sys.argv) >= 4 and sys.argv[1] == 'child':
        sys.exit(child_main(sys.argv[2:]))
