"""C15 - image macros and sna2img render pixel-exact PNGs.

Monitors
  * L1 contract on PngWriter.write_image (class-level wrapper, so it sees every image written by any route:
    ImageWriter API, sna2img, skool2html): the bytes that reached the file object are decoded by the
    independent structural decoder vk.ref.c15_png (signature, chunk lengths, CRC-32, IHDR/PLTE/tRNS
    consistency, zlib stream length, APNG sequence numbers/regions).
  * Encoder-selection counter: counting wrappers on the seven `_build_image_data_*` methods and on
    `_build_image_data` (slot = bit depth x full size x masked).
  * Differential: whenever a specialised encoder was selected the same call is repeated with
    `png_method_dict` forced to the generic encoder; both files must decode to the same pixels.
Oracle
  * vk.ref.c15_render predicts every pixel (RGBA) of every frame from the tile array and the parameters
    (flip/rotate applied on the model side to the original tiles), and the flash frame.
Workloads
  api      Frame objects -> ImageWriter.write_image (bulk of the images)
  sna2img  sna2img.main on bin/scr/sna files with -e macros, -f -r -i -n -p -o -S -s
  html     skool2html.main on generated skool/ref files with #UDG #UDGARRAY #SCR #FONT #FRAMES macros
  frames   skool2html.main on generated skool files whose frames are modified by #COPY, #OVER and #PLOT before #FRAMES
           renders them; every pixel decided by vk.ref.c15_overlay (pixel-level model of the three macros) + c15_render;
           counting wrappers on graphics.overlay_udgs, Frame.copy and Frame.plot record what the real code was asked to do
"""
import io
import os
import shutil
import traceback

from vk import harness
from vk.gens import c15_imggen as G
from vk.gens import c15_macrogen as MG
from vk.gens import c15_framegen as FG
from vk.ref import c15_png, c15_render as R
from vk.ref import c15_overlay as OV

ID = 'C15'
NEEDS_C = False
LEVEL = 'exploration'
EXHAUSTIVE = False
TECHNIQUE = ('runtime monitoring: L1 structural PNG/APNG contract and encoder-selection counters wrapped around the real '
             'PngWriter, generic-vs-specialised differential, and an independent rendering reference model deciding every pixel; counting '
             'wrappers on overlay_udgs / Frame.copy / Frame.plot and a pixel-level reference model of #COPY, #OVER and #PLOT')
LEVEL_TEXT = 'exploration: held on the images observed (counts, encoder slots and parameter histograms are in the evidence)'
LEVEL_NOTE = ('random sampling of the tile-array/parameter space through three entry points; not exhaustive. The rendering model and the PNG '
              'decoder are written from the documentation/specifications and share no code with skoolkit.')
RULE = ('G-IMG: tile array 1..32 x 1..24 (tiny/medium/large/edge sizes) x attribute pool (1, 2, 3-4, 5-24 attributes, shared-colour pools, '
        'ink==paper) x data style (random, boundary bytes, blank, solid) x mask bytes (none/all/partial tiles; random, data, inverse) x mask type '
        '0/1/2 x scale 1..8 (bounded by a pixel budget) x crop (none, explicit full, random unaligned, tile/scale boundaries +-1, over-large, far '
        'origin) x flip 0..3 x rotate 0..3 x tindex 0..15 x alpha -1/0..255 x PNGAlpha x PNGEnableAnimation x compression level x default/custom '
        'colours x 1..4 frames with offsets; the same space driven through sna2img (-e macro, -f -r -i -n -p -o -S -s; bin/scr/sna input) and '
        'through skool2html (#UDG #UDGARRAY #SCR #FONT #FRAMES with positional/keyword parameters, address-range forms, attribute addresses, '
        'mask specs). Frames part: 2-4 scenarios per skool file, each 2-3 source frames (#UDG/#UDGARRAY/#SCR/#FONT with (*name), (img*name), (name*)) '
        'x 2-6 operations from #COPY (portion, scale 1..4, mask 0..2, tindex, alpha, CROP given/inherited) / #OVER (tile x,y from fully left/above to '
        'fully right/below incl. negative, xoffset/yoffset 0..7 and 8..19, rmode 0..3, foreground mask type 0/1/2 with mask bytes on all or no UDGs '
        'incl. types changed by #COPY, attr/byte expressions over $b $f $m with + - * % & | ^ << >>) / bursts of #PLOT (value 0/1/2/omitted, '
        'corners, lines, random pixels), each modified frame and every frame that took part (sources and foregrounds must stay unchanged) rendered '
        'by #FRAMES (single, and multi-frame with offsets). One case = one PNG file decoded and compared pixel by pixel (RGBA) with the model; '
        'non-trivial when the first frame shows >= 2 distinct colours; distinct by hash of the complete case description')
ASSUMPTIONS = [
    'flip is applied before rotate (the order in which every macro lists them and sna2img lists -f/-r); rotate n = n quarter turns clockwise',
    'a tile without mask bytes in a masked frame is rendered unmasked; mask bytes are ignored when the mask type is 0',
    'a crop rectangle larger than the image is clamped to it; width/height 0 or omitted mean "to the edge"; a crop origin outside the image '
    'is outside the precondition',
    'tindex makes palette entry tindex transparent (alpha as for masks) only when no visible pixel of any frame is transparent because of a mask; '
    'tindex/alpha of the first frame govern the whole image',
    'alpha 255 means the transparent colour is written opaque (its RGB is the TRANSPARENT colour); RGB values are those of the [Colours] documentation',
    'with animation enabled a single frame containing a visible flashing cell (ink != paper, some non-transparent pixel) yields exactly two APNG '
    'frames; the second, composed over the first (blend source), must equal the image with ink and paper exchanged in flashing cells; a larger '
    'than minimal flash rectangle is accepted',
    'in a multi-frame image flashing cells are static and every later frame lies inside the first (documented requirement, guaranteed by the generator)',
    'frame delays are not checked (not part of the statement)',
    'with sna2img, a macro crop specification is combined with -f/-r only when these are 0 (the interplay is undocumented)',
    '#OVER places the top-left pixel of the foreground at pixel (8*x+xoffset, 8*y+yoffset) of the background tile array; the part of the foreground '
    'outside the background is dropped; "each background UDG over which a foreground UDG is superimposed" is each background UDG whose 8x8 cell '
    'contains at least one foreground pixel; with rmode 0/1 background pixels of such a UDG that are not under the foreground keep their value; '
    'mask bytes, scale, crop, tindex and alpha of the background frame are not changed; "no mask" means mask type 0 or no mask bytes (OR)',
    'in a #OVER byte expression with pixel offsets that are not multiples of 8, $f is the byte formed by the foreground pixels lying over the '
    'background byte, 0 where there is no foreground pixel',
    '#PLOT coordinates are pixels of the tile array (not scaled), as in the documented example; #COPY without CROP takes over the numbers of the '
    "old frame's cropping specification as they are; a frame created with (name*) or (img*name) is written as it is at that point",
    'not generated, because the documentation does not define them: #PLOT outside the frame, on a frame cropped at the left/top, or with a value '
    'other than 0/1/2; a #COPY portion that leaves the old frame; #OVER of a frame on itself; negative xoffset/yoffset; a foreground with mask bytes '
    'on some UDGs only; $f in attr when foreground UDGs with different attributes meet one background UDG; $m for a background byte not wholly '
    'under masked foreground pixels, or with a mask-type-0 foreground that carries mask bytes; expression values outside 0..255; unparenthesised '
    'operator mixes; #UDGS',
]
MIN_NONTRIVIAL = {'quick': 2500, 'thorough': 60000}

ENCODERS = ('_build_image_data_bd_any', '_build_image_data_bd0', '_build_image_data_bd1_nt', '_build_image_data_bd1_at',
            '_build_image_data_bd2_nt', '_build_image_data_bd2_at', '_build_image_data_bd4_nt')
GENERIC = ENCODERS[0]

FINDING_FLASH = 'C15-flash-rect-crop-origin-beyond-size'
FINDING_FRAMES = 'C15-frames-bare-spec-inherits-offsets'
FINDING_OVER_M = 'C15-over-m-placeholder-255-in-padding-udgs'
FRAMES_SHARDS = 4

# ------------------------------------------------------------------ plan

def plan(tier, seed):
    quick = tier == 'quick'
    specs = []
    n_api = 12
    per = 1200 if quick else 25000
    for i in range(n_api):
        specs.append({'part': 'api', 'shard': i, 'count': per, 'timeout': 600 if quick else 6000, 'budget_s': 45 if quick else 1000})
    for i in range(2):
        specs.append({'part': 'sna2img', 'shard': i, 'count': 700 if quick else 15000, 'timeout': 600 if quick else 6000, 'budget_s': 45 if quick else 1000})
    for i in range(2):
        specs.append({'part': 'html', 'shard': i, 'count': 60 if quick else 2000, 'timeout': 600 if quick else 6000, 'budget_s': 45 if quick else 1000})
    for i in range(FRAMES_SHARDS):
        specs.append({'part': 'frames', 'shard': i, 'count': 45 if quick else 1500, 'timeout': 600 if quick else 6000, 'budget_s': 45 if quick else 1000})
    return specs

# ------------------------------------------------------------------ monitor

class Record:
    __slots__ = ('data', 'exc', 'tb', 'flash_rect', 'nframes', 'methods', 'problems', 'png', 'diff_problem', 'geometry')
    def __init__(self):
        self.data = b''
        self.exc = self.tb = None
        self.flash_rect = None
        self.nframes = 0
        self.methods = []
        self.problems = []
        self.png = None
        self.diff_problem = None
        self.geometry = None

class _Tee:
    def __init__(self, f):
        self._f = f
        self.buf = bytearray()

    def write(self, b):
        self.buf += b
        return self._f.write(b)

    def __getattr__(self, name):
        return getattr(self._f, name)

    def __enter__(self):
        return self

    def __exit__(self, *a):
        return self._f.__exit__(*a)

class Monitor:
    """Installed once per worker, before any ImageWriter/PngWriter instance exists."""
    def __init__(self, shard):
        self.shard = shard
        self.records = []
        self.active = None
        self.in_diff = False
        self.installed = False

    def install(self):
        if self.installed:
            return
        from skoolkit import pngwriter
        cls = pngwriter.PngWriter
        mon = self
        shard = self.shard

        def make_enc(name, orig):
            def enc(self_, frame, *a, **kw):
                if not mon.in_diff:
                    shard.inc('encoder:' + name)
                    if mon.active is not None:
                        mon.active.methods.append(name)
                return orig(self_, frame, *a, **kw)
            enc.__name__ = name
            return enc
        for name in ENCODERS:
            setattr(cls, name, make_enc(name, getattr(cls, name)))

        orig_bid = cls._build_image_data
        def build_image_data(self_, frame, palette_size, bit_depth, attr_map, flash_rect=None):
            if not mon.in_diff:
                try:
                    bd = 0 if palette_size == 1 else bit_depth
                    shard.hist('slot(bd,full,masked)', '%d,%d,%d' % (bd, int(not frame.cropped), int(bool(frame.mask and frame.has_masks))))
                except Exception:
                    pass
            return orig_bid(self_, frame, palette_size, bit_depth, attr_map, flash_rect)
        cls._build_image_data = build_image_data

        orig_write = cls.write_image
        def write_image(self_, frames, img_file, palette, attr_map, has_trans, flash_rect):
            if mon.in_diff:
                return orig_write(self_, frames, img_file, palette, attr_map, has_trans, flash_rect)
            rec = Record()
            rec.flash_rect = flash_rect
            rec.nframes = len(frames)
            try:
                f0 = frames[0]
                rec.geometry = (f0.x, f0.y, f0.width, f0.height, f0.full_width, f0.full_height, f0.scale)
            except Exception:
                pass
            tee = _Tee(img_file)
            mon.active = rec
            shard.inc('contract:write_image calls')
            try:
                orig_write(self_, frames, tee, palette, attr_map, has_trans, flash_rect)
            except Exception as e:
                rec.exc = '%s: %s' % (type(e).__name__, e)
                rec.tb = traceback.format_exc()
                rec.data = bytes(tee.buf)
                mon.active = None
                mon.records.append(rec)
                shard.inc('contract:write_image raised')
                raise
            mon.active = None
            rec.data = bytes(tee.buf)
            mon.records.append(rec)
            # L1 contract: structure of what was written
            rec.png = c15_png.decode(rec.data)
            rec.problems = list(rec.png.problems)
            shard.inc('contract:png structure evaluated')
            for name in set(rec.png.chunks):
                shard.inc('chunk:' + name, rec.png.chunks.count(name))
            # differential: same call, generic encoder forced
            special = sorted(set(m for m in rec.methods if m != GENERIC))
            if special and not os.environ.get('VERIF_C15_NODIFF'):   # (the switch exists only to validate the pixel oracle on its own)
                saved = self_.png_method_dict
                generic = getattr(self_, GENERIC)
                self_.png_method_dict = {bd: {fs: {m: generic for m in (0, 1)} for fs in (0, 1)} for bd in (0, 1, 2, 4)}
                buf = io.BytesIO()
                mon.in_diff = True
                try:
                    orig_write(self_, frames, buf, palette, attr_map, has_trans, flash_rect)
                    other = c15_png.decode(buf.getvalue())
                    rec.diff_problem = _compare_pngs(rec.png, other)
                except Exception as e:
                    rec.diff_problem = 'generic encoder raised %s: %s' % (type(e).__name__, e)
                finally:
                    mon.in_diff = False
                    self_.png_method_dict = saved
                for m in special:
                    shard.inc('differential:' + m)
                if rec.diff_problem:
                    rec.diff_problem = 'specialised %s vs generic: %s' % ('+'.join(special), rec.diff_problem)
            else:
                shard.inc('differential:not applicable (generic only)')
        cls.write_image = write_image
        self.installed = True

    def take(self):
        recs = self.records
        self.records = []
        return recs

def _compare_pngs(a, b):
    if b.problems:
        return 'generic output malformed: ' + '; '.join(b.problems[:3])
    if (a.width, a.height) != (b.width, b.height):
        return 'size %dx%d vs %dx%d' % (a.width, a.height, b.width, b.height)
    if len(a.frames) != len(b.frames):
        return '%d frames vs %d' % (len(a.frames), len(b.frames))
    for k, (fa, fb) in enumerate(zip(a.frames, b.frames)):
        if (fa.x, fa.y, fa.width, fa.height) != (fb.x, fb.y, fb.width, fb.height):
            return 'frame %d region differs' % k
        if fa.rows is None or fb.rows is None:
            return 'frame %d not decodable' % k
        pa, pb = a.palette, b.palette
        for y, (ra, rb) in enumerate(zip(fa.rows, fb.rows)):
            if ra != rb or pa != pb:
                for x in range(len(ra)):
                    ca = pa[ra[x]] if ra[x] < len(pa) else None
                    cb = pb[rb[x]] if rb[x] < len(pb) else None
                    if ca != cb:
                        return 'frame %d pixel (%d,%d): %s vs %s' % (k, x, y, ca, cb)
    return None

# ------------------------------------------------------------------ oracle

def _codes(rows, rgba_list, book):
    tbl = bytearray(256)
    for i in range(256):
        if i < len(rgba_list):
            tbl[i] = book.setdefault(tuple(rgba_list[i]), len(book))
        else:
            tbl[i] = 255
    tbl = bytes(tbl)
    cache = {}
    out = []
    for r in rows:
        k = id(r)
        c = cache.get(k)
        if c is None:
            c = cache[k] = r.translate(tbl)
        out.append(c)
    return out

def _first_diff(exp_rows, got_rows, exp_ids, got_idx, table, palette):
    for y, (e, g) in enumerate(zip(exp_rows, got_rows)):
        if e != g:
            for x in range(len(e)):
                if e[x] != g[x]:
                    gi = got_idx[y][x]
                    return 'pixel (%d,%d): expected colour %d %s, file has palette index %d %s' % (
                        x, y, exp_ids[y][x], table[exp_ids[y][x]], gi, palette[gi] if gi < len(palette) else None)
    return 'rows differ in number: expected %d, file has %d' % (len(exp_rows), len(got_rows))

def model_of_image(img):
    """Image spec (c15_imggen) -> model description used by oracle()."""
    frames = []
    for f in img['frames']:
        frames.append({'tiles': R.adjust(G.tiles_of(f), f['flip'], f['rotate']), 'scale': f['scale'], 'mask': f['mask'], 'crop': tuple(f['crop']),
                       'tindex': f['tindex'], 'alpha': f['alpha'], 'xo': f['xo'], 'yo': f['yo']})
    return {'frames': frames, 'anim': img['anim'], 'pngalpha': img['pngalpha'], 'rgb': img['rgb']}

def render_model(model):
    single = len(model['frames']) == 1
    out = []
    for f in model['frames']:
        out.append(R.render(f['tiles'], f['scale'], f['mask'], f['crop'], flash=bool(single and model['anim'])))
    return out

def oracle(model, rendered, data, rec=None):
    """Returns (problems, facts). problems: list of str (empty = pixel exact)."""
    facts = {}
    png = rec.png if rec is not None and rec.png is not None and rec.data == data else c15_png.decode(data)
    if png.problems:
        return ['malformed PNG: ' + '; '.join(png.problems[:4])], facts
    frames = model['frames']
    single = len(frames) == 1
    f0 = frames[0]
    has_trans = any(r.has_trans for r in rendered)
    alpha = model['pngalpha'] & 255 if f0['alpha'] < 0 else f0['alpha'] & 255
    rgb = [tuple(c) for c in model['rgb']] if model['rgb'] else R.DEFAULT_RGB
    table = R.rgba_table(rgb, has_trans, f0['tindex'], alpha)
    book = {}
    r0 = rendered[0]
    facts['depth'] = png.depth
    facts['frames'] = len(png.frames)
    if (png.width, png.height) != (r0.width, r0.height):
        return ['image is %d x %d, expected %d x %d' % (png.width, png.height, r0.width, r0.height)], facts
    if any(f.rows is None for f in png.frames):
        return ['a frame could not be decoded'], facts

    def cmp_rows(exp_ids, got_idx, what):
        e = _codes(exp_ids, table, book)
        g = _codes(got_idx, png.palette, book)
        if e != g:
            return '%s: %s' % (what, _first_diff(e, g, exp_ids, got_idx, table, png.palette))
        return None

    p = cmp_rows(r0.rows, png.frames[0].rows, 'frame 1')
    if p:
        return [p], facts
    if single:
        if not model['anim']:
            if png.animated or len(png.frames) != 1:
                return ['animation is disabled but the file is an APNG with %d frame(s)' % len(png.frames)], facts
            return [], facts
        if r0.flash_differs:
            facts['flash'] = True
            if not png.animated or len(png.frames) != 2:
                return ['flashing cells are visible (pixels %s change) but the file has %d frame(s), animated=%s' % (
                    r0.flash_box, len(png.frames), png.animated)], facts
        if len(png.frames) > 2:
            return ['single flashing frame produced %d APNG frames' % len(png.frames)], facts
        if len(png.frames) == 2:
            f2 = png.frames[1]
            if rec is not None and rec.flash_rect is not None:
                if tuple(rec.flash_rect) != (f2.x, f2.y, f2.width, f2.height):
                    return ['second frame region (%d,%d,%d,%d) is not the reported flash rectangle %s' % (
                        f2.x, f2.y, f2.width, f2.height, tuple(rec.flash_rect))], facts
            canv = c15_png.compose(png)
            p = cmp_rows(r0.rows2, canv[1], 'frame 2 composed over frame 1 (region %d,%d,%d,%d)' % (f2.x, f2.y, f2.width, f2.height))
            if p:
                return [p], facts
            facts['flash_checked'] = True
        return [], facts
    # multi-frame
    facts['multi'] = True
    if not png.animated or len(png.frames) != len(frames):
        return ['%d frames requested, file has %d (animated=%s)' % (len(frames), len(png.frames), png.animated)], facts
    for k in range(1, len(frames)):
        fk, rk, pk = frames[k], rendered[k], png.frames[k]
        if (pk.x, pk.y, pk.width, pk.height) != (fk['xo'], fk['yo'], rk.width, rk.height):
            facts['region_mismatch'] = (k, (pk.x, pk.y, pk.width, pk.height))
            return ['frame %d region is (%d,%d,%d,%d), expected (%d,%d,%d,%d)' % (
                k + 1, pk.x, pk.y, pk.width, pk.height, fk['xo'], fk['yo'], rk.width, rk.height)], facts
        p = cmp_rows(rk.rows, pk.rows, 'frame %d' % (k + 1))
        if p:
            return [p], facts
    return [], facts

def flash_defect_predicate(model, rendered):
    """Mechanism of the known defect: single animated frame whose crop origin exceeds the crop size in x or y
    (ImageWriter._get_colours starts the flash-rectangle minima at (width, height)), with a visible flashing cell."""
    if len(model['frames']) != 1 or not model['anim']:
        return False
    r0 = rendered[0]
    if r0 is None or not r0.flash_differs:
        return False
    f = model['frames'][0]
    rect = R.crop_rect(f['tiles'], f['scale'], f['crop'])
    x, y, w, h = rect
    return x > w or y > h

def judge(shard, key, model, data, recs, replay, sample=None, crash=None, ctx=''):
    """Common verdict for one image. recs: monitor records of the write_image calls made for it (normally one)."""
    rendered = render_model(model)
    if any(r is None for r in rendered):
        shard.skip('crop origin outside the image')
        return
    r0 = rendered[0]
    nontrivial = len(r0.colours) >= 2
    shard.case(key, nontrivial, sample)
    rec = recs[-1] if recs else None
    f0 = model['frames'][0]
    shard.hist('scale', f0['scale'])
    shard.hist('mask type', f0['mask'])
    shard.hist('frames', len(model['frames']))
    shard.hist('colours in frame 1', min(len(r0.colours), 9))
    if crash is not None:
        # mechanism: the reported flash rectangle has a negative offset (minima start at (width, height) instead of the crop's far corner);
        # PngWriter then dies either in _write_fctl_chunk (ValueError) or, earlier, while building frame 2 from cells outside the crop (KeyError)
        known = (flash_defect_predicate(model, rendered) and rec is not None and rec.flash_rect is not None and min(rec.flash_rect[:2]) < 0
                 and ('_write_fctl_chunk' in crash or '_build_image_data' in crash))
        shard.violation('%simage writer crashed: %s' % (ctx, crash.strip().splitlines()[-1] if crash.strip() else crash) +
                        (' [reported flash rectangle %s]' % (tuple(rec.flash_rect),) if rec is not None and rec.flash_rect else ''),
                        replay, finding=FINDING_FLASH if known else None)
        return
    # Mechanism of the #FRAMES finding: a frame specification without a parameter list ("name") that follows one with non-zero x,y is
    # rendered at those coordinates instead of the documented default (0,0) (skoolmacro._parse_frame_specs keeps x,y between specs).
    inherited = model.get('inherited') or []
    triggered = [k for k, v in enumerate(inherited) if v]
    if rec is not None:
        if rec.problems:
            if triggered and all('fcTL region' in p and 'is not inside' in p for p in rec.problems):
                shard.violation('%s#FRAMES frame without parameters placed at the previous frame\'s offsets, outside the first frame: %s | %s' % (
                    ctx, rec.problems[0], model.get('macro', '')), replay, finding=FINDING_FRAMES)
                return
            shard.violation('%sL1 contract: malformed PNG written: %s' % (ctx, '; '.join(rec.problems[:4])), replay)
            return
        if rec.diff_problem:
            shard.violation(ctx + rec.diff_problem, replay)
            return
    problems, facts = oracle(model, rendered, data, rec)
    if problems and triggered and facts.get('region_mismatch'):
        k, region = facts['region_mismatch']
        if k in triggered and tuple(region[:2]) == tuple(inherited[k]):
            shard.violation('%s#FRAMES frame %d has no parameters but is placed at (%d,%d), the offsets of the previous frame specification, instead of '
                            '(0,0): %s' % (ctx, k + 1, region[0], region[1], model.get('macro', '')), replay, finding=FINDING_FRAMES)
            # judge everything else with the offsets the tool used
            patched = dict(model, frames=[dict(f, xo=inherited[i][0], yo=inherited[i][1]) if i in triggered else f
                                          for i, f in enumerate(model['frames'])])
            problems, facts = oracle(patched, rendered, data, rec)
    shard.inc('oracle:images compared pixel by pixel')
    if facts.get('depth') is not None:
        shard.hist('bit depth', facts['depth'])
    if facts.get('flash_checked'):
        shard.inc('oracle:flash second frames compared')
    if facts.get('multi') and not problems:
        shard.inc('oracle:multi-frame images compared')
    if r0.has_trans:
        shard.inc('oracle:images with mask transparency')
    if problems:
        shard.violation(ctx + problems[0], replay)

# ------------------------------------------------------------------ part: api

def _build_frames(img):
    from skoolkit.graphics import Udg, Frame, adjust_udgs
    frames = []
    for f in img['frames']:
        tiles = G.tiles_of(f)
        udgs = [[Udg(a, list(d), list(m) if m is not None else None) for a, d, m in row] for row in tiles]
        adjust_udgs(udgs, f['flip'], f['rotate'])
        x, y, w, h = f['crop']
        frames.append(Frame(udgs, f['scale'], f['mask'], x, y, w, h, delay=f['delay'], tindex=f['tindex'], alpha=f['alpha'],
                            x_offset=f['xo'], y_offset=f['yo']))
    return frames

def eval_api_case(shard, mon, img, key, sample=None):
    from skoolkit.image import ImageWriter
    config = {'PNGEnableAnimation': img['anim'], 'PNGAlpha': img['pngalpha'], 'PNGCompressionLevel': img['level']}
    palette = None
    if img['rgb']:
        palette = {name: tuple(c) for name, c in zip(R.COLOUR_NAMES, img['rgb'])}
    model = model_of_image(img)
    replay = {'part': 'api', 'img': img}
    for f in img['frames']:
        shard.hist('flip,rotate', '%d,%d' % (f['flip'], f['rotate']))
        x, y, w, h = f['crop']
        shard.hist('crop', 'none' if (x, y, w, h) == (0, 0, None, None) else 'given')
    mon.take()
    buf = io.BytesIO()
    crash = None
    try:
        frames = _build_frames(img)
        ImageWriter(config, palette).write_image(frames, buf)
    except Exception:
        crash = traceback.format_exc()
    recs = mon.take()
    judge(shard, key, model, buf.getvalue(), recs, replay, sample, crash)

def run_api(shard, spec):
    mon = Monitor(shard)
    mon.install()
    for i in range(spec['count']):
        if shard.out_of_time():
            shard.inc('budget:api shard stopped early')
            break
        rng = shard.rng('api', spec['shard'], i)
        img = G.gen_directed(rng, i // 12) if i % 12 == 11 else G.gen_image(rng, big=(i % 20 == 19))
        eval_api_case(shard, mon, img, ('api', spec['shard'], i, harness.h64(img)), sample=G.summary(img) if i < 1 else None)

# ------------------------------------------------------------------ part: sna2img

def _small_frame(rng, kind):
    """Frame spec of a size suitable for a macro."""
    f = G.gen_frame(rng, 60000, dims_kind=rng.choice(('tiny', 'tiny', 'medium')))
    return f

def _refit_crop(rng, f):
    """Regenerate the crop of a frame spec after its dimensions/rotation were changed."""
    ocols, orows = (f['rows'], f['cols']) if f['rotate'] & 1 else (f['cols'], f['rows'])
    f['crop'] = G._crop(rng, 8 * ocols * f['scale'], 8 * orows * f['scale'], f['scale'])

def make_macro_case(rng, mem, kinds=('UDG', 'UDGARRAY', 'SCR', 'FONT'), scr_default=False, max_third=3):
    """Returns (macro name, text after the name, model frame dict without offsets)."""
    kind = rng.choice(kinds)
    f = _small_frame(rng, kind)
    if kind == 'UDG':
        f['cols'] = f['rows'] = 1
        f['tiles'] = f['tiles'][:1]
        f['scale'] = rng.randint(1, 8)
        _refit_crop(rng, f)
        text, tiles = MG.udg_macro(rng, mem, f)
    elif kind == 'UDGARRAY':
        text, tiles = MG.udgarray_macro(rng, mem, f)
    elif kind == 'SCR':
        f['flip'] = f['rotate'] = 0
        f['mask'] = 0
        f['rows'] = min(f['rows'], 8 * max_third)
        f['tiles'] = [[a, d, None] for a, d, m in f['tiles'][:f['cols'] * f['rows']]]
        _refit_crop(rng, f)
        text, tiles, _ = MG.scr_macro(rng, mem, f, default_addresses=scr_default, max_third=max_third)
    else:
        f['flip'] = f['rotate'] = 0
        f['mask'] = 0
        f['rows'] = 1
        attr = f['tiles'][0][0]
        f['tiles'] = [[attr, d, None] for a, d, m in f['tiles'][:f['cols']]]
        _refit_crop(rng, f)
        text, tiles = MG.font_macro(rng, mem, f)
    model_frame = {'tiles': R.adjust(tiles, f['flip'], f['rotate']), 'scale': f['scale'], 'mask': f['mask'], 'crop': tuple(f['crop']),
                   'tindex': f['tindex'], 'alpha': f['alpha'], 'xo': 0, 'yo': 0}
    return kind, text, model_frame, f

def _apply_poke(mem, spec):
    addr, val = spec.split(',', 1)
    parts = [int(p) for p in addr.split('-')]
    a = parts[0]
    b = parts[1] if len(parts) > 1 else a
    c = parts[2] if len(parts) > 2 else 1
    for n in range(a, b + 1, c):
        if val[0] == '^':
            mem[n] ^= int(val[1:])
        elif val[0] == '+':
            mem[n] = (mem[n] + int(val[1:])) & 255
        else:
            mem[n] = int(val)

def make_sna2img_case(rng):
    """Returns dict: argv (without file names), infile name, file bytes, model."""
    mode = rng.choices(('macro', 'screen'), (75, 25))[0]
    ftype = rng.choice(('bin', 'binorg', 'sna', 'scr'))
    if ftype == 'scr':
        mode = rng.choice(('screen', 'scrmacro'))
    mem = MG.Mem(rng, 24000 if ftype != 'binorg' else 30000)
    argv = []
    anim = 1
    if mode == 'macro':
        kind, text, mf, f = make_macro_case(rng, mem, scr_default=False)
        macro = rng.choice(('#', '')) + kind + text
    elif mode == 'scrmacro':
        kind, text, mf, f = make_macro_case(rng, mem, kinds=('SCR',), scr_default=True)
        macro = rng.choice(('#', '')) + kind + text
    else:
        # plain screenshot: -o X,Y -S WxH -s SCALE
        f = G.gen_frame(rng, 100000, dims_kind=rng.choice(('tiny', 'medium', 'large', 'edge')))
        f['flip'] = f['rotate'] = 0
        f['mask'] = 0
        f['crop'] = [0, 0, None, None]
        f['tindex'], f['alpha'] = 0, -1
        f['tiles'] = [[a, d, None] for a, d, m in f['tiles']]
        _, tiles, (x, y) = MG.scr_macro(rng, mem, f, default_addresses=True)
        macro = None
        if (x, y) != (0, 0) or rng.random() < 0.3:
            argv += ['-o', '%d,%d' % (x, y)]
        w = f['cols'] if x + f['cols'] < 32 else rng.choice((f['cols'], 32))
        h = f['rows'] if y + f['rows'] < 24 else rng.choice((f['rows'], 24))
        if (x + w, y + h) != (32, 24) or rng.random() < 0.5:
            argv += ['-S', '%dx%d' % (w, h)]
        elif (w, h) != (32, 24):
            pass
        if f['scale'] != 1 or rng.random() < 0.3:
            argv += ['-s', str(f['scale'])]
        mf = {'tiles': tiles, 'scale': f['scale'], 'mask': 0, 'crop': (0, 0, None, None), 'tindex': 0, 'alpha': -1, 'xo': 0, 'yo': 0}
    if macro is not None:
        argv += ['-e', macro]
    # pokes applied by the tool before the image is built: store a different value, let the tool restore it
    pokes = []
    if rng.random() < 0.3 and mem.top > mem.base:
        for _ in range(rng.randint(1, 3)):
            a = rng.randrange(mem.base, mem.top)
            form = rng.choice(('set', 'xor', 'add', 'range'))
            if form == 'set':
                want = mem.mem[a]
                mem.mem[a] = rng.randrange(256)
                pokes.append(('%d,%d' % (a, want), None))
            elif form == 'xor':
                v = rng.randrange(1, 256)
                mem.mem[a] ^= v
                pokes.append(('%d,^%d' % (a, v), None))
            elif form == 'add':
                v = rng.randrange(1, 256)
                mem.mem[a] = (mem.mem[a] - v) & 255
                pokes.append(('%d,+%d' % (a, v), None))
            else:
                step = rng.choice((1, 2, 8))
                b = min(mem.top - 1, a + step * rng.randint(0, 6))
                b = a + ((b - a) // step) * step
                v = rng.randrange(1, 256)
                for n in range(a, b + 1, step):
                    mem.mem[n] ^= v
                pokes.append(('%d-%d-%d,^%d' % (a, b, step, v) if step > 1 or rng.random() < 0.5 else '%d-%d,^%d' % (a, b, v), None))
        for p, _ in reversed(pokes):     # the tool must undo the distortions in reverse order
            argv += ['-p', p]
    # flip / rotate / invert / no-animation options
    has_crop = tuple(mf['crop']) != (0, 0, None, None)
    of = orot = 0
    if not has_crop and rng.random() < 0.5:
        of = rng.randrange(4)
        orot = rng.randrange(4)
        if of or rng.random() < 0.2:
            argv += ['-f', str(of)]
        if orot or rng.random() < 0.2:
            argv += ['-r', str(orot)]
    invert = rng.random() < 0.25
    if invert:
        argv.append(rng.choice(('-i', '--invert')))
    if rng.random() < 0.25:
        argv.append(rng.choice(('-n', '--no-animation')))
        anim = 0
    tiles = mf['tiles']
    if invert:
        tiles = [[((a & 127, [b ^ 255 for b in d], m) if a & 128 else (a, d, m)) for a, d, m in row] for row in tiles]
    mf['tiles'] = R.adjust(tiles, of, orot)
    # input file
    image = bytes(mem.mem)
    if ftype == 'bin':
        fname, data = 'mem.bin', image
        argv = ['-B'] + argv if rng.random() < 0.7 else ['-O', '0'] + argv
    elif ftype == 'binorg':
        org = rng.choice((16384, 23296, 24000))
        fname, data = 'part.bin', image[org:]
        argv = ['-O', str(org)] + argv
        if org > 16384 and mode != 'macro':
            # the display file would not be in the file: fall back to a full image
            fname, data = 'mem.bin', image
            argv = ['-B'] + argv[2:]
    elif ftype == 'sna':
        fname, data = 'snap.sna', bytes(27) + image[16384:]
    else:
        fname, data = 'screen.scr', image[16384:23296]
    model = {'frames': [mf], 'anim': anim, 'pngalpha': 255, 'rgb': None}
    return {'argv': argv, 'fname': fname, 'data': data, 'model': model, 'mode': mode, 'ftype': ftype}

def eval_sna2img_case(shard, mon, case, key, replay, sample=None):
    harness.write_file(case['fname'], case['data'])
    out = 'out.png'
    if os.path.exists(out):
        os.remove(out)
    mon.take()
    argv = list(case['argv']) + [case['fname'], out]
    res = harness.run_tool('sna2img', argv)
    recs = mon.take()
    shard.hist('sna2img mode', case['mode'] + '/' + case['ftype'])
    crash = None
    data = b''
    if res.exc is not None:
        crash = res.tb
    elif not res.ok:
        # the generator only emits documented, valid invocations: a refusal is a violation of "any array ... renders"
        rendered = render_model(case['model'])
        if any(r is None for r in rendered):
            shard.skip('crop origin outside the image')
            return
        shard.case(key, True, sample)
        shard.violation('sna2img %s failed: %s' % (' '.join(argv), res.describe()), replay)
        return
    else:
        try:
            data = harness.read_file(out)
        except OSError:
            shard.case(key, True, sample)
            shard.violation('sna2img %s wrote no file' % ' '.join(argv), replay)
            return
        if recs and recs[-1].data != data:
            shard.case(key, True, sample)
            shard.violation('sna2img: file content differs from the bytes PngWriter wrote (%d vs %d bytes)' % (len(data), len(recs[-1].data)), replay)
            return
    judge(shard, key, case['model'], data, recs, replay, sample, crash, ctx='sna2img %s: ' % ' '.join(case['argv']))

def run_sna2img(shard, spec):
    mon = Monitor(shard)
    mon.install()
    for i in range(spec['count']):
        if shard.out_of_time():
            shard.inc('budget:sna2img shard stopped early')
            break
        rng = shard.rng('sna2img', spec['shard'], i)
        try:
            case = make_sna2img_case(rng)
        except MemoryError:
            shard.skip('generator: address space exhausted')
            continue
        replay = {'part': 'sna2img', 'shard': spec['shard'], 'i': i}
        eval_sna2img_case(shard, mon, case, ('sna2img', spec['shard'], i, harness.h64([case['argv'], harness.h64(case['data'])])), replay,
                          sample='sna2img ' + ' '.join(case['argv']) if i < 1 else None)

# ------------------------------------------------------------------ part: html

def _known_crash_shape(mf):
    model = {'frames': [mf], 'anim': 1, 'pngalpha': 255, 'rgb': None}
    return flash_defect_predicate(model, render_model(model))

def make_html_case(rng):
    """One skool file + ref file with several image macros. Returns dict(skool, ref, images=[(fname, model)], ...)."""
    mem = MG.Mem(rng, 32768, 65000, random_fill=True)
    anim = rng.choices((1, 0), (75, 25))[0]
    pngalpha = rng.choice((255, 255, 0, 77))
    rgb = None
    if rng.random() < 0.25:
        rgb = [[rng.randrange(256) for _ in range(3)] for _ in range(16)]
    lines = []
    images = []
    n = rng.randint(4, 9)
    for j in range(n):
        if mem.room() < 9000:
            break
        kind, text, mf, f = make_macro_case(rng, mem, max_third=1)
        if anim and _known_crash_shape(mf):
            # a crash aborts the whole skool2html run and would hide the other images; this mechanism is exercised by the api and sna2img parts
            continue
        name = 'img%d' % j
        lines.append('#%s%s(%s)' % (kind, text, name if rng.random() < 0.7 else name + '.png'))
        images.append((name + '.png', {'frames': [mf], 'anim': anim, 'pngalpha': pngalpha, 'rgb': rgb}, kind))
    # multi-frame images built with #FRAMES
    for j in range(rng.randint(0, 2)):
        if mem.room() < 12000:
            break
        nf = rng.randint(2, 3)
        frames = []
        specs = []
        W0 = H0 = None
        ok = True
        leaked = (0, 0)      # x,y of the last frame spec that had a parameter list
        inherited = []
        for k in range(nf):
            for attempt in range(6):
                kind, text, mf, f = make_macro_case(rng, mem, kinds=('UDG', 'UDGARRAY', 'FONT'))
                r = R.render(mf['tiles'], mf['scale'], mf['mask'], mf['crop'], flash=False)
                if k == 0 or (r.width <= W0 and r.height <= H0):
                    break
            else:
                ok = False
                break
            if k == 0:
                W0, H0 = r.width, r.height
            fname = 'f%d_%d' % (j, k)
            lines.append('#%s%s(*%s)' % (kind, text, fname))
            delay = rng.choice((None, 10, 300))
            if k:
                mf['xo'] = rng.choice((0, W0 - r.width, rng.randint(0, W0 - r.width)))
                mf['yo'] = rng.choice((0, H0 - r.height, rng.randint(0, H0 - r.height)))
            s = fname
            if delay is not None or mf['xo'] or mf['yo'] or rng.random() < 0.2:
                s += ',%s' % ('' if delay is None else delay)
                if mf['xo'] or mf['yo'] or rng.random() < 0.3:
                    s += ',%d,%d' % (mf['xo'], mf['yo'])
            if ',' in s:
                leaked = (mf['xo'], mf['yo']) if s.count(',') >= 3 else (0, 0)
                inherited.append(None)
            else:
                inherited.append(leaked if leaked != (0, 0) else None)
            specs.append(s)
            frames.append(mf)
        if not ok or len(frames) < 2:
            continue
        name = 'anim%d' % j
        lines.append('#FRAMES(%s)(%s)' % (';'.join(specs), name))
        images.append((name + '.png', {'frames': frames, 'anim': anim, 'pngalpha': pngalpha, 'rgb': rgb, 'inherited': inherited,
                                       'macro': lines[-1]}, 'FRAMES'))
    top = mem.top
    skool = ['; Graphics', ';', '; ' + lines[0] if lines else '; .']
    for l in lines[1:]:
        skool.append('; .')
        skool.append('; ' + l)
    first = True
    for a in range(32768, top, 16):
        chunk = mem.mem[a:min(a + 16, top)]
        skool.append('%s%05d DEFB %s' % ('b' if first else ' ', a, ','.join(str(b) for b in chunk)))
        first = False
    skool.append('')
    ref = ['[ImageWriter]', 'PNGEnableAnimation=%d' % anim, 'PNGAlpha=%d' % pngalpha]
    if rgb:
        ref.append('[Colours]')
        for name, c in zip(R.COLOUR_NAMES, rgb):
            if rng.random() < 0.5:
                ref.append('%s=%d,%d,%d' % (name, c[0], c[1], c[2]))
            else:
                ref.append('%s=#%02x%02x%02x' % (name, c[0], c[1], c[2]))
    ref.append('')
    return {'skool': '\n'.join(skool), 'ref': '\n'.join(ref), 'images': images, 'macros': lines}

def _find(root, fname):
    hits = []
    for d, _, files in os.walk(root):
        if fname in files:
            hits.append(os.path.join(d, fname))
    return hits

def eval_html_case(shard, mon, case, keybase, replay, sample=None):
    shutil.rmtree('c15html', ignore_errors=True)
    os.makedirs('c15html')
    harness.write_file('c15html/game.skool', case['skool'])
    harness.write_file('c15html/game.ref', case['ref'])
    mon.take()
    res = harness.run_tool('skool2html', ['-q', '-d', 'c15html/out', 'c15html/game.skool'])
    recs = mon.take()
    shard.inc('html:skool2html runs')
    if not res.ok:
        # Which image was being written? Attribute the failure to it if the writer raised, otherwise it is a refusal of a valid macro.
        crashed = [r for r in recs if r.exc]
        if crashed and len(recs) <= len(case['images']):
            fname, model, kind = case['images'][len(recs) - 1]
            judge(shard, keybase + (fname,), model, b'', recs[-1:], dict(replay, image=fname), sample,
                  crash=crashed[-1].tb, ctx='skool2html #%s -> %s: ' % (kind, fname))
            return
        shard.case(keybase, True, sample)
        shard.violation('skool2html failed on generated image macros: %s\nmacros: %s' % (res.describe(), ' | '.join(case['macros'])[:1200]), replay)
        return
    by_data = {}
    for r in recs:
        by_data.setdefault(r.data, r)
    for fname, model, kind in case['images']:
        shard.hist('html macro', kind)
        hits = _find('c15html/out', fname)
        key = keybase + (fname,)
        if len(hits) != 1:
            shard.case(key, True, None)
            shard.violation('skool2html: %d files named %s were written for macro kind %s' % (len(hits), fname, kind), dict(replay, image=fname))
            continue
        data = harness.read_file(hits[0])
        rec = by_data.get(data)
        if rec is None:
            shard.case(key, True, None)
            shard.violation('skool2html: %s does not contain the bytes PngWriter wrote' % fname, dict(replay, image=fname))
            continue
        judge(shard, key, model, data, [rec], dict(replay, image=fname), sample, None, ctx='skool2html #%s -> %s: ' % (kind, fname))
        sample = None

def run_html(shard, spec):
    mon = Monitor(shard)
    mon.install()
    for i in range(spec['count']):
        if shard.out_of_time():
            shard.inc('budget:html shard stopped early')
            break
        rng = shard.rng('html', spec['shard'], i)
        try:
            case = make_html_case(rng)
        except MemoryError:
            shard.skip('generator: address space exhausted')
            continue
        replay = {'part': 'html', 'shard': spec['shard'], 'i': i}
        eval_html_case(shard, mon, case, ('html', spec['shard'], i), replay, sample=' | '.join(case['macros'])[:300] if i < 1 else None)

# ------------------------------------------------------------------ part: frames (#COPY, #OVER, #PLOT, rendered by #FRAMES)

_frame_monitors = {'installed': False}

def install_frame_monitors(shard):
    """Counting wrappers on the real frame-manipulation code (what was it asked to do, and how often)."""
    if _frame_monitors['installed']:
        return
    from skoolkit import graphics
    orig_over = graphics.overlay_udgs
    def overlay_udgs(bg, fg, x, y, mask=0, rattr=None, rbyte=None):
        try:
            shard.inc('observed:overlay_udgs calls')
            shard.hist('observed:over_rmode', (1 if rattr else 0) | (2 if rbyte else 0))
            shard.hist('observed:over pixel shift (x,y not multiple of 8)', '%d,%d' % (int(x & 7 != 0), int(y & 7 != 0)))
            has = any(u.mask is not None for row in fg for u in row)
            shard.hist('observed:over foreground (mask type,mask bytes)', '%d,%s' % (mask, 'yes' if has else 'no'))
            bw, bh, fw, fh = 8 * len(bg[0]), 8 * len(bg), 8 * len(fg[0]), 8 * len(fg)
            if x >= bw or y >= bh or x + fw <= 0 or y + fh <= 0:
                where = 'no overlap'
            elif x < 0 or y < 0 or x + fw > bw or y + fh > bh:
                where = 'clipped' + (' left/top' if x < 0 or y < 0 else '') + (' right/bottom' if x + fw > bw or y + fh > bh else '')
            else:
                where = 'inside'
            shard.hist('observed:over placement', where)
        except Exception:
            shard.inc('observed:wrapper bookkeeping failed')
        return orig_over(bg, fg, x, y, mask, rattr, rbyte)
    graphics.overlay_udgs = overlay_udgs
    orig_copy = graphics.Frame.copy
    def copy(self_, *a, **kw):
        shard.inc('observed:Frame.copy calls')
        return orig_copy(self_, *a, **kw)
    graphics.Frame.copy = copy
    orig_plot = graphics.Frame.plot
    def plot(self_, x, y, value):
        shard.hist('observed:plot value', value)
        return orig_plot(self_, x, y, value)
    graphics.Frame.plot = plot
    orig_ucopy = graphics.Udg.copy
    def ucopy(self_):
        shard.inc('observed:Udg.copy calls')
        return orig_ucopy(self_)
    graphics.Udg.copy = ucopy
    _frame_monitors['installed'] = True

def _model_frame(fr, xo=0, yo=0):
    return {'tiles': OV.render_tiles(fr), 'scale': fr['scale'], 'mask': fr['mask'], 'crop': tuple(fr['crop']), 'tindex': fr['tindex'],
            'alpha': fr['alpha'], 'xo': xo, 'yo': yo}

def _skool_text(lines, mem):
    skool = ['; Graphics', ';', '; ' + lines[0] if lines else '; .']
    for l in lines[1:]:
        skool.append('; .')
        skool.append('; ' + l)
    first = True
    for a in range(32768, mem.top, 16):
        chunk = mem.mem[a:min(a + 16, mem.top)]
        skool.append('%s%05d DEFB %s' % ('b' if first else ' ', a, ','.join(str(b) for b in chunk)))
        first = False
    if first:
        skool.append('b32768 DEFB 0')
    skool.append('')
    return '\n'.join(skool)

def _pad_mask_rule(fg, xoffset, yoffset):
    """Mechanism of FINDING_OVER_M as an $m override for vk.ref.c15_overlay.over (classification only): with a foreground that has no
    mask bytes and a pixel offset that is not a multiple of 8, $m is 255 instead of 0 in the extra column / row of background UDGs that the
    shifted foreground reaches (overlay_udgs pads the shifted foreground with UDGs that carry an all-ones mask)."""
    if FG.presence(fg) != 'none' or (xoffset % 8 == 0 and yoffset % 8 == 0):
        return None
    fcols, frows = FG.dims(fg)
    def rule(col, row):
        if (xoffset % 8 and col == fcols) or (yoffset % 8 and row == frows):
            return 255
        return None
    return rule

def make_frames_case(rng):
    """One skool file: scenarios of source frames -> #COPY/#OVER/#PLOT -> #FRAMES. Returns dict(skool, ref, images, macros, events).
    images: (file name, model, kind, info); the model of a rendered frame is what vk.ref.c15_overlay holds at that point.
    A second set of frames ('alt') follows the mechanism of FINDING_OVER_M; it is used only to classify a mismatch."""
    mem = MG.Mem(rng, 32768, 65000, random_fill=True)
    anim = rng.choices((1, 0), (75, 25))[0]
    pngalpha = rng.choice((255, 255, 0, 77))
    rgb = None
    if rng.random() < 0.25:
        rgb = [[rng.randrange(256) for _ in range(3)] for _ in range(16)]
    lines, images, events = [], [], []

    def image_model(mfs, **extra):
        d = {'frames': mfs, 'anim': anim, 'pngalpha': pngalpha, 'rgb': rgb}
        d.update(extra)
        return d

    def undefined(e):
        events.append(('inc', 'generator:operation outside the documented domain, not emitted (%s)' % str(e)[:70], None))

    for s in range(rng.randint(2, 4)):
        if mem.room() < 9000:
            break
        frames, alt, hist, version, shown = {}, {}, {}, {}, {}
        start = len(lines)
        nimg = [0]

        def emit_render(name=None, multi=False):
            op = FG.gen_render(rng, frames, 'o%d_%d' % (s, nimg[0]), name=name, multi=multi)
            if op is None:
                return
            mfs = [_model_frame(frames[n], xo, yo) for n, xo, yo in op['frames']]
            if len(mfs) == 1 and anim and _known_crash_shape(mfs[0]):
                return
            nimg[0] += 1
            lines.append(op['text'])
            ops = [h for n, _, _ in op['frames'] for h in hist[n]]
            info = {'ops': sorted({h[0] for h in ops}), 'rmodes': sorted({h[1] for h in ops if h[0] == 'over'}),
                    'plots': sorted({h[1] for h in ops if h[0] == 'plot'}), 'macros': ' | '.join(lines[start:]), 'alt': None}
            if any(alt[n] is not None and OV.snapshot(alt[n]) != OV.snapshot(frames[n]) for n, _, _ in op['frames']):
                info['alt'] = image_model([_model_frame(alt[n] if alt[n] is not None else frames[n], xo, yo) for n, xo, yo in op['frames']])
            images.append((op['fname'] + '.png', image_model(mfs, macro=op['text']), 'FRAMES' if len(mfs) > 1 else 'FRAMES1', info))
            for n, _, _ in op['frames']:
                shown[n] = version[n]

        # source frames
        for k in range(rng.randint(2, 3)):
            if mem.room() < 6000:
                break
            kinds = ('UDGARRAY', 'UDGARRAY', 'SCR') if k == 0 else ('UDG', 'UDGARRAY', 'UDGARRAY', 'SCR', 'FONT')
            for attempt in range(3):
                kind, text, mf, f = make_macro_case(rng, mem, kinds=kinds, max_third=1)
                if k or (len(mf['tiles']) >= 2 and len(mf['tiles'][0]) >= 2) or mem.room() < 9000:
                    break
            name = 's%d_%d' % (s, k)
            form = rng.choices(('frame', 'both', 'same'), (80, 10, 10))[0]
            single = image_model([dict(mf)])
            if form != 'frame' and ((anim and _known_crash_shape(mf)) or R.crop_rect(mf['tiles'], mf['scale'], mf['crop']) is None):
                form = 'frame'
            if form == 'frame':
                lines.append('#%s%s(*%s)' % (kind, text, name))
            elif form == 'both':
                lines.append('#%s%s(i%s*%s)' % (kind, text, name, name))
                images.append(('i%s.png' % name, single, kind, {'ops': [], 'rmodes': [], 'plots': [], 'macros': lines[-1], 'alt': None}))
            else:
                lines.append('#%s%s(%s*)' % (kind, text, name))
                images.append(('%s.png' % name, single, kind, {'ops': [], 'rmodes': [], 'plots': [], 'macros': lines[-1], 'alt': None}))
            frames[name] = OV.new_frame(mf['tiles'], mf['scale'], mf['mask'], mf['crop'], mf['tindex'], mf['alpha'])
            alt[name] = None        # None = identical to frames[name]
            hist[name] = []
            version[name] = 0
            shown[name] = None
        if len(frames) < 2:
            continue

        involved = set()
        ncopy = [0]

        def do_copy(**kw):
            new = 'c%d_%d' % (s, ncopy[0])
            op = FG.gen_copy(rng, frames, new, **kw)
            args = (op['x'], op['y'], op['width'], op['height'], op['scale'], op['mask'], op['tindex'], op['alpha'], op['crop'])
            try:
                fr = OV.copy(frames[op['old']], *args)
            except OV.Undefined as e:
                undefined(e)
                return None
            ncopy[0] += 1
            lines.append(op['text'])
            frames[new] = fr
            alt[new] = OV.copy(alt[op['old']], *args) if alt[op['old']] is not None else None
            hist[new] = hist[op['old']] + [('copy', 'portion' if (op['x'], op['y'], op['width'], op['height']) != (0, 0, None, None) else 'whole')]
            version[new] = 0
            shown[new] = None
            involved.update((new, op['old']))
            events.append(('inc', 'generated:#COPY', None))
            for pname in ('scale', 'mask', 'tindex', 'alpha', 'crop'):
                if op[pname] is not None:
                    events.append(('hist', 'generated:#COPY parameter given', pname))
            return new

        for j in range(rng.randint(2, 6)):
            if len(lines) - start > 60:
                break
            what = rng.choices(('over', 'copy', 'plot'), (55, 20, 25))[0]
            target = None
            if what == 'copy':
                target = do_copy()
            elif what == 'plot':
                targets = FG.plot_targets(frames)
                name = None
                if not targets or rng.random() < 0.25:
                    name = do_copy(for_plot=True)
                    if name is None or name not in FG.plot_targets(frames):
                        name = None
                        if not targets:
                            continue
                for op in FG.gen_plots(rng, frames, name):
                    try:
                        OV.plot(frames[op['frame']], op['x'], op['y'], op['value'])
                    except OV.Undefined as e:
                        undefined(e)
                        continue
                    lines.append(op['text'])
                    target = op['frame']
                    if alt[target] is not None:
                        OV.plot(alt[target], op['x'], op['y'], op['value'])
                    hist[target] = hist[target] + [('plot', op['value'])]
                    version[target] += 1
                    involved.add(target)
                    events.append(('hist', 'generated:#PLOT value', op['value']))
            else:
                fgname = None
                withmasks = [n for n in sorted(frames) if FG.presence(frames[n]) == 'all']
                if withmasks and rng.random() < 0.2:
                    # a foreground whose mask type was changed by #COPY (its UDGs keep their mask bytes): #OVER must apply "the foreground
                    # frame's mask", i.e. the new type (0 = no mask = OR)
                    src = rng.choice(withmasks)
                    fgname = do_copy(old=src, force_mask=rng.choice([m for m in (0, 1, 2) if m != frames[src]['mask']]))
                op = FG.gen_over(rng, frames, fg=fgname)
                if op is None:
                    continue
                bg, fg = frames[op['bg']], frames[op['fg']]
                trial = OV.copy(bg)
                before = OV.snapshot(trial)
                args = (op['x'], op['y'], op['xoffset'], op['yoffset'], op['rmode'], op['attr'], op['byte'])
                try:
                    touched = OV.over(trial, fg, *args)
                except OV.Undefined as e:
                    undefined(e)
                    continue
                lines.append(op['text'])
                # the same operation under the defect hypothesis (only ever differs for rmode 2/3 with $m)
                abg = alt[op['bg']] if alt[op['bg']] is not None else OV.copy(bg)
                afg = alt[op['fg']] if alt[op['fg']] is not None else fg
                try:
                    OV.over(abg, afg, *args, m_rule=_pad_mask_rule(afg, op['xoffset'], op['yoffset']) if op['rmode'] & 2 else None)
                    alt[op['bg']] = abg if OV.snapshot(abg) != OV.snapshot(trial) else None
                except OV.Undefined:
                    alt[op['bg']] = None
                bg['tiles'] = trial['tiles']
                target = op['bg']
                hist[target] = hist[target] + [('over', op['rmode'])]
                version[target] += 1
                involved.update((op['bg'], op['fg']))
                events.append(('hist', 'generated:#OVER rmode', op['rmode']))
                events.append(('hist', 'generated:#OVER offsets', 'multiples of 8' if op['xoffset'] % 8 == 0 and op['yoffset'] % 8 == 0 else
                               ('0..7' if max(op['xoffset'], op['yoffset']) < 8 else 'beyond 7')))
                events.append(('hist', 'generated:#OVER background UDGs touched', min(touched, 9)))
                events.append(('hist', 'generated:#OVER changed the background', 'yes' if OV.snapshot(trial) != before else 'no'))
                events.append(('hist', 'generated:#OVER foreground (mask type,mask bytes)', '%d,%s' % (fg['mask'], FG.presence(fg))))
                for var, ast in (('attr $b', op['attr']), ('attr $f', op['attr']), ('byte $b', op['byte']), ('byte $f', op['byte']), ('byte $m', op['byte'])):
                    if OV.uses(ast, var[-1]):
                        events.append(('hist', 'generated:#OVER placeholder used', var))
            if target is not None and rng.random() < 0.5:
                emit_render(name=target)
        # everything that took part in an operation is rendered in its final state (sources and foregrounds must be unchanged)
        for name in sorted(involved):
            if shown.get(name) != version[name]:
                emit_render(name=name)
        if rng.random() < 0.4:
            emit_render(multi=True)
    ref = ['[ImageWriter]', 'PNGEnableAnimation=%d' % anim, 'PNGAlpha=%d' % pngalpha]
    if rgb:
        ref.append('[Colours]')
        for name, c in zip(R.COLOUR_NAMES, rgb):
            ref.append('%s=%d,%d,%d' % (name, c[0], c[1], c[2]))
    ref.append('')
    return {'skool': _skool_text(lines, mem), 'ref': '\n'.join(ref), 'images': images, 'macros': lines, 'events': events}

def judge_frames(shard, key, model, data, rec, replay, info, ctx):
    """Verdict for one image of the frames part. Same oracle as judge(); adds the counters of the frame-manipulation monitors."""
    rendered = render_model(model)
    if any(r is None for r in rendered):
        shard.skip('crop origin outside the image')
        return
    r0 = rendered[0]
    shard.case(key, len(r0.colours) >= 2, None)
    tail = ' | macros: ' + info['macros'][-1500:]
    if rec.problems:
        shard.violation('%sL1 contract: malformed PNG written: %s%s' % (ctx, '; '.join(rec.problems[:4]), tail), replay)
        return
    if rec.diff_problem:
        shard.violation(ctx + rec.diff_problem + tail, replay)
        return
    problems, facts = oracle(model, rendered, data, rec)
    shard.inc('oracle:images compared pixel by pixel')
    shard.inc('monitor:frames_images_decided')
    for kind in info['ops']:
        shard.inc('monitor:%s_images_decided' % kind)
    for m in info['rmodes']:
        shard.hist('decided:images after #OVER with rmode', m)
    for v in info['plots']:
        shard.hist('decided:images after #PLOT with value', v)
    if not info['ops']:
        shard.inc('monitor:unmodified_source_images_decided')
    if facts.get('flash_checked'):
        shard.inc('oracle:flash second frames compared')
    if facts.get('multi') and not problems:
        shard.inc('oracle:multi-frame images compared')
    if r0.has_trans:
        shard.inc('oracle:images with mask transparency')
    if problems:
        finding = None
        if info.get('alt') is not None:
            # does the mechanism of the known defect (and nothing else) explain the file?
            alt_rendered = render_model(info['alt'])
            if all(r is not None for r in alt_rendered) and not oracle(info['alt'], alt_rendered, data, rec)[0]:
                finding = FINDING_OVER_M
        shard.violation(ctx + problems[0] + tail, replay, finding=finding)

def eval_frames_case(shard, mon, case, keybase, replay, sample=None):
    shutil.rmtree('c15frames', ignore_errors=True)
    os.makedirs('c15frames')
    harness.write_file('c15frames/game.skool', case['skool'])
    harness.write_file('c15frames/game.ref', case['ref'])
    mon.take()
    res = harness.run_tool('skool2html', ['-q', '-d', 'c15frames/out', 'c15frames/game.skool'])
    recs = mon.take()
    shard.inc('frames:skool2html runs')
    if sample is not None:
        shard.sample(sample)
    if not res.ok:
        shard.case(keybase, True, None)
        crashed = [r for r in recs if r.exc]
        what = 'image writer crashed: %s' % crashed[-1].exc if crashed else res.describe()
        shard.violation('skool2html failed on generated frame macros (#COPY/#OVER/#PLOT/#FRAMES): %s\n%s\nmacros: %s' % (
            what, (res.tb or '')[-600:], ' | '.join(case['macros'])[:1500]), replay)
        return
    for kind, name, key in case['events']:
        if kind == 'inc':
            shard.inc(name)
        else:
            shard.hist(name, key)
    by_data = {}
    for r in recs:
        by_data.setdefault(r.data, r)
    for fname, model, kind, info in case['images']:
        shard.hist('frames part: image kind', kind)
        hits = _find('c15frames/out', fname)
        key = keybase + (fname,)
        if len(hits) != 1:
            shard.case(key, True, None)
            shard.violation('skool2html: %d files named %s were written for %s' % (len(hits), fname, model.get('macro', kind)), dict(replay, image=fname))
            continue
        data = harness.read_file(hits[0])
        rec = by_data.get(data)
        if rec is None:
            shard.case(key, True, None)
            shard.violation('skool2html: %s does not contain the bytes PngWriter wrote' % fname, dict(replay, image=fname))
            continue
        judge_frames(shard, key, model, data, rec, dict(replay, image=fname), info, 'skool2html %s -> %s: ' % (model.get('macro', '#' + kind), fname))

def run_frames(shard, spec):
    mon = Monitor(shard)
    mon.install()
    install_frame_monitors(shard)
    for i in range(spec['count']):
        if shard.out_of_time():
            shard.inc('budget:frames shard stopped early')
            break
        rng = shard.rng('frames', spec['shard'], i)
        try:
            case = make_frames_case(rng)
        except MemoryError:
            shard.skip('generator: address space exhausted')
            continue
        replay = {'part': 'frames', 'shard': spec['shard'], 'i': i}
        eval_frames_case(shard, mon, case, ('frames', spec['shard'], i), replay, sample=' | '.join(case['macros'])[:400] if i < 1 and spec['shard'] == 0 else None)

def finalize_frames(agg, tier):
    c = agg['counters']
    h = agg['hists']
    out = []
    for k in ('frames:skool2html runs', 'monitor:frames_images_decided', 'monitor:over_images_decided', 'monitor:copy_images_decided',
              'monitor:plot_images_decided', 'observed:overlay_udgs calls', 'observed:Frame.copy calls', 'observed:Udg.copy calls'):
        if not c.get(k):
            out.append('frames part: monitor counter "%s" is zero' % k)
    for m in range(4):
        if not h.get('observed:over_rmode', {}).get(str(m)) or not h.get('decided:images after #OVER with rmode', {}).get(str(m)):
            out.append('frames part: no image was decided after an #OVER with rmode %d' % m)
    for v in range(3):
        if not h.get('observed:plot value', {}).get(str(v)) or not h.get('decided:images after #PLOT with value', {}).get(str(v)):
            out.append('frames part: no image was decided after a #PLOT with value %d' % v)
    shifts = h.get('observed:over pixel shift (x,y not multiple of 8)', {})
    for k in ('0,0', '1,0', '0,1', '1,1'):
        if not shifts.get(k):
            out.append('frames part: overlay_udgs was never called with pixel shift class %s' % k)
    fgs = h.get('observed:over foreground (mask type,mask bytes)', {})
    for k in ('0,no', '1,yes', '2,yes'):
        if not fgs.get(k):
            out.append('frames part: no #OVER with a foreground of (mask type,mask bytes) = %s was observed' % k)
    if not h.get('generated:#OVER changed the background', {}).get('yes'):
        out.append('frames part: no #OVER changed its background frame')
    return out

# ------------------------------------------------------------------ entry points

def run(shard, spec):
    part = spec['part']
    if part == 'api':
        run_api(shard, spec)
    elif part == 'sna2img':
        run_sna2img(shard, spec)
    elif part == 'frames':
        run_frames(shard, spec)
    else:
        run_html(shard, spec)

def replay(shard, d):
    mon = Monitor(shard)
    mon.install()
    if d['part'] == 'api':
        eval_api_case(shard, mon, d['img'], ('replay',))
    elif d['part'] == 'sna2img':
        rng = shard.rng('sna2img', d['shard'], d['i'])
        case = make_sna2img_case(rng)
        eval_sna2img_case(shard, mon, case, ('replay',), d)
    elif d['part'] == 'frames':
        install_frame_monitors(shard)
        rng = shard.rng('frames', d['shard'], d['i'])
        case = make_frames_case(rng)
        eval_frames_case(shard, mon, case, ('replay',), d)
    else:
        rng = shard.rng('html', d['shard'], d['i'])
        case = make_html_case(rng)
        eval_html_case(shard, mon, case, ('replay',), d)

def finalize(agg, tier):
    c = agg['counters']
    out = []
    for name in ENCODERS:
        if not c.get('encoder:' + name):
            out.append('encoder %s was never selected' % name)
    for name in ENCODERS[1:]:
        if not c.get('differential:' + name):
            out.append('specialised encoder %s was never compared with the generic one' % name)
    for k in ('contract:png structure evaluated', 'oracle:images compared pixel by pixel', 'oracle:flash second frames compared',
              'oracle:multi-frame images compared', 'oracle:images with mask transparency', 'html:skool2html runs'):
        if not c.get(k):
            out.append('monitor counter "%s" is zero' % k)
    slots = agg['hists'].get('slot(bd,full,masked)', {})
    for bd in (0, 1, 2, 4):
        for full in (0, 1):
            for masked in (0, 1):
                if not slots.get('%d,%d,%d' % (bd, full, masked)):
                    out.append('encoder slot (bit depth %d, full size %d, masked %d) was never reached' % (bd, full, masked))
    if not agg['hists'].get('sna2img mode'):
        out.append('no sna2img invocation was observed')
    out.extend(finalize_frames(agg, tier))
    return out
