"""C11 - tape files round-trip and their pulse trains encode exactly the block bytes.

L1 contract on skoolkit.tape.get_edges (called directly and captured inside tapinfo.main / tap2sna.main) plus boundary
recorder on write_tap / write_pzx / parse_* / tapinfo -d / bin2tap. Oracles: byte identity of the round trip; an
executable reference model of TAP/TZX/PZX written from the format texts (vk/ref/c11_tapemodel.py) that predicts the
edge list; decoding the edge distances inside each reported DataBlock range back into bits; identity of the edge lists
of one logical tape written as TAP, TZX and PZX.
"""
import os
import re

from vk import harness
from vk.gens import c11_tapegen as tg
from vk.ref import c11_tapemodel as tm

ID = 'C11'
NEEDS_C = False
LEVEL = 'exploration'
RULE = ('generated abstract tapes: (tzx) 1-8 elements from standard/turbo/pure-data/pure-tone/pulse-sequence/pause/direct-recording blocks, '
        'loops and info/group/glue blocks, every 16-bit timing incl. 0/1/0x7FFF/0x8000/0xFFFF, pilot counts 0..65535, used bits 1..8, pauses incl. 0, '
        'block lengths 0..65535 with every flag byte, each also translated to PZX (PULS/DATA/PAUS following the running level, random encodings of '
        'repeat counts and multi-word durations); (pzx) native PZX tapes with arbitrary bit sequences (0-4 pulses per bit, zero-length pulses, '
        'sample-style sequences), tails, explicit initial levels (follow/usual/random), BRWS/STOP/unknown blocks; (tap) TAP block lists written by '
        'write_tap and write_pzx, re-expressed as TZX 0x10 and ROM-timed PZX, and bin2tap output; x --tape-start/--tape-stop/--tape-skip x first edge '
        'x polarity x route (get_edges called directly / captured inside tapinfo -a / captured inside tap2sna --tape-analysis). A case is one tape '
        'with one option set; non-trivial when at least one data block with >= 1 byte was decoded from edge distances or compared with the model and '
        'the tape has >= 2 timing blocks or a non-default option; distinct by hash of (format, tape bytes, options, route)')
ASSUMPTIONS = ['representation conventions taken from the code under test, not from the format texts: an edge list starts with the first edge and pulse k has '
               'level (k-1)%2; zero-length pulses outside data blocks are kept as coincident edges; pauses produce no edge and the pause of the last block is not '
               'played; the tail pulse of the last data block is dropped when it is the last thing on the tape',
               'standard-speed blocks (TAP, TZX 0x10) get 8063 pilot pulses only when the flag byte is 0 (the TZX text and the ROM say flag < 128); the property does '
               'not fix the pilot length, so the model follows the code and only the cross-format identity is demanded',
               'a standard-speed block with no bytes contributes nothing (no pilot, no pause) in all three formats; a PZX DATA block with 0 bits contributes nothing '
               '(its tail pulse is not played); write_pzx is only given non-empty blocks (it needs the flag byte to choose the pilot length)',
               'TZX direct recording: a first sample that is high toggles the level whatever the running level is',
               'PZX: a PULS block that starts with an odd number of zero-duration pulses starts high and those pulses are not played; when the initial level of a '
               'block differs from the running level exactly one edge is inserted at the block start',
               'tapes with a data block whose bit sequences contain zero-length pulses are compared after cancelling coincident edges (the instants at which the level '
               'really changes; a zero-length toggle at the very end of the tape is not observable and ignored); DataBlock ranges of such blocks are only required to '
               'lie inside the edge list, and the block before one is not decoded because its last pulse may legitimately be lengthened',
               'the first distance measured inside a DataBlock range may include the pauses played since the previous edge (a pause produces no edge)',
               'a DataBlock range may end on the last bit pulse or on the tail pulse',
               'bits are decoded from edge distances only when neither bit sequence is empty, contains 0 or is a prefix of the other; otherwise the block is compared '
               'with the model only',
               'TZX blocks whose play order semantics skoolkit does not implement (jump, call, select, set signal level, CSW, generalized data, C64) are not generated; '
               'selections that cut a loop start from its loop end are skipped',
               'TAP length words are 16 bit, so block lengths stop at 65535']
MIN_NONTRIVIAL = {'quick': 1500, 'thorough': 40000}
N_CASES = {'quick': 420, 'thorough': 14000}     # per shard (16 shards)

def plan(tier, seed):
    n = 16
    q = tier == 'quick'
    return [{'shard': i, 'of': n, 'timeout': 600 if q else 7000, 'budget_s': 45 if q else 900} for i in range(n)]

# ------------------------------------------------------------------ capturing get_edges inside the tools

class Capture:
    def __init__(self):
        self.calls = []
        self.installed = False

    def install(self):
        if self.installed:
            return
        import skoolkit.tape
        import skoolkit.tapinfo
        import skoolkit.tap2sna
        real = skoolkit.tape.get_edges
        cap = self

        def get_edges(blocks, first_edge=0, polarity=0, analyse=False):
            res = real(blocks, first_edge, polarity, analyse)
            cap.calls.append((first_edge, polarity, res))
            return res
        self.real = real
        skoolkit.tapinfo.get_edges = get_edges
        skoolkit.tap2sna.get_edges = get_edges
        self.installed = True

CAPTURE = Capture()

# ------------------------------------------------------------------ running the code under test

class Observed:
    """edges + data blocks as produced by skoolkit for one tape / option set, or the reason there are none."""
    def __init__(self, edges=None, dbs=None, error=None, empty=False):
        self.edges = edges
        self.dbs = dbs
        self.error = error
        self.empty = empty

def observe_direct(fmt, raw, start, stop, skip, fe, pol):
    from skoolkit import tape
    try:
        if fmt == 'tap':
            t = tape.parse_tap(raw, start, stop, skip)
            blocks = [b for b in t.blocks if b.data]
        elif fmt == 'tzx':
            t = tape.parse_tzx(raw, start, stop, skip, info=False, timings=True)
            blocks = t.blocks
        else:
            t = tape.parse_pzx(raw, start, stop, skip)
            blocks = t.blocks
        blocks = [b for b in blocks if b.timings]
        for b in blocks:
            if b.timings.error:
                return Observed(error='timings.error: %s' % b.timings.error)
            b.keys = None
        edges, dbs = tape.get_edges(blocks, fe, pol)
    except Exception as e:
        import traceback
        return Observed(error='%s: %s\n%s' % (type(e).__name__, e, traceback.format_exc()[-1200:]))
    return Observed(list(edges), [(bytes(d.data), d.start, d.end) for d in dbs])

def observe_tool(route, fname, start, stop, skip, fe, pol):
    """route 'tapinfo' (first edge 0, polarity 0) or 'tap2sna'."""
    CAPTURE.install()
    argv = []
    if route == 'tapinfo':
        argv.append('-a')
    else:
        argv += ['--tape-analysis', '-c', 'first-edge=%d' % fe, '-c', 'polarity=%d' % pol]
    if start != 1:
        argv += ['--tape-start', str(start)]
    if stop:
        argv += ['--tape-stop', str(stop)]
    if skip is not None:
        argv += ['--tape-skip', tg.skip_arg(skip)]
    argv.append(fname)
    del CAPTURE.calls[:]
    res = harness.run_tool(route, argv)
    if not res.ok:
        if route == 'tap2sna' and 'Tape is empty' in (res.err + str(res.exc)) and not CAPTURE.calls:
            return Observed(empty=True), argv
        return Observed(error='%s %s: %s' % (route, ' '.join(argv), res.describe() + ('\n' + res.tb[-1200:] if res.tb else ''))), argv
    if len(CAPTURE.calls) != 1:
        return Observed(error='%s %s: get_edges was called %d times' % (route, ' '.join(argv), len(CAPTURE.calls))), argv
    cfe, cpol, (edges, dbs) = CAPTURE.calls[0]
    if (cfe, cpol) != (fe, pol):
        return Observed(error='%s passed first_edge=%r polarity=%r to get_edges, the command line said %r %r' % (route, cfe, cpol, fe, pol)), argv
    return Observed(list(edges), [(bytes(d.data), d.start, d.end) for d in dbs]), argv

# ------------------------------------------------------------------ the model side

PARSERS = {'tap': tm.parse_tap, 'tzx': tm.parse_tzx, 'pzx': tm.parse_pzx}

def model_for(fmt, raw, start, stop, skip, fe, pol, route):
    """-> (timing blocks, Model) or (None, skip reason)."""
    fbs = tm.select(PARSERS[fmt](raw), start, stop, tg.skip_set(skip))
    if fmt == 'tzx':
        try:
            fbs = tm.expand_loops(fbs)
        except ValueError:
            return None, 'selection cuts a loop start from its loop end'
    if route == 'tap2sna' and stop == 0 and any(b.stop for b in fbs):
        return None, 'stop-the-tape block under tap2sna'
    tbs = tm.timing_blocks(fbs)
    m = tm.model_edges(tbs, fe, pol)
    if m.ambiguous_pop:
        return None, 'tape ends with zero-length pulses at the instant the last tail pulse ends'
    return tbs, m

def first_diff(a, b):
    n = min(len(a), len(b))
    for i in range(n):
        if a[i] != b[i]:
            return i
    return n

def show_diff(a, b, names=('observed', 'model')):
    i = first_diff(a, b)
    lo = max(0, i - 3)
    return 'first difference at index %d: %s[%d:%d]=%r (len %d) vs %s=%r (len %d)' % (
        i, names[0], lo, i + 4, a[lo:i + 4], len(a), names[1], b[lo:i + 4], len(b))

def check_against_model(shard, obs, tbs, m):
    """-> list of (mechanism tag, text). Empty list = held."""
    bad = []
    E = obs.edges
    # (1) time never runs backwards
    for i in range(1, len(E)):
        if E[i] < E[i - 1]:
            bad.append(('decreasing', 'edge list decreases at index %d: %r' % (i, E[max(0, i - 2):i + 2])))
            break
    shard.inc('monitor:edge_lists_checked')
    shard.inc('observed:edges', len(E))
    # (2) exactly the pulses the blocks specify
    ok, text = edges_agree(E, m, tbs)
    shard.inc('monitor:canonical_comparisons' if m.zero_seq else 'monitor:exact_comparisons')
    if not ok:
        bad.append(('zero-seq' if m.zero_seq else 'edges', text))
    # (3) data blocks: bytes, ranges, decoding
    want = [(i, tb) for i, tb in enumerate(tbs) if tb.data]
    got = [d for d in obs.dbs if d[0]]
    for data, s, e in obs.dbs:
        if not (0 <= s <= e < len(E)):
            bad.append(('range', 'DataBlock range %d..%d is not inside the edge list (%d edges)' % (s, e, len(E))))
    if len(want) != len(got):
        bad.append(('dbcount', '%d data blocks reported for %d blocks with data' % (len(got), len(want))))
        return bad
    for (i, tb), (data, s, e) in zip(want, got):
        rg = m.ranges[i]
        shard.inc('monitor:data_blocks_checked')
        if data != tb.data:
            bad.append(('dbdata', 'DataBlock for block %s carries %d bytes %r.., the tape has %d bytes %r..' % (tb.num, len(data), data[:6], len(tb.data), tb.data[:6])))
            continue
        if tb.has_zero_seq():
            shard.inc('observed:sample_style_data_blocks')
            continue
        if not m.zero_seq and (s != rg['dstart'] or e not in (rg['dend'], rg['last'])):
            # (edge indices of the model are comparable only when no zero-length bit pulse was merged anywhere on the tape)
            bad.append(('dbrange', 'block %s (%d bytes, used %d, tail %d): DataBlock range %d..%d, the data runs from edge %d to edge %d%s' % (
                tb.num, len(tb.data), tb.used, tb.tail, s, e, rg['dstart'], rg['dend'], ' (+tail: %d)' % rg['last'] if rg['tail'] else '')))
        if not tm.decodable(tb.s0, tb.s1):
            shard.inc('observed:undecodable_bit_sequences')
            continue
        nxt = next((x for x in tbs[i + 1:] if x.pulses or x.data), None)
        if nxt is not None and nxt.has_zero_seq() and not nxt.pulses:
            # the next block may begin with a zero-length pulse, which lengthens this block's last pulse
            shard.inc('observed:last_pulse_may_be_lengthened_by_next_block')
            continue
        if not (0 <= s <= e < len(E)):
            continue
        # the range may or may not include the tail pulse: "first and last edge of the block's data" allows both
        # ... and the first measured distance may include the pauses played since the previous edge. A reading is
        # accepted when some admissible (tail, silence) pair turns the distances into exactly the block's bits: with a
        # silence of 1 T and pulses of 1 and 2 T a wrong pair can also "decode", to other bits, so every pair is tried.
        exp = tm.data_bits(tb.data, tb.used)
        bits = why = None
        for tail in ([tb.tail, 0] if rg['tail'] else [0]):
            for gap in rg['gaps']:
                bits1, why1 = tm.decode_bits(E, s, e, tb.s0, tb.s1, tail, gap)
                why = why or why1
                if bits1 is not None and (bits is None or bits1 == exp):
                    bits = bits1
                if bits == exp:
                    break
            if bits == exp:
                break
        shard.inc('monitor:blocks_decoded_from_edges')
        if bits is None:
            bad.append(('decode', 'block %s (%d bytes, used %d, s0=%r s1=%r tail %d): edges %d..%d do not decode: %s' % (
                tb.num, len(tb.data), tb.used, tb.s0, tb.s1, tb.tail, s, e, why)))
            continue
        shard.inc('observed:bits_decoded', len(bits))
        if bits != exp:
            k = first_diff(bits, exp)
            bad.append(('bits', 'block %s (%d bytes, used %d): %d bits decoded from edges %d..%d, the block has %d bits; first difference at bit %d' % (
                tb.num, len(tb.data), tb.used, len(bits), s, e, len(exp), k)))
    return bad

# ------------------------------------------------------------------ findings on the unchanged tree, by mechanism

FINDINGS = {
    'cut': 'C11-used-bits-cut-proportionally-when-bit-sequences-differ-in-length',
    'lead': 'C11-leading-zero-length-bit-pulse-after-pause-moves-previous-edge',
    'trail': 'C11-tail-not-merged-after-trailing-zero-length-bit-pulse',
    'clip': 'C11-datablock-end-past-edge-list-when-dropped-tail-belongs-to-earlier-block',
}

def edges_agree(E, m, tbs):
    """Does the observed edge list say what the model says?  -> (ok, text)"""
    last_pause_only = bool(tbs) and tbs[-1].level is not None and not tbs[-1].pulses and not tbs[-1].data
    if m.zero_seq:
        ce, cm = tm.canonical(E), tm.canonical(m.edges)
        if ce == cm or (last_pause_only and tm.canonical(E[:-1]) == cm):
            return True, None
        # zero-length pulses at the very end of the tape: whether they cancel the last edge is not observable
        if ce[:-1] == cm and ce[-1] == m.t_end or cm[:-1] == ce and cm[-1] == m.t_end:
            return True, None
        return False, 'after cancelling coincident edges, ' + show_diff(ce, cm)
    if E == m.edges or (last_pause_only and E[:-1] == m.edges):
        return True, None
    return False, show_diff(E, m.edges)

def classify(fmt, tbs, tags, obs=None, opts=None, m=None):
    """-> finding id or None. tags: set of mechanism tags of the failed conditions. A finding id is returned only when the
    tape has the mechanism's shape AND the observed edge list is exactly what the physical model plus the named
    mechanism(s) predicts (smallest set of mechanisms that explains it)."""
    if obs is None or obs.edges is None or tbs is None or m is None:
        return None
    if tags and tags <= {'range', 'dbrange'} and m.tail_block is not None:
        # the dropped tail edge belongs to a block that is followed by another data block producing no edge (every bit
        # sequence played is empty or of zero length): only the last DataBlock is clipped, the owner's end stays one past the list
        n = len(obs.edges)
        want = [(i, tb) for i, tb in enumerate(tbs) if tb.data]
        owner = sum(1 for tb in tbs[:m.tail_block + 1] if tb.data) - 1      # position of the owner among the reported data blocks
        if len(want) != len(obs.dbs) or not all(d[0] for d in obs.dbs) or not 0 <= owner < len(obs.dbs) - 1:
            return None
        if any(tb.pulses or (tb.data and (tb.tail or any(tm._bit_durations(tb)))) for tb in tbs[m.tail_block + 1:]):
            return None
        for k, ((i, tb), (data, s, e)) in enumerate(zip(want, obs.dbs)):
            rg = m.ranges[i]
            if k == owner:
                if e != n or (not m.zero_seq and s != rg['dstart']):
                    return None
            elif not (0 <= s <= e < n) or (not m.zero_seq and not tb.has_zero_seq() and (s != rg['dstart'] or e not in (rg['dend'], rg['last']))):
                return None
        return FINDINGS['clip']
    if not m.preds:
        return None
    if not tags <= {'edges', 'zero-seq', 'dbrange', 'decode', 'bits'}:
        return None
    preds = [q for q in tm.QUIRKS if q in m.preds]
    subsets = [[q] for q in preds] + [[a, b] for i, a in enumerate(preds) for b in preds[i + 1:]] + ([preds] if len(preds) == 3 else [])
    for sub in subsets:
        m2 = tm.model_edges(tbs, opts['fe'], opts['pol'], quirks=tuple(sub))
        if edges_agree(obs.edges, m2, tbs)[0]:
            return FINDINGS[sub[0]]
    return None

# ------------------------------------------------------------------ one case = one tape, one option set, one route

def tape_case(shard, key, fmt, raw, opts, route, extra=None):
    """opts: dict(start, stop, skip, fe, pol). Returns Observed (or None when skipped)."""
    start, stop, skip, fe, pol = opts['start'], opts['stop'], opts['skip'], opts['fe'], opts['pol']
    tbs, m = model_for(fmt, raw, start, stop, skip, fe, pol, route)
    if tbs is None:
        shard.skip(m)
        return None
    argv = None
    if route == 'direct':
        obs = observe_direct(fmt, raw, start, stop, tg.skip_set(skip), fe, pol)
    else:
        fname = 't%d.%s' % (shard.evaluations % 7, fmt)
        harness.write_file(fname, raw)
        obs, argv = observe_tool(route, fname, start, stop, skip, fe, pol)
    shard.hist('route', route)
    shard.hist('format', fmt)
    rp = {'kind': 'tape', 'fmt': fmt, 'raw': harness.b64(raw), 'opts': opts, 'route': route, 'argv': argv}
    if obs.empty:
        if tbs:
            shard.violation('%s: tap2sna says "Tape is empty" for a tape with %d timing blocks' % (fmt, len(tbs)), rp)
        else:
            shard.skip('no timing block left after selection (tap2sna refuses the tape)')
        return None
    if obs.error:
        shard.case((fmt, harness.h64(raw), opts, route), True)
        shard.violation('%s tape, %s: %s' % (fmt, describe_opts(opts, route), obs.error), rp, classify(fmt, tbs, {'error'}))
        return None
    bad = check_against_model(shard, obs, tbs, m)
    ndata = sum(1 for tb in tbs if tb.data)
    nontrivial = ndata >= 1 and (len(tbs) >= 2 or opts != DEFAULT_OPTS)
    shard.case((fmt, harness.h64(raw), opts, route), nontrivial,
               sample={'format': fmt, 'route': route, 'opts': opts, 'bytes': len(raw), 'edges': len(obs.edges), 'blocks': [tb.describe() for tb in tbs[:4]]} if nontrivial and ndata and len(raw) < 400 else None)
    shard.hist('timing_blocks', min(len(tbs), 12))
    for tb in tbs:
        shard.hist('block_kind', tb.kind)
        if tb.data:
            shard.hist('used_bits', tb.used)
            shard.hist('data_len', size_class(len(tb.data)))
            shard.hist('flag_byte_class', 'flag=%d' % tb.data[0] if tb.data[0] in (0, 255) else ('flag<128' if tb.data[0] < 128 else 'flag>=128'))
            shard.inc('observed:flag_bytes_seen_%s' % ('lo' if tb.data[0] < 128 else 'hi'))
    if m.popped:
        shard.inc('observed:last_tail_dropped')
    if m.adjustments:
        shard.inc('observed:level_adjustments', m.adjustments)
    if pol:
        shard.inc('observed:polarity_1')
    if (start, stop, skip) != (1, 0, None):
        shard.inc('observed:selections')
    if bad:
        tags = {t for t, _ in bad}
        shard.violation('%s tape (%d bytes), %s: %s' % (fmt, len(raw), describe_opts(opts, route), '; '.join(t for _, t in bad[:3])), rp, classify(fmt, tbs, tags, obs, opts, m))
    return obs

DEFAULT_OPTS = {'start': 1, 'stop': 0, 'skip': None, 'fe': 0, 'pol': 0}

def describe_opts(opts, route):
    return 'route=%s start=%s stop=%s skip=%s first_edge=%s polarity=%s' % (route, opts['start'], opts['stop'], opts['skip'], opts['fe'], opts['pol'])

def size_class(n):
    for lim, name in ((0, '0'), (1, '1'), (20, '2-20'), (300, '21-300'), (3000, '301-3000'), (16383, '3001-16383')):
        if n <= lim:
            return name
    return '16384-65535'

def pick_route(rng, loops=False):
    x = rng.random()
    if loops:
        return 'tapinfo' if x < 0.5 else 'tap2sna'
    if x < 0.6:
        return 'direct'
    return 'tapinfo' if x < 0.8 else 'tap2sna'

def pick_opts(rng, route, nblocks, select=True):
    o = dict(DEFAULT_OPTS)
    if select:
        o['start'], o['stop'], skip = tg.selection(rng, nblocks)
        o['skip'] = tuple(skip) if skip else None
    if route != 'tapinfo':
        o['fe'] = tg.first_edge(rng)
        o['pol'] = rng.randrange(2)
    return o

def o_json(o):
    o = dict(o)
    if o['skip'] is not None:
        o['skip'] = tuple(o['skip'])
    return o

def cross_check(shard, what, a, b, rp):
    """identical edge lists for one logical tape in two formats."""
    if a is None or b is None:
        return
    shard.inc('monitor:cross_format_comparisons')
    if a.edges != b.edges:
        shard.violation('%s: edge lists differ, %s' % (what, show_diff(a.edges, b.edges, ('first', 'second'))), rp)

# ------------------------------------------------------------------ case families

def case_tzx(shard, rng, key, cls):
    route = None
    elements = tg.gen_tzx(rng, cls, loops=True, allow_stop=True)
    loops = tg.has_loop(elements)
    route = pick_route(rng, loops)
    if route == 'tap2sna':
        # tap2sna stops at a "stop the tape" block; that is C13's business
        elements = [e for e in elements if not (e['k'] == 'pause' and e['ms'] == 0) and not (e['k'] == 'info' and e['v'] == 'stop48')]
        if not elements:
            elements = [tg.timing_element(rng, cls, ['turbo'])]
    raw, kinds = tm.tzx_bytes(elements)
    shard.hist('case_family', 'tzx')
    # full tape, any first edge / polarity; the same tape as PZX
    o = pick_opts(rng, route, len(kinds), select=False)
    a = tape_case(shard, key, 'tzx', raw, o, route)
    pz, notes = tm.tzx_to_pzx(elements, rng)
    praw = tm.pzx_bytes(pz)
    b = tape_case(shard, key, 'pzx', praw, dict(o, fe=o['fe'], pol=o['pol']), 'direct' if route != 'tap2sna' or rng.random() < 0.5 else 'tap2sna')
    if notes:
        shard.skip('cross-format: ' + ','.join(sorted(notes)))
    else:
        cross_check(shard, 'TZX vs PZX (%s)' % describe_opts(o, route), a, b,
                    {'kind': 'cross', 'a': ['tzx', harness.b64(raw)], 'b': ['pzx', harness.b64(praw)], 'opts': o, 'route': route})
    # with a selection
    o2 = pick_opts(rng, route, len(kinds), select=True)
    if (o2['start'], o2['stop'], o2['skip']) != (1, 0, None):
        tape_case(shard, key, 'tzx', raw, o2, route)

def case_pzx(shard, rng, key, cls):
    route = pick_route(rng)
    blocks, levels = tg.gen_pzx(rng, cls, allow_stop=route != 'tap2sna')
    raw = tm.pzx_bytes(blocks)
    shard.hist('case_family', 'pzx-' + levels)
    o = pick_opts(rng, route, len(blocks), select=rng.random() < 0.4)
    tape_case(shard, key, 'pzx', raw, o, route)

def case_tap(shard, rng, key, cls):
    from skoolkit import tape
    shard.hist('case_family', 'tap')
    blocks = tg.gen_tap(rng, cls)
    as_lists = rng.random() < 0.5
    tape.write_tap('w.tap', [list(b) for b in blocks] if as_lists else blocks)
    raw = harness.read_file('w.tap')
    rp = {'kind': 'roundtrip', 'blocks': [harness.b64(b) for b in blocks]}
    # (a) what was written parses back to the same byte sequences
    shard.inc('monitor:tap_round_trips')
    back = [bytes(b.data) for b in tape.parse_tap(raw).blocks]
    if back != blocks:
        shard.violation('write_tap -> parse_tap: %d blocks %r.. came back as %d blocks %r..' % (len(blocks), [len(b) for b in blocks][:8], len(back), [len(b) for b in back][:8]), rp)
    if raw != tm.tap_bytes(blocks):
        shard.violation('write_tap wrote %d bytes, the TAP text gives %d; %s' % (len(raw), len(tm.tap_bytes(blocks)), show_diff(list(raw), list(tm.tap_bytes(blocks)), ('file', 'expected'))), rp)
    route = pick_route(rng)
    o = pick_opts(rng, route, len(blocks), select=False)
    a = tape_case(shard, key, 'tap', raw, o, route)
    # the same logical tape as TZX 0x10 (pause 1000 ms) and as PZX with the ROM timings
    els = tg.std_elements(blocks)
    zraw, kinds = tm.tzx_bytes(els)
    b = tape_case(shard, key, 'tzx', zraw, o, 'direct')
    pz, notes = tm.tzx_to_pzx(els, rng)
    praw = tm.pzx_bytes(pz)
    c = tape_case(shard, key, 'pzx', praw, o, 'direct')
    xr = {'kind': 'cross', 'a': ['tap', harness.b64(raw)], 'b': ['tzx', harness.b64(zraw)], 'opts': o, 'route': route}
    cross_check(shard, 'TAP vs TZX 0x10 (%s)' % describe_opts(o, route), a, b, xr)
    cross_check(shard, 'TAP vs PZX with ROM timings (%s)' % describe_opts(o, route), a, c, dict(xr, b=['pzx', harness.b64(praw)]))
    # selection on the TAP file
    o2 = pick_opts(rng, route, len(blocks), select=True)
    if (o2['start'], o2['stop'], o2['skip']) != (1, 0, None):
        tape_case(shard, key, 'tap', raw, o2, route)
        sel = tape.parse_tap(raw, o2['start'], o2['stop'], tg.skip_set(o2['skip']))
        want = [(fb.num, fb.data) for fb in tm.select(tm.parse_tap(raw), o2['start'], o2['stop'], tg.skip_set(o2['skip']))]
        got = [(b.number, bytes(b.data)) for b in sel.blocks]
        shard.inc('monitor:tap_selections')
        if got != want:
            shard.violation('parse_tap(start=%s, stop=%s, skip=%s) returned blocks %r, expected %r' % (o2['start'], o2['stop'], o2['skip'], [g[0] for g in got], [w[0] for w in want]), rp)
    # write_pzx
    nonempty = [b for b in blocks if b]
    if len(nonempty) != len(blocks):
        shard.skip('write_pzx: empty block has no flag byte to choose the pilot from (block dropped)')
    if nonempty:
        tape.write_pzx('w.pzx', [list(b) for b in nonempty] if as_lists else nonempty)
        wraw = harness.read_file('w.pzx')
        shard.inc('monitor:pzx_round_trips')
        t = tape.parse_pzx(wraw)
        back = [bytes(b.data) for b in t.blocks if b.block_id == 'DATA']
        if back != nonempty:
            shard.violation('write_pzx -> parse_pzx: %d blocks %r.. came back as %d DATA blocks %r..' % (len(nonempty), [len(b) for b in nonempty][:8], len(back), [len(b) for b in back][:8]),
                            dict(rp, blocks=[harness.b64(b) for b in nonempty]))
        ref_back = [fb.data for fb in tm.parse_pzx(wraw) if fb.id == 'DATA']
        if ref_back != nonempty:
            shard.violation('write_pzx: a reader written from the PZX text finds DATA blocks %r.. in the file, %r.. were written' % ([len(b) for b in ref_back][:8], [len(b) for b in nonempty][:8]),
                            dict(rp, blocks=[harness.b64(b) for b in nonempty]))
        # every bit of every block is on the tape, and (tail pulses aside) it is the signal of the TAP file
        pfb = tm.parse_pzx(wraw)
        short = [(fb.num, fb.tb.nbits()) for fb in pfb if fb.id == 'DATA' and fb.tb.nbits() != 8 * len(fb.data)]
        sk_short = [(b.number, b.timings.used_bits) for b in t.blocks if b.block_id == 'DATA' and b.timings.used_bits != 8]
        if short or sk_short:
            shard.violation('write_pzx: DATA blocks do not carry 8 bits per byte: %r (reference reader), %r (parse_pzx used_bits)' % (short[:5], sk_short[:5]),
                            dict(rp, blocks=[harness.b64(b) for b in nonempty]))
        wtbs = tm.timing_blocks(pfb)
        for tb in wtbs:
            tb.tail = 0
            tb.level = None     # (the explicit levels only make sense with the tails in place)
        shard.inc('monitor:write_pzx_vs_tap_signal')
        e_w = tm.model_edges(wtbs).edges
        e_t = tm.model_edges(tm.timing_blocks(tm.parse_tap(tm.tap_bytes(nonempty)))).edges
        if e_w != e_t:
            shard.violation('write_pzx: with the tail pulses taken out, the file does not describe the signal of the same blocks as TAP: ' + show_diff(e_w, e_t, ('pzx', 'tap')),
                            dict(rp, blocks=[harness.b64(b) for b in nonempty]))
        o3 = pick_opts(rng, route, 3 * len(nonempty), select=rng.random() < 0.3)
        tape_case(shard, key, 'pzx', wraw, o3, route)
        # tapinfo -d: the listing shows the bytes
        if rng.random() < 0.5:
            listing_check(shard, 'w.pzx', [(None, b) for b in nonempty], rp)
    if rng.random() < 0.5:
        listing_check(shard, 'w.tap', [(i + 1, b) for i, b in enumerate(blocks)], rp)

HEX_LINE = re.compile(r'^  [0-9A-F]{4}  ((?:[0-9A-F]{2} )+)')
BLOCK_LINE = re.compile(r'^(\d+):')

def listing_check(shard, fname, blocks, rp):
    """tapinfo -d FILE: the hex dump of every block with data equals the bytes written."""
    res = harness.run_tool('tapinfo', ['-d', fname])
    shard.inc('monitor:tapinfo_listings')
    if not res.ok:
        shard.violation('tapinfo -d %s: %s' % (fname, res.describe()), dict(rp, tool='tapinfo -d'))
        return
    dumps = {}
    cur = None
    for line in res.out.splitlines():
        mb = BLOCK_LINE.match(line)
        if mb:
            cur = int(mb.group(1))
            continue
        mh = HEX_LINE.match(line)
        if mh and cur is not None:
            dumps.setdefault(cur, bytearray()).extend(bytes.fromhex(mh.group(1)))
    got = [bytes(dumps[k]) for k in sorted(dumps)]
    want = [b for n, b in blocks if b]
    if got != want:
        shard.violation('tapinfo -d %s lists data blocks of %r.. bytes, the file was written from %r..%s' % (
            fname, [len(g) for g in got][:8], [len(w) for w in want][:8],
            '' if [len(g) for g in got] != [len(w) for w in want] else '; contents differ'), dict(rp, tool='tapinfo -d'))

def case_bin2tap(shard, rng, key):
    from skoolkit import tape
    shard.hist('case_family', 'bin2tap')
    n = rng.choice([1, 2, 17, 300, 2000])
    data = rng.randbytes(n)
    org = rng.randrange(24000, 65536 - n)
    harness.write_file('p.bin', data)
    args = ['-o', str(org)]
    if rng.random() < 0.5:
        args += ['-c', str(org - 1)]
    rp = {'kind': 'bin2tap', 'data': harness.b64(data), 'args': args}
    outs = {}
    for ext in ('tap', 'pzx'):
        res = harness.run_tool('bin2tap', args + ['p.bin', 'p.' + ext])
        if not res.ok:
            shard.violation('bin2tap %s: %s' % (' '.join(args), res.describe()), rp)
            return
        outs[ext] = harness.read_file('p.' + ext)
    tblocks = [bytes(b.data) for b in tape.parse_tap(outs['tap']).blocks]
    pblocks = [bytes(b.data) for b in tape.parse_pzx(outs['pzx']).blocks if b.block_id == 'DATA']
    shard.inc('monitor:bin2tap_pairs')
    if tblocks != pblocks:
        shard.violation('bin2tap %s: the TAP file holds blocks %r, the PZX file %r' % (' '.join(args), [len(b) for b in tblocks], [len(b) for b in pblocks]), rp)
    par = 0
    for b in data:
        par ^= b
    if not tblocks or tblocks[-1] != bytes([255]) + data + bytes([par ^ 255]):
        shard.violation('bin2tap %s: last block is not flag 255 + the %d input bytes + parity' % (' '.join(args), n), rp)
    route = pick_route(rng)
    for ext in ('tap', 'pzx'):
        o = pick_opts(rng, route, len(tblocks), select=False)
        tape_case(shard, key, ext, outs[ext], o, route)

# ------------------------------------------------------------------ shard

def run(shard, spec):
    tier = shard.tier
    n = N_CASES[tier]
    idx = spec['shard']
    for c in range(n):
        if shard.out_of_time():
            shard.inc('budget_stops')
            break
        key = (idx, c)
        rng = shard.rng('case', idx, c)
        x = rng.random()
        # a few large blocks per shard, the rest short
        big = (c % 140 == 7)
        cls = 'big' if big else ('medium' if rng.random() < 0.1 else 'small')
        if x < 0.45:
            case_tzx(shard, rng, key, cls)
        elif x < 0.75:
            case_pzx(shard, rng, key, cls)
        elif x < 0.97:
            case_tap(shard, rng, key, cls)
        else:
            case_bin2tap(shard, rng, key)

def finalize(agg, tier):
    probs = []
    c = agg['counters']
    for k in ('monitor:edge_lists_checked', 'monitor:exact_comparisons', 'monitor:canonical_comparisons', 'monitor:data_blocks_checked',
              'monitor:blocks_decoded_from_edges', 'monitor:cross_format_comparisons', 'monitor:tap_round_trips', 'monitor:pzx_round_trips',
              'monitor:tapinfo_listings', 'observed:last_tail_dropped', 'observed:level_adjustments', 'observed:polarity_1', 'observed:selections'):
        if not c.get(k):
            probs.append('monitor %s observed nothing' % k)
    routes = agg['hists'].get('route', {})
    for r in ('direct', 'tapinfo', 'tap2sna'):
        if not routes.get(r):
            probs.append('route %s was never taken' % r)
    ub = agg['hists'].get('used_bits', {})
    missing = [str(u) for u in range(1, 9) if not ub.get(str(u))]
    if missing:
        probs.append('used-bits values never seen: %s' % ','.join(missing))
    return probs

def replay(shard, rp):
    k = rp.get('kind')
    if k == 'tape':
        raw = harness.unb64(rp['raw'])
        obs = tape_case(shard, ('replay',), rp['fmt'], raw, o_json(rp['opts']), rp['route'])
        print('tape replay (%s, %s): %s' % (rp['fmt'], describe_opts(rp['opts'], rp['route']), 'VIOLATED' if shard.nviolations else 'held'))
    elif k == 'cross':
        o = o_json(rp['opts'])
        a = tape_case(shard, ('replay', 'a'), rp['a'][0], harness.unb64(rp['a'][1]), o, 'direct')
        b = tape_case(shard, ('replay', 'b'), rp['b'][0], harness.unb64(rp['b'][1]), o, 'direct')
        cross_check(shard, 'replay %s vs %s' % (rp['a'][0], rp['b'][0]), a, b, rp)
        print('cross-format replay: %s' % ('VIOLATED' if shard.nviolations else 'held'))
    else:
        print('re-run ./check C11 (kind %s is regenerated from the seed)' % k)

TECHNIQUE = ('online contract on tape.get_edges (direct calls and calls captured inside tapinfo/tap2sna) decided by an executable TAP/TZX/PZX reference model, '
             'edge-distance decoding of every reported data block, cross-format edge identity, write/parse byte identity')
LEVEL_TEXT = ('Generated tapes are serialised by a reference writer, read by the real parsers and turned into edges by the real get_edges (called directly, and as '
              'called by tapinfo -a and tap2sna --tape-analysis with --tape-start/--tape-stop/--tape-skip, first-edge and polarity). Every edge list must be '
              'non-decreasing and equal to the list predicted by a reference reader/model written from the TZX and PZX texts; every DataBlock range is decoded '
              'back into bits by measuring edge distances and compared with the block bytes (used bits honoured); one logical tape written as TAP, TZX 0x10 and '
              'ROM-timed PZX, or as TZX 0x11-0x15/0x20/loops and PZX PULS/DATA/PAUS, must give identical edge lists; write_tap/write_pzx output must parse back '
              '(real parser, reference parser, tapinfo -d listing) to the bytes written.')
LEVEL_NOTE = ('Tapes are sampled (a few 16K-64K blocks per shard, the rest short); TZX blocks skoolkit does not play (jump/call/select/CSW/generalized) are outside the '
              'workload; representation conventions listed under assumptions are shared with the code under test.')
