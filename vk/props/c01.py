"""C01 - sna2skool output re-assembles (skool2bin) to the original bytes.

Boundary recorder on sna2skool.main / skool2bin.main (in-process), byte-identity oracle.
"""
import os
import re

from vk import harness
from vk.gens import memgen, ctlgen

ID = 'C01'
NEEDS_C = False
LEVEL = 'exploration'
RULE = ('random memory image (7 styles) x range x generated control file (blocks b/c/g/i/s/t/u/w, sub-blocks B/C/S/T/W with sublength lists, '
        'base prefixes, * multipliers, M and L directives; or no ctl; or -d SIZE) x sna2skool options (-H -l -w -r DefbSize DefmSize DefwSize '
        'Opcodes Wrap); a case is non-trivial when the control file has >= 2 block types and a non-default option, or an instruction wraps past '
        '65535; distinct by hash of (image, ctl, argv)')
ASSUMPTIONS = ['block and sub-block boundaries are taken from the disassembler\'s own statement sizes (precondition of the property); cases in which '
               'sna2skool nevertheless reports an overlap are counted as skipped',
               'base m is only used where a signed operand is meaningful']
MIN_NONTRIVIAL = {'quick': 300, 'thorough': 5000}
N_CASES = {'quick': 8000, 'thorough': 120000}

OPSETS = ['', 'ALL', 'XYCB', 'NEG,RETN', 'IM', 'ED63,ED6B', 'ED70,ED71']

def plan(tier, seed):
    n = 16
    return [{'shard': i, 'of': n, 'timeout': 1500 if tier == 'quick' else 14000, 'budget_s': 100 if tier == 'quick' else 3000} for i in range(n)]

def make_case(rng, case_id):
    """Returns dict with image bytes, org, ctl text (or None), argv options, snap list."""
    top = rng.random() < 0.15            # image reaching 65536
    size = rng.choice([16, 30, 64, 100, 256, 700, 2048]) if rng.random() < 0.9 else rng.choice([4096, 9000])
    if top:
        org = 65536 - size
    else:
        org = rng.choice([0, 16384, 23296, 32768, 49152, rng.randrange(0, 65536 - size)])
    data = memgen.gen_bytes(rng, size, org=org)
    snap = [0] * 65536
    snap[org:org + size] = data
    if top and rng.random() < 0.7:
        # make an instruction straddle the 64K boundary
        tail = rng.choice([[0x21], [0xC3], [0xCD, 0x34], [0x3E], [0xDD, 0x21], [0xFD, 0xCB, 0x05], [0xED, 0x43], [0xED, 0x4B, 0x00], [0x18], [0xDD, 0x36, 0x01], [0xCB]])
        snap[65536 - len(tail):65536] = tail
    opts = []
    hexm = rng.random() < 0.4
    lower = rng.random() < 0.3
    if hexm:
        opts.append('-H')
    if lower:
        opts.append('-l')
    nondefault = hexm or lower
    if rng.random() < 0.3:
        opts += ['-w', str(rng.choice([40, 60, 79, 100, 132, 200]))]
        nondefault = True
    handle_rst = rng.random() < 0.2
    if handle_rst:
        opts.append('-r')
        nondefault = True
    ini = {}
    if rng.random() < 0.3:
        ini['DefbSize'] = rng.choice([1, 2, 3, 8, 16])
    if rng.random() < 0.3:
        ini['DefmSize'] = rng.choice([1, 10, 65, 100])
    if rng.random() < 0.3:
        ini['DefwSize'] = rng.choice([1, 2, 4])
    if rng.random() < 0.5:
        ini['Opcodes'] = rng.choice(OPSETS[1:])
    wrap = top and rng.random() < 0.7
    if wrap:
        ini['Wrap'] = 1
    ini['ListRefs'] = rng.choice([0, 1, 2])
    for k, v in ini.items():
        opts += ['-I', '%s=%s' % (k, v)]
    if ini:
        nondefault = True
    mode = rng.random()
    lay = None
    start, end = org, org + size
    if rng.random() < 0.25 and size > 8:
        start = org + rng.randrange(0, size // 2)
        end = rng.randrange(start + 1, org + size + 1)
    if mode < 0.12:
        ctl = None                         # no control file: one code block; END must be an instruction boundary
        from skoolkit.disassembler import Disassembler
        e = ctlgen.code_end(Disassembler(snap, ctlgen._Cfg(handle_rst, wrap)), start, end - start, end if not wrap else 65536)
        if e is None or e <= start:
            opts += ['-d', '8']
        else:
            end = e
    elif mode < 0.2:
        ctl = None
        opts += ['-d', str(rng.choice([1, 3, 8, 16]))]
    else:
        lay = ctlgen.generate(rng, snap, start, end, handle_rst=handle_rst, wrap=wrap, annotate=1 if rng.random() < 0.5 else 0)
        ctl = lay.text()
    image = bytes(snap[org:org + size])    # the generator may have flattened 's' regions
    return {'image': image, 'org': org, 'start': start, 'end': end, 'ctl': ctl, 'opts': opts, 'layout': lay,
            'nondefault': nondefault, 'wrap': wrap, 'snap': snap}

def check_case(shard, c, case_key):
    d = os.getcwd()
    harness.write_file('in.bin', c['image'])
    argv = ['-o', str(c['org'])] + c['opts']
    if c['start'] != c['org']:
        argv += ['-s', str(c['start'])]
    if c['end'] != c['org'] + len(c['image']) or c['ctl'] is None:
        argv += ['-e', str(c['end'])]
    if c['ctl'] is not None:
        harness.write_file('in.ctl', c['ctl'])
        argv += ['-c', 'in.ctl']
    else:
        argv += ['-c', '0']
    argv.append('in.bin')
    r = harness.run_tool('sna2skool', argv)
    shard.inc('events:sna2skool_runs')
    rp = {'image': harness.b64(c['image']), 'org': c['org'], 'start': c['start'], 'end': c['end'], 'ctl': c['ctl'], 'opts': c['opts']}
    if not r.ok:
        shard.violation('sna2skool failed: %s\n%s' % (r.describe(), (r.tb or '')[-1200:]), rp, classify_crash(r))
        return None
    warns = [l for l in r.err.splitlines() if l.startswith('WARNING')]
    skool = r.out
    if any('overlaps' in w or 'Two instructions' in w for w in warns) or 'overlaps' in r.err:
        shard.skip('sna2skool reported an overlap (boundary precondition not met)')
        shard.hist('overlap_mode', 'ctl' if c['ctl'] else 'no-ctl')
        if c['ctl'] and shard.counters.get('dbg', 0) < 3:
            shard.inc('dbg')
            shard.sample({'overlap_case': rp, 'stderr': r.err[-400:]})
        return False
    harness.write_file('out.skool', skool)
    r2 = harness.run_tool('skool2bin', ['out.skool', 'out.bin'])
    shard.inc('events:skool2bin_runs')
    if not r2.ok:
        shard.violation('skool2bin failed on sna2skool output: %s\n%s\n--- skool (head)\n%s' % (r2.describe(), (r2.tb or '')[-800:], skool[:1500]), rp)
        return None
    m = re.search(r'start=(\d+), end=(\d+), size=(\d+)', r2.err)
    if not m:
        shard.violation('skool2bin printed no start/end line: %r' % r2.err[-300:], rp)
        return None
    bstart, bend = int(m.group(1)), int(m.group(2))
    out = harness.read_file('out.bin')
    snap = c['snap']
    ignored = set()
    if c['layout']:
        for a, b in c['layout'].ignored:
            ignored.update(range(a, b))
    bad = []
    wrapped = 0
    for a in range(c['start'], c['end']):
        if a in ignored:
            continue
        if not bstart <= a < bend:
            bad.append((a, snap[a], None))
        elif out[a - bstart] != snap[a]:
            bad.append((a, snap[a], out[a - bstart]))
        if len(bad) > 8:
            break
    # wrapped instruction: bytes skool2bin places past 65535 must equal the original bytes at 0..k
    if bend > 65536:
        for a in range(65536, bend):
            wrapped += 1
            if out[a - bstart] != snap[a & 0xFFFF]:
                bad.append((a, snap[a & 0xFFFF], out[a - bstart]))
    if bad:
        a0 = bad[0][0]
        ctx = [l for l in skool.splitlines() if re.match(r'^[ bcgistuw*]%05d |^[ bcgistuw*]\$%04X ' % (a0, a0 & 0xFFFF), l)]
        shard.violation('byte mismatch after sna2skool -> skool2bin at %s (address, original, got); argv=%s\n%s' % (bad[:6], argv, '\n'.join(ctx[:3])), rp)
    if wrapped:
        shard.inc('observed:wrapped_bytes', wrapped)
    shard.inc('observed:bytes_compared', c['end'] - c['start'] - len(ignored))
    return wrapped > 0

def classify_crash(r):
    return None

def run(shard, spec):
    n = N_CASES[shard.tier]
    for case in range(spec['shard'], n, spec['of']):
        rng = shard.rng('case', case)
        c = make_case(rng, case)
        key = (harness.h64(c['image']), c['org'], c['start'], c['end'], c['ctl'], c['opts'])
        res = check_case(shard, c, key)
        lay = c['layout']
        ntypes = len({b[0] for b in lay.blocks if b[0] != 'i'}) if lay else 0
        nontrivial = bool(res) or (ntypes >= 2 and c['nondefault'])
        if res is None:
            nontrivial = False
        shard.case(key, nontrivial, sample={'org': c['org'], 'range': [c['start'], c['end']], 'argv_opts': c['opts'],
                                            'ctl_head': (c['ctl'] or '(none)').splitlines()[:12]} if case < 3 else None)
        if lay:
            for f in lay.features:
                shard.hist('ctl_features', f)
            shard.inc('observed:subblocks', lay.subblocks)
        shard.hist('mode', 'ctl' if c['ctl'] else ('-d' if '-d' in c['opts'] else 'no-ctl'))
        for o in c['opts']:
            if o.startswith('-') and o not in ('-I',):
                shard.hist('options', o)
            elif '=' in o:
                shard.hist('options', o.split('=')[0])
        if shard.out_of_time():
            shard.inc('stopped_on_budget')
            break

def replay(shard, rp):
    snap = [0] * 65536
    image = harness.unb64(rp['image'])
    snap[rp['org']:rp['org'] + len(image)] = image
    c = {'image': image, 'org': rp['org'], 'start': rp['start'], 'end': rp['end'], 'ctl': rp['ctl'], 'opts': rp['opts'],
         'layout': None, 'snap': snap, 'nondefault': True, 'wrap': False}
    # ignored ranges from the ctl text
    if rp['ctl']:
        lay = ctlgen.Layout()
        blocks = []
        for l in rp['ctl'].splitlines():
            m = re.match(r'^([bcgistuw]) (\$?[0-9A-Fa-f]+)', l)
            if m:
                a = int(m.group(2)[1:], 16) if m.group(2).startswith('$') else int(m.group(2))
                blocks.append((m.group(1), a))
        for (t, a), (t2, b) in zip(blocks, blocks[1:]):
            if t == 'i':
                lay.ignored.append((a, b))
        c['layout'] = lay
    res = check_case(shard, c, None)
    shard.case(('replay',), True)
    print('replayed: result', res, 'violations', shard.nviolations)

TECHNIQUE = 'boundary recorder on the real sna2skool and skool2bin entry points with a byte-identity round-trip oracle over generated images and control files'
LEVEL_TEXT = ('Each case runs the real sna2skool.main on a generated image/range/control file/option set and feeds its stdout to the real skool2bin.main; '
              'every non-ignored original byte must come back at its address (including bytes of an instruction wrapped past 65535). Sampled, boundary-biased exploration.')
LEVEL_NOTE = 'Generated control files are well-formed by construction (boundaries from the disassembler); overlap-warning cases are skipped and counted.'
