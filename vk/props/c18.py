"""C18 - annotations and instructions survive conversion intact; line width is respected.

Boundary recorder on skool2asm.main / skool2html.main / sna2skool.main (in-process). One generated document (entries with title,
description, registers, start/mid-block/end comments, instruction comments over groups of 1..12 statements) is written (a) as a skool
file with wrap points and brace encoding chosen by the generator and (b) as a control file plus image; the outputs are read back by
readers written from the format descriptions (vk/ref/c18_ref.py) and compared, place by place, with the document.
"""
import json
import os
import shutil

from vk import harness
from vk.gens import c18_gen as G
from vk.ref import c18_ref as R

ID = 'C18'
NEEDS_C = False
LEVEL = 'exploration'
RULE = ('random document (1-3 entries; title, 0-3 description paragraphs, 0-5 registers with prefixes / delimited names, start, mid-block and end '
        'comments, 1-5 groups of 1-12 statements of code/DEFB/DEFM/DEFW/DEFS with operations up to ~80 characters; words of 1..width+30 characters aimed '
        'at the column boundaries, texts that fill a column exactly or miss by one, punctuation, braces in every position, #LIST/#TABLE with '
        '<nowrap>/<wrapalign> and :w columns) x line width 40..200 x instruction width x indent/tab/crlf x comment-width-min; each document is '
        'converted by skool2asm (from a skool file laid out at random), skool2html (same file), sna2skool (from a control file) and sna2skool->skool2asm; '
        'a case is non-trivial when it has a commented group of >= 2 statements and some annotation longer than its column; distinct by hash of (document, settings)')
ASSUMPTIONS = [
    'words are the white-space separated tokens of the annotation; the paragraph a word belongs to is compared in the ASM and HTML output (where the '
    'paragraph is the unit that is laid out) and not in the sna2skool output (only the place: title, description, register, comment of which instruction)',
    'annotation texts hold no skool macros other than #LIST/#TABLE blocks (macro expansion is C17); list items and table cells hold no braces or "|"; '
    'tables have no row/column spans; words never start with "+" or "|" (so that a rendered table row can be told from text) and a word is never a lone "."',
    'a line is over width when it has more characters than the line width (a tab counts as one character: the reading that demands least)',
    'an over-width line is accepted when, after its fixed prefix (indent/operation/separator, register name, list bullet, continuation dot), it holds at most one '
    'word, when it is a rendered table row, when it is a #LIST/#TABLE row written under <nowrap>, or when the operation field leaves less than '
    'comment-width-min for the comment and the comment text is no longer than comment-width-min',
    'the skool file given to skool2asm/skool2html encodes braces in instruction comments by the documented rules (enough adjacent opening braces that the '
    'comment does not end before its last instruction; a space between our braces and a brace of the text)',
    'ASM templates, table borders and the list bullet are the defaults',
]
MIN_NONTRIVIAL = {'quick': 600, 'thorough': 15000}
N_CASES = {'quick': 6400, 'thorough': 128000}

F_NOWARN = 'C18-asm-comment-overwidth-no-warning'

WIDTHS = [40, 41, 45, 50, 60, 72, 78, 79, 80, 81, 100, 120, 132, 160, 199, 200]

def plan(tier, seed):
    n = 16
    return [{'shard': i, 'of': n, 'timeout': 900 if tier == 'quick' else 7000, 'budget_s': 55 if tier == 'quick' else 1100} for i in range(n)]

# ------------------------------------------------------------------ settings

def make_settings(rng):
    W = rng.choice(WIDTHS) if rng.random() < 0.6 else rng.randint(40, 200)
    asm = []
    for _ in range(2 if rng.random() < 0.3 else 1):
        o = {'line-width': W}
        if rng.random() < 0.6:
            o['instruction-width'] = rng.choice([1, 5, 10, 13, 23, 30, 40, rng.randint(1, 60)])
        r = rng.random()
        if r < 0.2:
            o['tab'] = 1
        elif r < 0.6:
            o['indent'] = rng.choice([0, 1, 2, 4, 8, 12])
        if rng.random() < 0.25:
            o['crlf'] = 1
        if rng.random() < 0.4:
            o['comment-width-min'] = rng.choice([1, 5, 10, 11, 20, 40, 80])
        asm.append(o)
    sna = {'w': W}
    if rng.random() < 0.5:
        sna['InstructionWidth'] = rng.choice([1, 5, 13, 23, 30, 40])
    if rng.random() < 0.4:
        sna['CommentWidthMin'] = rng.choice([1, 5, 10, 11, 20, 40])
    chain = {'line-width': rng.choice(WIDTHS)}
    return {'W': W, 'asm': asm, 'sna': sna, 'chain': chain, 'html': rng.random() < 0.6}

def asm_argv(o, fname):
    argv = []
    for k, v in o.items():
        argv += ['-P', '%s=%s' % (k, v)]
    return argv + [fname]

def sna_argv(doc, s):
    argv = ['-o', str(doc['org']), '-c', 'in.ctl', '-w', str(s['w'])]
    for k in ('InstructionWidth', 'CommentWidthMin'):
        if k in s:
            argv += ['-I', '%s=%s' % (k, s[k])]
    return argv + ['in.bin']

# ------------------------------------------------------------------ legs

F_DIP = 'C18-sna2skool-brace-balance-dips'
F_LISTW = 'C18-asm-list-in-narrow-comment-crash'

def brace_dip(text):
    """True when, reading left to right, closing braces outnumber opening braces by more than they do over the whole text
    (a closing brace comes before a later opening brace)."""
    bal = low = 0
    for ch in text:
        if ch == '{':
            bal += 1
        elif ch == '}':
            bal -= 1
            low = min(low, bal)
    return low < min(0, bal)

def classify(problem, leg, doc=None):
    """finding id for a problem whose mechanism is a recorded defect of the unchanged tree, else None"""
    if leg == 'ctl' and problem['code'] == 'tokens' and problem['place'].endswith('instruction comment') and doc is not None:
        # mechanism: sna2skool sizes the opening/closing braces of a multi-instruction comment from the total brace balance only; when the
        # running balance dips lower than that (a '}' before a later '{'), the braces close on an earlier line and the comment is cut short
        import re
        m = re.match(r'entry (\d+) \(\d+\) group (\d+) ', problem['place'])
        if m:
            g = doc['entries'][int(m.group(1))]['groups'][int(m.group(2))]
            if len(g['instrs']) > 1 and brace_dip(g['comment']):
                return F_DIP
    if problem['code'] == 'nowarn-c' and leg in ('asm', 'chain'):
        # mechanism: a title/description/register/mid-block/end comment line (not an instruction line) is longer than the line width
        # because one word (or a table) cannot be broken, and skool2asm says nothing (it only warns for instruction lines and tables)
        return F_NOWARN
    return None

def report(shard, leg, problems, rp, head):
    by = {}
    for p in problems:
        by.setdefault((p['code'], classify(p, leg, rp.get('doc'))), []).append(p)
    for (code, fid), ps in by.items():
        what = '%s [%s] %s: %s%s' % (head, leg, ps[0]['place'], ps[0]['detail'], ' (+%d more of this kind in the case)' % (len(ps) - 1) if len(ps) > 1 else '')
        shard.inc('problems:%s:%s' % (leg, code), len(ps))
        shard.violation(what, dict(rp, leg=leg), fid)

def add_stats(shard, leg, stats):
    for k, v in stats.items():
        if v:
            shard.inc('observed:%s:%s' % (leg, k), v)

def leg_asm(shard, doc, skool, o, rp, leg='asm', fname='in.skool'):
    harness.write_file(fname, skool)
    r = harness.run_tool('skool2asm', asm_argv(o, fname))
    shard.inc('events:skool2asm_runs')
    if not r.ok:
        fid = None
        if r.exc and 'invalid width' in r.exc and 'wrap(item, width - len(prefix))' in (r.tb or '') and o.get('comment-width-min', 10) <= 2:
            # mechanism: a #LIST item in an instruction comment whose column (forced down to comment-width-min <= 2 by a long operation) is not
            # wider than the bullet prefix: textwrap is called with width <= 0 and the ValueError escapes
            fid = F_LISTW
        shard.violation('skool2asm failed [%s]: %s\n%s' % (leg, r.describe(), (r.tb or '')[-1500:]), dict(rp, leg=leg, asm_opts=o), fid)
        return
    min_cw = o.get('comment-width-min', 10)
    problems, stats = R.check_asm(doc, r.out, r.err, o['line-width'], min_cw)
    add_stats(shard, leg, stats)
    if problems:
        report(shard, leg, problems, dict(rp, asm_opts=o), 'skool2asm %s' % ' '.join(asm_argv(o, fname)))
    if stats['over_instr']:
        shard.inc('observed:%s:overwidth_instruction_lines_with_warning_checked' % leg, stats['over_instr'])

def leg_html(shard, doc, skool, rp):
    harness.write_file('in.skool', skool)
    shutil.rmtree('html', ignore_errors=True)
    single = shard.rng('html-single-page', doc['org'], len(doc['entries']), len(skool)).random() < 0.3
    r = harness.run_tool('skool2html', ['-q', '-d', 'html', '-w', 'd'] + (['-1'] if single else []) + ['in.skool'])
    shard.inc('events:skool2html_runs')
    if not r.ok:
        shard.violation('skool2html failed: %s\n%s' % (r.describe(), (r.tb or '')[-1500:]), dict(rp, leg='html'))
        return
    problems = []
    if single:
        fn = os.path.join('html', 'in', 'asm.html')
        if not os.path.isfile(fn):
            problems.append({'code': 'structure', 'place': 'single page', 'detail': 'no page %s written' % fn})
        else:
            with open(fn, encoding='utf-8') as f:
                page = f.read()
            ps, stats = R.check_html_single_page(doc['entries'], page)
            shard.inc('observed:html:single_pages')
            add_stats(shard, 'html', stats)
            problems += ps
        shutil.rmtree('html', ignore_errors=True)
        if problems:
            report(shard, 'html', problems, rp, 'skool2html -1 in.skool')
        return
    for e in doc['entries']:
        fn = os.path.join('html', 'in', 'asm', '%d.html' % e['addr'])
        if not os.path.isfile(fn):
            problems.append({'code': 'structure', 'place': 'entry %d' % e['addr'], 'detail': 'no entry page %s written' % fn})
            continue
        with open(fn, encoding='utf-8') as f:
            page = f.read()
        ps, stats = R.check_html_entry(e, page)
        shard.inc('observed:html:pages')
        add_stats(shard, 'html', stats)
        problems += ps
    shutil.rmtree('html', ignore_errors=True)
    if problems:
        report(shard, 'html', problems, rp, 'skool2html in.skool')

def arrange_ctl(rng, text):
    """The same directives in another arrangement: a control file is a set of directives keyed by address (sna2skool accepts
    several -c files and merges them), so only the relative order of the lines of one kind at one address (the paragraphs
    of a comment) carries meaning. Only the comment directives (D, R, N, E) are moved: the block and sub-block directives stay
    in address order, because a sub-block directive also ends its range and so overrides an earlier one at that address.
    Returns ([file texts], name of the arrangement)."""
    lines = text.splitlines()
    k = rng.random()
    if k < 0.55:
        return [text], 'canonical'
    annot = [l for l in lines if l[:1] in 'DRNE']
    struct = [l for l in lines if l[:1] not in 'DRNE']
    if k < 0.7:
        return ['\n'.join(struct + annot) + '\n'], 'annotations-last'
    if k < 0.85:
        return ['\n'.join(struct) + '\n', '\n'.join(annot) + '\n'], 'annotations-in-second-file'
    # annotations first: every comment directive precedes the block structure it annotates
    return ['\n'.join(lines[:1] + annot + struct[1:]) + '\n'], 'annotations-first'

def leg_ctl(shard, doc, s, rp):
    files, arrangement = arrange_ctl(shard.rng('ctl-arrangement', doc['org'], len(doc['entries']), s['sna']['w']), G.to_ctl(doc))
    harness.write_file('in.ctl', files[0])
    harness.write_file('in.bin', G.to_image(doc))
    argv = sna_argv(doc, s['sna'])
    if len(files) > 1:
        harness.write_file('in2.ctl', files[1])
        argv[argv.index('in.ctl') + 1:argv.index('in.ctl') + 1] = ['-c', 'in2.ctl']
    shard.hist('ctl_arrangement', arrangement)
    r = harness.run_tool('sna2skool', argv)
    shard.inc('events:sna2skool_runs')
    if not r.ok:
        shard.violation('sna2skool failed: %s\n%s' % (r.describe(), (r.tb or '')[-1500:]), dict(rp, leg='ctl'), classify_crash(r))
        return
    if 'WARNING' in r.err:
        shard.inc('observed:ctl:runs_with_warnings')
        shard.sample({'sna2skool_warning': r.err[-300:]})
    problems, stats = R.check_skool_out(doc, r.out, s['sna']['w'], s['sna'].get('CommentWidthMin', 10))
    add_stats(shard, 'ctl', stats)
    if problems:
        report(shard, 'ctl', problems, rp, 'sna2skool %s' % ' '.join(argv))
        return
    # chain: what sna2skool wrote, read by the real skool parser
    leg_asm(shard, doc, r.out, s['chain'], rp, leg='chain', fname='chain.skool')

def classify_crash(r):
    return None

# ------------------------------------------------------------------ cases

def make_case(rng):
    s = make_settings(rng)
    level = 0 if rng.random() < 0.2 else 2
    legs = ('asm', 'html', 'ctl')
    doc = G.gen_doc(rng, s['W'], brace_level=level, blocks=rng.random() < 0.8)
    return doc, s, legs, level

def nontrivial(doc, s):
    W = s['W']
    multi = any(len(g['instrs']) > 1 and g['comment'] for e in doc['entries'] for g in e['groups'])
    longtext = any(len(g['comment']) > W - 30 for e in doc['entries'] for g in e['groups']) or any(len(e['title']) > W - 2 for e in doc['entries'])
    return multi and longtext

def run_case(shard, doc, s, legs, seedkey):
    rp = {'doc': doc, 'settings': s, 'legs': list(legs), 'skool_rng': seedkey}
    skool = G.to_skool(doc, shard.rng('skool', *seedkey))
    rp['skool'] = skool
    if 'asm' in legs:
        for o in s['asm']:
            leg_asm(shard, doc, skool, o, rp)
    if 'html' in legs and s['html']:
        leg_html(shard, doc, skool, rp)
    if 'ctl' in legs:
        leg_ctl(shard, doc, s, rp)

def run(shard, spec):
    n = N_CASES[shard.tier]
    for case in range(spec['shard'], n, spec['of']):
        rng = shard.rng('case', case)
        doc, s, legs, level = make_case(rng)
        key = harness.h64([doc, s, list(legs)])
        run_case(shard, doc, s, legs, ('case', case))
        shard.case(key, nontrivial(doc, s), sample={'line_width': s['W'], 'asm_properties': s['asm'], 'sna2skool': s['sna'], 'legs': list(legs),
                                                    'first_entry_title': doc['entries'][0]['title'][:120],
                                                    'first_group': doc['entries'][0]['groups'][0]} if case < 2 else None)
        shard.hist('line_width', s['W'] if s['W'] in WIDTHS else 'other:%d-%d' % (s['W'] // 40 * 40, s['W'] // 40 * 40 + 39))
        shard.hist('brace_level', level)
        for o in s['asm']:
            for k, v in o.items():
                if k != 'line-width':
                    shard.hist('asm:' + k, v)
        for k, v in s['sna'].items():
            if k != 'w':
                shard.hist('sna2skool:' + k, v)
        for f in G.features(doc):
            shard.hist('features', f)
        for e in doc['entries']:
            for g in e['groups']:
                shard.hist('group_size', len(g['instrs']))
                shard.hist('group_kind', g['kind'])
        if shard.out_of_time():
            shard.inc('stopped_on_budget')
            break

def finalize(agg, tier):
    c = agg['counters']
    out = []
    for k in ('observed:asm:words', 'observed:asm:instrs', 'observed:asm:over_justified', 'observed:asm:over_instr', 'observed:html:words', 'observed:html:instrs',
              'observed:ctl:words', 'observed:ctl:instrs', 'observed:ctl:groups_multi', 'observed:ctl:over_justified', 'observed:chain:words',
              'observed:asm:tables'):
        if k == 'observed:asm:tables':
            continue
        if not c.get(k):
            out.append('deciding monitor %s saw nothing' % k)
    return out

def replay(shard, rp):
    doc, s = rp['doc'], rp['settings']
    leg = rp.get('leg')
    skool = rp.get('skool') or G.to_skool(doc, shard.rng('skool', *rp['skool_rng']))
    if leg in ('asm', None):
        for o in ([rp['asm_opts']] if 'asm_opts' in rp else s['asm']):
            leg_asm(shard, doc, skool, o, rp)
    if leg in ('html', None):
        leg_html(shard, doc, skool, rp)
    if leg in ('ctl', 'chain', None):
        leg_ctl(shard, doc, s, rp)
    shard.case(('replay',), True)
    print('replayed: violations', shard.nviolations)
    for v in shard.violations:
        print(' -', v['what'][:600])

TECHNIQUE = ('boundary recorder on the real skool2asm, skool2html and sna2skool entry points; independent readers of the ASM text, the HTML entry page and the '
             'skool file reconstruct every annotation place and instruction, compared token by token with the generated document; line-width rule and warning rule '
             'checked on every emitted line')
LEVEL_TEXT = ('Each case writes one generated document as a skool file (layout chosen at random) and as a control file + image, runs the real tools on them and reads '
              'the outputs back with readers written from the format descriptions (entry pages and the skool2html -1 single page; control files with the comment directives first, last or in a second -c file). '
              'Sampled, boundary-biased exploration over text lengths and width settings.')
LEVEL_NOTE = 'Macros other than #LIST/#TABLE, table spans, custom templates and the -H/-l conversions are outside the generated space.'
