"""C06 - all four simulator implementations execute every program identically.

Lock-step stepping of the Python and C member of each pair (plain, contended) with a recording tracer;
oracle = equality of registers, memory and port events after every instruction; plus run(start, stop,
interrupts) to a stop address and the trace.py tool with and without --python. Runs under the gcc build and
(thorough) under the clang ASan/UBSan build of the C extension.
"""
import os

from vk import harness, sims
from vk.gens import proggen

ID = 'C06'
NEEDS_C = True
LEVEL = 'exploration'
RULE = ('random/structured programs (6 byte styles, PC/SP/pointers biased to 0x0000/0x3FFF/0x4000/0x7FFF/0x8000/0xBFFF/0xC000/0xFFFF, any T in the '
        'frame, IM 0/1/2) on 48K list memory and 128K paged memory, stepped in lock step (Python vs C) for up to 300 instructions with '
        'interrupt acceptance attempted after every step; a program is non-trivial when it executed >= 20 instructions of >= 8 distinct first opcode bytes; '
        'distinct by hash of (image, registers, machine, pair)')
ASSUMPTIONS = ['port inputs are a deterministic function of (seed, event index, port), identical for both members',
               'tracer-less runs are only made on 48K memory (without a tracer the Python simulator has no paging by design)',
               'plain vs contended pairs are compared within the pair only (cross-pair equality is C19)']
MIN_NONTRIVIAL = {'quick': 400, 'thorough': 8000}
N_PROGS = {'quick': 2400, 'thorough': 60000}
STEPS = 300

IGNORE_PLAIN = ()

def plan(tier, seed):
    specs = []
    n = 14
    for i in range(n):
        specs.append({'part': 'step', 'shard': i, 'of': n, 'timeout': 600 if tier == 'quick' else 14000, 'budget_s': 90 if tier == 'quick' else 2400})
    ns = 2 if tier == 'quick' else 8
    for i in range(ns):
        specs.append({'part': 'slots', 'shard': i, 'of': ns, 'timeout': 600 if tier == 'quick' else 14000, 'budget_s': 90 if tier == 'quick' else 2400})
    specs.append({'part': 'run', 'shard': 0, 'of': 1, 'timeout': 600 if tier == 'quick' else 14000, 'budget_s': 60 if tier == 'quick' else 1500})
    specs.append({'part': 'tool', 'shard': 0, 'of': 1, 'timeout': 600 if tier == 'quick' else 14000, 'budget_s': 60 if tier == 'quick' else 1500})
    specs.append({'part': 'fast', 'shard': 0, 'of': 1, 'timeout': 600 if tier == 'quick' else 14000, 'budget_s': 60 if tier == 'quick' else 1500})
    if tier == 'thorough':
        for i in range(4):
            specs.append({'part': 'step', 'shard': i, 'of': 4, 'flavour': 'asan', 'asan_scale': 0.1, 'timeout': 14000, 'budget_s': 2400})
    else:
        specs.append({'part': 'step', 'shard': 0, 'of': 1, 'flavour': 'asan', 'asan_scale': 0.04, 'timeout': 1500, 'budget_s': 90})
    return specs

def make_program(rng, is128):
    org = proggen.addr16(rng)
    n = rng.choice([8, 30, 100, 400])
    code = proggen.program_bytes(rng, n, org)
    frame = 70908 if is128 else 69888
    regs = proggen.regs30(rng, pc=org, frame=frame)
    if is128:
        banks = []
        for b in range(8):
            k = rng.random()
            if k < 0.5:
                banks.append([(b * 31 + 7) & 0xFF] * 16384)
            else:
                banks.append([rng.randrange(256) for _ in range(16384)])
        o7ffd = rng.choice([0, 1, 3, 4, 7, 0x10, 0x17, 0x20 | rng.randrange(8), rng.randrange(256)])
        # place code through the current mapping
        page = {1: 5, 2: 2, 3: o7ffd & 7}
        for i, x in enumerate(code):
            a = (org + i) & 0xFFFF
            if a >= 0x4000:
                banks[page[a >> 14]][a & 0x3FFF] = x
        # code that pages: sprinkle OUT (C),r / OUT (n),A with BC=0x7FFD
        if rng.random() < 0.5:
            regs[2], regs[3] = 0x7F, 0xFD
        return banks, regs, o7ffd, org, code
    image = proggen.image48(rng, org, code)
    return image, regs, 0, org, code

def lockstep(shard, pair, image, regs, o7ffd, steps, tracer, seed, rp):
    """Returns (steps executed, distinct first opcode bytes) or None after a violation."""
    kp, kc = pair
    mp = sims.Machine(kp, image, regs, o7ffd, tracer, seed, logmem=True)
    mc = sims.Machine(kc, image, regs, o7ffd, tracer, seed)
    ops = set()
    is128 = len(image) == 8
    frame = 70908 if is128 else 69888
    int_active = 36 if is128 else 32
    pmem = mp.sim.memory
    cmem = mc.sim.memory
    for step in range(steps):
        pc = mp.sim.registers[24]
        ops.add(pmem[pc])
        if tracer:
            mp.tracer.events.clear()
            mc.tracer.events.clear()
        if not is128:
            pmem.log.clear()
        try:
            mp.step()
        except Exception as e:
            shard.violation('%s simulator raised %r at step %d (PC=%d)' % (kp, e, step, pc), rp)
            return None
        try:
            mc.step()
        except Exception as e:
            shard.violation('%s simulator raised %r at step %d (PC=%d)' % (kc, e, step, pc), rp)
            return None
        rpy, rcc = mp.regs, mc.regs
        shard.inc('monitor:steps_compared')
        if rpy != rcc:
            d = sims.diff_regs(rpy, rcc)
            shard.violation('%s vs %s registers differ after step %d (instruction at %d: %s): %s' % (
                kp, kc, step, pc, bytes(pmem[(pc + k) & 0xFFFF] for k in range(4)).hex(), d), rp, classify(d, pmem, pc, is128))
            return None
        if tracer and mp.tracer.events != mc.tracer.events:
            shard.violation('%s vs %s port events differ at step %d (PC=%d): %r vs %r' % (kp, kc, step, pc, mp.tracer.events[:4], mc.tracer.events[:4]), rp)
            return None
        if tracer and mp.tracer.events:
            shard.inc('monitor:port_events', len(mp.tracer.events))
        if not is128:
            for a, v in pmem.log:
                if cmem[a] != pmem[a]:
                    shard.violation('%s vs %s memory[%d] differs after step %d (PC=%d): %d vs %d' % (kp, kc, a, step, pc, pmem[a], cmem[a]), rp)
                    return None
            shard.inc('monitor:stores_compared', len(pmem.log))
        # interrupt acceptance API compared after every step (the tools decide *when*; here both get the same call)
        if rpy[26] and step % 3 == 0:
            try:
                a1 = mp.sim.accept_interrupt(mp.sim.registers, pmem, pc)
                a2 = mc.sim.accept_interrupt(mc.sim.registers, cmem, pc)
            except Exception as e:
                shard.violation('accept_interrupt raised %r at step %d' % (e, step), rp)
                return None
            shard.inc('monitor:accept_interrupt_calls')
            if bool(a1) != bool(a2) or mp.regs != mc.regs:
                shard.violation('%s vs %s accept_interrupt differs after step %d (prev PC=%d): returned %r/%r, regs diff %s' % (
                    kp, kc, step, pc, a1, a2, sims.diff_regs(mp.regs, mc.regs)), rp)
                return None
        if step % 64 == 63 or step == steps - 1:
            if mp.flat() != mc.flat():
                shard.violation('%s vs %s memory images differ after step %d' % (kp, kc, step), rp)
                return None
            shard.inc('monitor:full_memory_compares')
    return step + 1, len(ops)

def classify(diff, mem, pc, is128):
    return None

def run_step(shard, spec):
    n = N_PROGS[shard.tier]
    if spec.get('asan_scale'):
        n = max(40, int(n * spec['asan_scale']))
    for case in range(spec['shard'], n, spec['of']):
        rng = shard.rng('step', case)
        is128 = rng.random() < 0.4
        image, regs, o7ffd, org, code = make_program(rng, is128)
        pair = ('py', 'c') if rng.random() < 0.5 else ('pycmio', 'ccmio')
        tracer = True if is128 else rng.random() < 0.85
        seed = rng.randrange(1 << 30)
        rp = {'part': 'step', 'case': case, 'pair': pair, 'is128': is128, 'flavour': spec.get('flavour', 'plain')}
        res = lockstep(shard, pair, image, regs, o7ffd, STEPS, tracer, seed, rp)
        key = ('step', case, pair)
        if res is None:
            shard.case(key, False)
        else:
            nsteps, nops = res
            shard.case(key, nsteps >= 20 and nops >= 8,
                       sample={'machine': '128K' if is128 else '48K', 'pair': pair, 'org': org, 'code_head': bytes(code[:12]).hex(),
                               'regs': sims.fmt_regs(regs), 'steps': nsteps, 'distinct_opcodes': nops} if case < 2 else None)
            shard.hist('machine/pair', '%s/%s' % ('128K' if is128 else '48K', pair[0]))
            shard.hist('tracer', 'present' if tracer else 'absent')
        if shard.out_of_time():
            shard.inc('stopped_on_budget')
            break

# ---- run(start, stop, interrupts) on terminating programs

SAFE1 = [0x00, 0x04, 0x05, 0x0C, 0x0D, 0x1C, 0x2C, 0x3C, 0x3D, 0x07, 0x0F, 0x17, 0x1F, 0x27, 0x2F, 0x37, 0x3F, 0x03, 0x0B, 0x13, 0x23, 0x2B,
         0x80, 0x88, 0x90, 0x98, 0xA0, 0xA8, 0xB0, 0xB8, 0x86, 0x8E, 0x96, 0xBE, 0x77, 0x70, 0x7E, 0x46, 0x34, 0x35, 0x08, 0xD9, 0xEB,
         0xFB, 0xFB]

def safe_program(rng, n, halt=False):
    """Straight-line program that always reaches its end (no DI; HALT only directly after EI and only when the run
    accepts interrupts)."""
    out = []
    while len(out) < n:
        k = rng.random()
        if halt and k < 0.02:
            out += [0xFB, 0x76]
        elif k < 0.55:
            out.append(rng.choice(SAFE1))
        elif k < 0.7:
            out += [rng.choice([0x06, 0x0E, 0x3E, 0xC6, 0xD6, 0xE6, 0xEE, 0xF6, 0xFE, 0xDB, 0xD3]), rng.randrange(256)]
        elif k < 0.8:
            out += [0xCB, (rng.randrange(256) & 0xF8) | rng.choice([0, 1, 6, 7])]     # never D/E/H/L: they are pointers
        elif k < 0.9:
            out += [0xED, rng.choice([0x44, 0x4F, 0x57, 0x5F, 0x67, 0x6F, 0xA0, 0xA8, 0xA1, 0xA9, 0x46, 0x56, 0x5E, 0x78, 0x79, 0x41, 0xA2, 0xA3])]
        elif k < 0.95:
            op = rng.choice([0x23, 0x2B, 0x2C, 0x7E, 0x77, 0x34, 0x86])
            out += [rng.choice([0xDD, 0xFD]), op] + ([rng.randrange(256)] if op in (0x7E, 0x77, 0x34, 0x86) else [])
        else:
            out += [0x18, 0x00] if rng.random() < 0.5 else [0x10, 0x00]
    return out

def run_run(shard, spec):
    n = 300 if shard.tier == 'quick' else 6000
    for case in range(n):
        rng = shard.rng('run', case)
        org = rng.choice([0x8000, 0x6000, 0xD000, 0xFF00, 0x4000])
        ninstr = rng.choice([50, 400, 3000])
        interrupts = rng.random() < 0.8
        if org == 0xFF00:
            ninstr = min(ninstr, 90)      # wraps past 0xFFFF but stays clear of the handler at 0x38
        code = safe_program(rng, ninstr, halt=interrupts)
        mem = [0] * 65536
        # handlers: IM 1 -> EI; RET at 0x38; IM 2 table at I=0x3B.. in "ROM" -> vector read from there
        mem[0x38:0x3A] = [0xFB, 0xC9]
        for i, b in enumerate(code):
            mem[(org + i) & 0xFFFF] = b
        stop = (org + len(code)) & 0xFFFF
        # the safe set's three-byte DD/FD forms may leave a dangling operand: pad with NOPs so that stop is reached
        for k in range(4):
            mem[(stop + k) & 0xFFFF] = 0
        stop = (stop + 3) & 0xFFFF
        regs = proggen.regs30(rng, pc=org, iff=1)
        regs[12] = 0x7F00
        regs[27] = rng.choice([1, 1, 2])
        regs[14] = 0x3B
        # pointer registers (and their shadows) well away from code, stack and handlers; the safe set has no 16-bit
        # arithmetic, so stores stay within a few thousand bytes of these
        regs[6], regs[7] = 0xB0, 0x00
        regs[4], regs[5] = 0xB8, 0x00
        regs[22], regs[23] = 0xA8, 0x00
        regs[20], regs[21] = 0xA0, 0x00
        regs[8], regs[9], regs[10], regs[11] = 0xB1, 0x00, 0xB2, 0x00
        mem[0x3BFF], mem[0x3C00] = 0x38, 0x00
        pair = ('py', 'c') if rng.random() < 0.5 else ('pycmio', 'ccmio')
        rp = {'part': 'run', 'case': case, 'pair': pair}
        out = []
        for kind in pair:
            m = sims.Machine(kind, mem, regs, 0, True, case)
            try:
                with harness.time_limit(20):
                    m.sim.run(org, stop, interrupts)
            except harness.CaseTimeout:
                shard.skip('run-to-stop program did not reach its stop address within the wall-clock watchdog (%s)' % kind)
                shard.sample({'non_terminating_run_case': case, 'kind': kind, 'org': org, 'stop': stop, 'code_head': bytes(code[:64]).hex()})
                out = None
                break
            except Exception as e:
                shard.violation('%s run(start, stop, interrupts) raised %r' % (kind, e), rp)
                out = None
                break
            out.append((m.regs, m.flat(), list(m.tracer.events)))
        if out is None:
            continue
        shard.inc('monitor:run_to_stop_compared')
        (r1, f1, e1), (r2, f2, e2) = out
        if r1 != r2 or f1 != f2 or e1 != e2:
            what = sims.diff_regs(r1, r2) if r1 != r2 else ('memory differs' if f1 != f2 else 'port events differ')
            shard.violation('%s vs %s run(%d, %d, interrupts=%s) differ: %s' % (pair[0], pair[1], org, stop, interrupts, what), rp)
        shard.case(('run', case), True, sample={'run': [org, stop], 'interrupts': interrupts, 'pair': pair, 'instructions': ninstr,
                                                'final_T': r1[25], 'port_events': len(e1)} if case < 2 else None)
        shard.hist('run_final_T_frames', r1[25] // 69888)
        if shard.out_of_time():
            break

# ---- tool level: trace.py with and without --python

def run_tool(shard, spec):
    n = 60 if shard.tier == 'quick' else 1500
    run_tool_fast(shard, 60 if shard.tier == 'quick' else 1500)
    for case in range(n):
        rng = shard.rng('tool', case)
        is128 = rng.random() < 0.35
        org = rng.choice([0x8000, 0x6000, 0xC000, 0xFFF0])
        code = proggen.program_bytes(rng, rng.choice([30, 200]), org) if rng.random() < 0.5 else safe_program(rng, 100)
        code = code[:65536 - org]          # a binary file must fit below 64K at its origin
        harness.write_file('prog.bin', bytes(code))
        nops = rng.choice([50, 500, 5000])
        args = ['-o', str(org), '-m', str(nops), '-vv']
        if rng.random() < 0.5:
            args.append('-c')
        if rng.random() < 0.2:
            args.append('-n')
        if rng.random() < 0.3:
            args.append('-D')
        args += ['--reg', 'SP=%d' % rng.choice([0x7F00, 0, 0x4001, 0xFFFF]), '--state', 'tstates=%d' % rng.randrange(69888)]
        outs = []
        for py in (False, True):
            ext = rng.choice(['z80', 'szx'])
            fn = 'out_%d.%s' % (py, 'szx')
            a = list(args) + (['--python'] if py else [])
            if is128:
                # a 128K machine without a snapshot: load the program through --poke-free path: bin files are 48K only,
                # so 128K runs start from an empty machine and poke the code in
                a = [x for x in a if x not in ('-o', str(org))]
                pokes = []
                for i, b in enumerate(code[:120]):
                    pokes += ['-p', '%d,%d' % ((org + i) & 0xFFFF, b)]
                a = a + pokes + ['-s', str(org), '128', fn]
            else:
                a = a + ['prog.bin', fn]
            r = harness.run_tool('trace', a)
            if not r.ok:
                shard.violation('trace.py %s failed: %s\n%s' % ('--python' if py else '(C)', r.describe(), (r.tb or '')[-800:]), {'part': 'tool', 'case': case})
                outs = None
                break
            outs.append((r.out.replace(fn, 'OUT'), harness.read_file(fn)))
        if outs is None:
            continue
        shard.inc('monitor:trace_tool_pairs')
        if outs[0][0] != outs[1][0]:
            l0, l1 = outs[0][0].splitlines(), outs[1][0].splitlines()
            i = next((k for k in range(min(len(l0), len(l1))) if l0[k] != l1[k]), min(len(l0), len(l1)))
            shard.violation('trace.py stdout differs with --python at line %d:\n C : %s\n Py: %s' % (i, l0[i] if i < len(l0) else '<eof>', l1[i] if i < len(l1) else '<eof>'), {'part': 'tool', 'case': case, 'args': args})
        elif outs[0][1] != outs[1][1]:
            shard.violation('trace.py snapshot differs with --python (same stdout); args %s' % args, {'part': 'tool', 'case': case, 'args': args})
        shard.case(('tool', case), True, sample={'trace_args': args, '128K': is128, 'log_lines': len(outs[0][0].splitlines())} if case < 2 else None)
        if shard.out_of_time():
            break

def fast_mode_program(rng, org):
    """Terminating program of block copies and DJNZ delay loops, mostly with interrupts disabled: the shapes the Python
    simulator's shortcuts take over when trace.py runs without -v/-m/-M. Copies stay clear of the code."""
    out = [0xF3] if rng.random() < 0.8 else [0xFB]
    for _ in range(rng.randint(2, 6)):
        k = rng.random()
        if k < 0.6:
            de = rng.choice([0x3FF0, 0x3FFE, 0x3FFF, 0x4000, 0x4001, 0x5AF0, 0xB000, 0xFFF0, 0xFFFE, 0x0000, 0x0005]) + rng.randint(0, 3)
            down = rng.random() < 0.5
            bc = rng.choice([1, 2, 3, 15, 16, 17, 0x40, 0x101])
            if down and 0xB000 <= de < 0xB004:
                de += 0x200
            hl = rng.choice([de - 1, de + 1, 0x0000, 0x3FF8, 0x5000, 0xA000, 0xFFF8]) & 0xFFFF
            out += [0x3E, rng.randrange(256), 0x21, hl & 0xFF, hl >> 8, 0x11, de & 0xFF, (de >> 8) & 0xFF, 0x01, bc & 0xFF, bc >> 8, 0xED, 0xB8 if down else 0xB0]
        elif k < 0.85:
            out += [0x06, rng.choice([0, 1, 2, 0x80, 0xFF, rng.randrange(256)]), 0x10, 0xFE]
        elif k < 0.93:
            out += [rng.choice([0xF3, 0xFB])]
        else:
            out += safe_program(rng, 6)
    return out

# ---- the Python simulator's shortcuts (fast_djnz / fast_ldir, used by trace.py without -v/-m/-M and by #SIM)

FAST_PTRS = [0x0000, 0x0001, 0x3FF0, 0x3FFD, 0x3FFE, 0x3FFF, 0x4000, 0x4001, 0x4002, 0x7FFF, 0x8000, 0xBFFF, 0xC000, 0xFFF0, 0xFFFD, 0xFFFE, 0xFFFF]

def run_fast(shard, spec):
    """One run() of a Simulator built with fast_djnz/fast_ldir (it may execute many iterations of LDIR/LDDR/DJNZ at once)
    against the ordinary Python simulator and the C simulator iterated until their clocks reach the same T: registers and
    the whole memory must be identical (the shortcut is an optimisation, not a different machine)."""
    from skoolkit import simutils
    from skoolkit.simulator import Simulator
    n = 1500 if shard.tier == 'quick' else 40000
    for case in range(n):
        rng = shard.rng('fast', case)
        kind = rng.choice(['ldir', 'ldir', 'lddr', 'lddr', 'djnz'])
        pc = rng.choice([0x8000, 0x7FFE, 0x3FFE, 0x3FFF, 0x4000, 0xFFFE, 0xFFFF, 0xC000, rng.randrange(65536)])
        regs = proggen.regs30(rng, pc=pc)
        regs[26] = 0 if rng.random() < 0.8 else 1
        bg = rng.random()
        if bg < 0.5:
            image = [rng.randrange(256) for _ in range(65536)]
        else:
            image = [(i * 13 + (i >> 8)) & 0xFF for i in range(65536)]
        if kind == 'djnz':
            code = [0x10, 0xFE if rng.random() < 0.8 else rng.choice([0x00, 0xFD, 0xFF, 0x02])]
            regs[2] = rng.choice([0, 1, 2, 3, 0x7F, 0x80, 0xFF, rng.randrange(256)])
        else:
            code = [0xED, 0xB0 if kind == 'ldir' else 0xB8]
            bc = rng.choice([1, 1, 2, 3, 5, 16, 17, 0x100, 0x101, rng.randrange(1, 400)] + ([0] if rng.random() < 0.03 else []))
            regs[2], regs[3] = bc >> 8, bc & 0xFF
            r = rng.random()
            if r < 0.45:
                de = (rng.choice(FAST_PTRS) + rng.randint(-20, 20)) & 0xFFFF
            elif r < 0.7:
                de = (pc + rng.randint(-24, 24)) & 0xFFFF           # the copy runs over the instruction itself
            else:
                de = rng.randrange(65536)
            r = rng.random()
            if r < 0.3:
                hl = (de + rng.choice([-1, 1, -2, 2])) & 0xFFFF      # overlapping (propagating fill)
            elif r < 0.6:
                hl = (rng.choice(FAST_PTRS) + rng.randint(-20, 20)) & 0xFFFF
            else:
                hl = rng.randrange(65536)
            regs[4], regs[5] = de >> 8, de & 0xFF
            regs[6], regs[7] = hl >> 8, hl & 0xFF
        for i, b in enumerate(code):
            image[(pc + i) & 0xFFFF] = b
        rp = {'part': 'fast', 'case': case}
        fast = simutils.from_memory(Simulator, list(image), config={'fast_djnz': True, 'fast_ldir': True})
        sims.set_regs(fast, regs)
        try:
            fast.run()
        except Exception as e:
            shard.violation('fast Python simulator raised %r on %s from %s' % (e, bytes(code).hex(), sims.fmt_regs(regs)), rp)
            continue
        fregs = list(fast.registers)
        ft = fregs[25]
        iterations = 0
        for other in ('py', 'c'):
            m = sims.Machine(other, image, regs, 0, False, 0)
            steps = 0
            while m.sim.registers[25] < ft and steps < 70000:
                m.step()
                steps += 1
            iterations = max(iterations, steps)
            oregs = m.regs
            diff = [(sims.REGNAMES[i], fregs[i], oregs[i]) for i in range(29) if i != 13 and fregs[i] != oregs[i]]
            shard.inc('monitor:fast_path_comparisons')
            if diff:
                shard.violation('fast Python simulator (one run() of %s at %d) vs %s iterated %d times: (register, fast, iterated) %s; start state %s' % (
                    bytes(code).hex(), pc, other, steps, diff[:8], sims.fmt_regs(regs)), rp)
                break
            omem = m.sim.memory
            if bytes(fast.memory) != bytes(omem):
                bad = [(a, fast.memory[a], omem[a]) for a in range(65536) if fast.memory[a] != omem[a]][:6]
                shard.violation('fast Python simulator (one run() of %s at %d) vs %s iterated %d times: memory (address, fast, iterated) %s; start state %s' % (
                    bytes(code).hex(), pc, other, steps, bad, sims.fmt_regs(regs)), rp)
                break
        if iterations > 1:
            shard.inc('observed:fast_path_multi_iteration')
        shard.hist('fast_iterations', '1' if iterations <= 1 else ('2-16' if iterations <= 16 else ('17-400' if iterations <= 400 else '>400')))
        shard.case(('fast', case), iterations > 1, sample={'code': bytes(code).hex(), 'pc': pc, 'iterations': iterations} if case < 3 else None)
        if shard.out_of_time():
            break

def run_tool_fast(shard, n):
    """trace.py without -v/-m/-M (the mode in which the Python simulator uses its shortcuts), with and without --python."""
    for case in range(n):
        rng = shard.rng('toolfast', case)
        org = rng.choice([0x8000, 0x6000, 0x9000])
        code = fast_mode_program(rng, org)
        stop = org + len(code)
        harness.write_file('prog.bin', bytes(code + [0, 0, 0, 0]))
        args = ['-o', str(org), '-S', str(stop)]
        if rng.random() < 0.3:
            args.append('-c')
        if rng.random() < 0.3:
            args.append('-n')
        args += ['--reg', 'SP=%d' % rng.choice([0x7F00, 0x7000]), '--state', 'tstates=%d' % rng.randrange(69888), '--state', 'iff=%d' % rng.randrange(2)]
        outs = []
        for py in (False, True):
            fn = 'fast_%d.%s' % (py, 'szx')
            a = list(args) + (['--python'] if py else []) + ['prog.bin', fn]
            try:
                with harness.time_limit(60):
                    r = harness.run_tool('trace', a)
            except harness.CaseTimeout:
                shard.skip('trace.py fast-mode program did not reach its stop address within the wall-clock watchdog')
                outs = None
                break
            if not r.ok:
                shard.violation('trace.py %s failed: %s\n%s' % ('--python' if py else '(C)', r.describe(), (r.tb or '')[-800:]), {'part': 'tool', 'fastcase': case})
                outs = None
                break
            outs.append((r.out.replace(fn, 'OUT'), harness.read_file(fn)))
        if outs is None:
            continue
        shard.inc('monitor:trace_fast_mode_pairs')
        if outs[0][0] != outs[1][0]:
            shard.violation('trace.py (no -v/-m: fast mode) stdout differs with --python: C %r, Python %r; args %s, program %s' % (
                outs[0][0][-200:], outs[1][0][-200:], args, bytes(code).hex()), {'part': 'tool', 'fastcase': case, 'args': args})
        elif outs[0][1] != outs[1][1]:
            from skoolkit.snapshot import Snapshot
            s0, s1 = Snapshot.get('fast_0.szx'), Snapshot.get('fast_1.szx')
            what = [(k, getattr(s0, k), getattr(s1, k)) for k in ('a', 'f', 'bc', 'de', 'hl', 'ix', 'iy', 'sp', 'pc', 'i', 'r', 'iff1', 'im', 'tstates') if getattr(s0, k, None) != getattr(s1, k, None)]
            shard.violation('trace.py (no -v/-m: fast mode) snapshot differs with --python: (field, C, Python) %s%s; args %s, program %s' % (
                what, '' if what else ' RAM differs', args, bytes(code).hex()), {'part': 'tool', 'fastcase': case, 'args': args})
        shard.case(('toolfast', case), True, sample={'trace_args': args, 'program': bytes(code).hex()} if case < 2 else None)
        if shard.out_of_time():
            break

# ---- every opcode slot from boundary-biased states, one step, Python vs C

W16 = [0x0000, 0x0001, 0x00FF, 0x0100, 0x3FFF, 0x4000, 0x7FFF, 0x8000, 0x8001, 0xBFFF, 0xC000, 0xFFFE, 0xFFFF]

def slot_state(rng, addr):
    r = proggen.regs30(rng, pc=addr)
    for hi in (2, 4, 6, 8, 10, 18, 20, 22):
        if rng.random() < 0.6:
            v = rng.choice(W16)
            r[hi], r[hi + 1] = v >> 8, v & 0xFF
    if rng.random() < 0.5:
        r[12] = rng.choice(W16)
    r[1] = rng.choice([0x00, 0x01, 0xFF, 0xFE, 0x40, 0x41, 0x10, 0x11, 0x02, 0x03, 0x80, 0x04, rng.randrange(256)])
    if rng.random() < 0.25:
        # around the frame boundary / interrupt-acceptance window (HALT and LD A,I/R look at it), interrupts enabled
        r[25] = 69888 * rng.choice([1, 2, 7]) + rng.randint(-14, 40)
        r[26] = 1
    return r

def run_slots(shard, spec):
    from vk.props.c07 import sequences
    seqs = list(sequences())
    k = 64 if shard.tier == 'quick' else 1500
    zero = [0] * 65536
    ms = {}
    def machine(kind):
        if kind not in ms:
            ms[kind] = sims.Machine(kind, zero, [0] * 30, 0, True, 0, logmem=True)
        return ms[kind]
    for ci, (table, seq) in enumerate(seqs):
        if ci % spec['of'] != spec['shard']:
            continue
        for j in range(k):
            rng = shard.rng('slots', table, ci, j)
            pair = ('py', 'c') if j % 2 == 0 else ('pycmio', 'ccmio')
            addr = rng.choice([0x8000, 0x7FFE, 0xBFFD, 0xFFFD, 0xFFFE, 0xFFFF, 0x3FFE, 0x4000, rng.randrange(65536)])
            b = [x if x is not None else rng.randrange(256) for x in seq] + [rng.randrange(256) for _ in range(3)]
            regs = slot_state(rng, addr)
            if b[0] == 0x76 and rng.random() < 0.5:
                regs[28] = 1
            patches = {}
            for i, x in enumerate(b):
                patches[(addr + i) & 0xFFFF] = x
            for hi in (2, 4, 6, 8, 10, 12):
                a = (regs[hi] * 256 + regs[hi + 1]) & 0xFFFF if hi != 12 else regs[12]
                for d in (-1, 0, 1, 2):
                    patches.setdefault((a + d) & 0xFFFF, rng.randrange(256))
            if b[0] == 0xED and b[1] & 0xE4 == 0xA0:
                # block instructions: aim at the values that decide whether they repeat (BC/B = 1, 2, 0; compare finds A at (HL))
                if rng.random() < 0.5:
                    regs[2], regs[3] = rng.choice([(0, 1), (0, 2), (0, 0), (1, 0), (1, 1), (2, 0xFF)])
                hl = (regs[6] * 256 + regs[7]) & 0xFFFF
                if b[1] & 0x03 == 0x01 and rng.random() < 0.5 and not addr <= hl < addr + 6:
                    patches[hl] = regs[0]
            out = []
            for kind in pair:
                m = machine(kind)
                mem = m.sim.memory
                for a, v in patches.items():
                    mem[a] = v
                if kind in ('py', 'pycmio'):
                    mem.log.clear()
                sims.set_regs(m.sim, regs)
                m.tracer.reset(0, j)
                try:
                    m.step()
                except Exception as e:
                    shard.violation('%s raised %r on %s' % (kind, e, bytes(b).hex()), {'part': 'slots', 'seq': b, 'regs': regs, 'addr': addr})
                    out = None
                    ms.clear()
                    break
                out.append((m.regs, [(a, mem[a]) for a in sorted(patches)], list(m.tracer.events)))
            if out is None:
                continue
            pym, cm = machine(pair[0]), machine(pair[1])
            stores = list(pym.sim.memory.log)
            st1 = sorted({a: pym.sim.memory[a] for a, v in stores}.items())
            st2 = sorted({a: cm.sim.memory[a] for a, v in stores}.items())
            shard.inc('monitor:slot_steps_compared')
            (r1, f1, e1), (r2, f2, e2) = out
            bad = None
            if r1 != r2:
                bad = str(sims.diff_regs(r1, r2))
            elif f1 != f2 or st1 != st2:
                bad = 'memory differs: %r vs %r' % ([x for x in f1 + st1 if x not in f2 + st2][:4], [x for x in f2 + st2 if x not in f1 + st1][:4])
            elif e1 != e2:
                bad = 'port events differ: %r vs %r' % (e1, e2)
            # undo: patches and stores back to zero
            for m in (pym, cm):
                mem = m.sim.memory
                for a in patches:
                    mem[a] = 0
                for a, v in stores:
                    mem[a] = 0
            if j % 8 == 7:
                # a store made only by the C member would survive the undo: periodic whole-memory check
                shard.inc('monitor:full_memory_compares')
                if bytes(cm.sim.memory) != bytes(65536) or any(pym.sim.memory):
                    bad = bad or 'a store outside the recorded ones survived (whole-memory check)'
                    ms.clear()
            if bad:
                shard.violation('%s vs %s differ after one step of %s at %d from %s: %s' % (pair[0], pair[1], bytes(b[:4]).hex(), addr, sims.fmt_regs(regs), bad),
                                {'part': 'slots', 'seq': b, 'regs': regs, 'addr': addr, 'pair': pair})
            shard.case(('slots', ci, j), r1[:24] != regs[:24] or bool(e1) or bool(stores),
                       sample={'slot': bytes(b[:4]).hex(), 'addr': addr, 'pair': pair, 'regs': sims.fmt_regs(regs)} if ci < 2 and j == 0 else None)
        if shard.out_of_time():
            shard.inc('stopped_on_budget')
            break

def run(shard, spec):
    import skoolkit
    if skoolkit.CSimulator is None or skoolkit.CCMIOSimulator is None:
        shard.violation('C simulators are not importable: tools would silently fall back to Python', {'part': 'import'})
        return
    {'step': run_step, 'run': run_run, 'tool': run_tool, 'slots': run_slots, 'fast': run_fast}[spec['part']](shard, spec)

def replay(shard, rp):
    spec = {'part': rp['part'], 'shard': rp.get('case', 0), 'of': 10 ** 9, 'flavour': rp.get('flavour', 'plain')}
    if rp['part'] == 'step':
        # re-run exactly that case
        global N_PROGS
        N_PROGS = {shard.tier: rp['case'] + 1}
        run_step(shard, spec)
    else:
        print('re-run ./check C06 %s (part %s, case %s)' % (shard.tier, rp['part'], rp.get('case')))

def finalize(agg, tier):
    probs = []
    c = agg['counters']
    for k in ('monitor:steps_compared', 'monitor:slot_steps_compared', 'monitor:run_to_stop_compared', 'monitor:trace_tool_pairs', 'monitor:port_events', 'monitor:accept_interrupt_calls', 'monitor:fast_path_comparisons', 'observed:fast_path_multi_iteration', 'monitor:trace_fast_mode_pairs'):
        if not c.get(k):
            probs.append('monitor %s observed nothing' % k)
    return probs

TECHNIQUE = 'lock-step differential execution of the real Python and C simulators with a recording tracer (plus ASan/UBSan build), and trace.py with/without --python'
LEVEL_TEXT = ('Python and C members of each simulator pair are stepped in lock step on generated programs (48K and 128K with paging, with and without tracer) and '
              'compared after every instruction: 30 registers, stores, port events, full memory images periodically, accept_interrupt results; run(start, stop, interrupts) '
              'end states and trace.py -vv logs/snapshots with and without --python must be identical, also in trace.py\'s fast mode (no -v/-m/-M), whose Python shortcuts (fast_ldir/fast_djnz) are '
              'additionally compared, one run() against the iterated instruction on the ordinary Python and C simulators. A slice of the workload also runs under clang ASan+UBSan.')
LEVEL_NOTE = 'Bounded program length (300 steps; run-to-stop up to 3000 instructions); sampled programs; the C extension is rebuilt from the working tree by the harness.'
