"""Driver: python -m vk.run <Cnn> [quick|thorough] [--replay path] [--jobs N]

exit 0  property held on everything observed (known findings are printed, not alarmed)
exit 1  VIOLATION property=<id> replay=<path>
exit 2  INCONCLUSIVE property=<id> reason=...
"""
import importlib
import json
import os
import shutil
import subprocess
import sys
import tempfile
import time

from vk import paths, build, harness

def load_known(prop):
    try:
        with open(paths.KNOWN) as f:
            k = json.load(f)
    except FileNotFoundError:
        return {}
    return {e['id']: e for e in k.get('findings', []) if e['property'] == prop and e.get('status', 'open') == 'open'}

def worker_env(flavour, logbase):
    env = dict(os.environ)
    env['PYTHONPATH'] = paths.VERIF + os.pathsep + paths.REPO
    env['PYTHONHASHSEED'] = '0'
    env['PYTHONDONTWRITEBYTECODE'] = '1'
    env[paths.GUARD] = '1'
    if flavour == 'asan':
        env['LD_PRELOAD'] = build.asan_runtime()
        env['PYTHONMALLOC'] = 'malloc'
        env['ASAN_OPTIONS'] = 'detect_leaks=0:halt_on_error=1:abort_on_error=0:exitcode=86:log_path=%s.asan' % logbase
        env['UBSAN_OPTIONS'] = 'print_stacktrace=1:halt_on_error=1:exitcode=86:log_path=%s.ubsan' % logbase
    return env

def sanitizer_reports(logbase):
    out = []
    d = os.path.dirname(logbase)
    for fn in sorted(os.listdir(d)):
        if fn.startswith(os.path.basename(logbase) + '.asan') or fn.startswith(os.path.basename(logbase) + '.ubsan'):
            with open(os.path.join(d, fn), errors='replace') as f:
                out.append(f.read()[:6000])
    return out

def main(argv):
    args = [a for a in argv if not a.startswith('--')]
    prop = args[0].upper()
    tier = args[1] if len(args) > 1 else os.environ.get('VERIF_TIER', 'quick')
    if tier not in ('quick', 'thorough'):
        tier = 'quick'
    jobs = 16
    replay_path = None
    it = iter(argv)
    for a in it:
        if a == '--replay':
            replay_path = next(it)
        elif a == '--jobs':
            jobs = int(next(it))
    try:
        seed = int(os.environ.get('VERIF_SEED', '0'))
    except ValueError:
        seed = 0
    t0 = time.time()
    os.environ['PYTHONHASHSEED'] = '0'
    sys.path.insert(0, paths.VERIF)
    mod = importlib.import_module('vk.props.' + prop.lower())
    known = load_known(prop)

    if replay_path:
        with open(replay_path) as f:
            rp = json.load(f)
        specs = [{'replay': rp['replay'], 'flavour': rp.get('flavour', 'plain'), 'timeout': 3600}]
    else:
        specs = mod.plan(tier, seed)
    needs_c = getattr(mod, 'NEEDS_C', False)
    flavours = sorted({s.get('flavour', 'plain') for s in specs})
    if needs_c:
        for fl in flavours:
            d, err = build.build(fl)
            if err:
                if prop == 'C06' and fl == 'plain':
                    os.makedirs(os.path.join(paths.REPLAYS, prop), exist_ok=True)
                    rpath = os.path.join(paths.REPLAYS, prop, 'build_error.json')
                    with open(rpath, 'w') as f:
                        json.dump({'what': 'C extension does not build', 'stderr': err}, f)
                    print('VIOLATION property=%s replay=%s' % (prop, rpath))
                    print(err)
                    return 1
                print('INCONCLUSIVE property=%s reason=C extension (%s) does not build from the working tree' % (prop, fl))
                print(err)
                return 2

    workdir = tempfile.mkdtemp(prefix='run-%s-' % prop, dir=_ensure(paths.SCRATCH))
    results = []
    problems = []      # inconclusive reasons
    crashes = []       # (spec index, description, sanitizer text)
    pending = list(enumerate(specs))
    running = []
    n = len(specs)
    default_timeout = 900 if tier == 'quick' else 7200
    try:
        while pending or running:
            while pending and len(running) < jobs:
                i, spec = pending.pop(0)
                specfile = os.path.join(workdir, 'spec%d.json' % i)
                outfile = os.path.join(workdir, 'out%d.json' % i)
                logbase = os.path.join(workdir, 'san%d' % i)
                with open(specfile, 'w') as f:
                    json.dump(spec, f)
                errf = open(os.path.join(workdir, 'err%d.txt' % i), 'w')
                p = subprocess.Popen([paths.PYTHON, '-m', 'vk.worker', prop, tier, str(seed), str(i), str(n), specfile, outfile],
                                     env=worker_env(spec.get('flavour', 'plain'), logbase), cwd=paths.VERIF,
                                     stdout=errf, stderr=subprocess.STDOUT)
                running.append((i, spec, p, time.time(), outfile, logbase, errf))
            time.sleep(0.05)
            still = []
            for item in running:
                i, spec, p, ts, outfile, logbase, errf = item
                rc = p.poll()
                if rc is None:
                    if time.time() - ts > spec.get('timeout', default_timeout):
                        p.kill()
                        p.wait()
                        errf.close()
                        problems.append('shard %d: wall-clock watchdog (%ds) fired' % (i, spec.get('timeout', default_timeout)))
                    else:
                        still.append(item)
                    continue
                errf.close()
                res = None
                if os.path.isfile(outfile):
                    try:
                        with open(outfile) as f:
                            res = json.load(f)
                    except ValueError:
                        res = None
                with open(os.path.join(workdir, 'err%d.txt' % i), errors='replace') as f:
                    errtxt = f.read()
                san = sanitizer_reports(logbase) if spec.get('flavour') == 'asan' else []
                if san or rc == 86:
                    crashes.append((i, 'sanitizer report', '\n'.join(san) or errtxt[-4000:], spec))
                elif rc < 0:
                    if needs_c:
                        crashes.append((i, 'worker killed by signal %d while driving C code' % -rc, errtxt[-4000:], spec))
                    else:
                        problems.append('shard %d: worker killed by signal %d' % (i, -rc))
                elif res is None:
                    problems.append('shard %d: worker exit %d without result: %s' % (i, rc, errtxt[-1500:]))
                elif 'build_error' in res:
                    problems.append('shard %d: C build error' % i)
                else:
                    if 'worker_exception' in res:
                        problems.append('shard %d: harness exception: %s' % (i, res['worker_exception'][-2500:]))
                    results.append(res)
            running = still
    finally:
        for item in running:
            item[2].kill()

    # ---- aggregate
    agg = {'evaluations': 0, 'hashes': set(), 'bulk': 0, 'samples': [], 'counters': {}, 'hists': {}, 'skipped': {},
           'violations': [], 'nviolations': 0, 'inconclusive': []}
    for r in sorted(results, key=lambda r: r['index']):
        agg['evaluations'] += r['evaluations']
        agg['hashes'].update(r['hashes'])
        agg['bulk'] += r['bulk_distinct']
        for s in r['samples']:
            if len(agg['samples']) < 8:
                agg['samples'].append(s)
        for k, v in r['counters'].items():
            agg['counters'][k] = agg['counters'].get(k, 0) + v
        for k, v in r['skipped'].items():
            agg['skipped'][k] = agg['skipped'].get(k, 0) + v
        for hn, h in r['hists'].items():
            d = agg['hists'].setdefault(hn, {})
            for k, v in h.items():
                d[k] = d.get(k, 0) + v
        agg['violations'].extend(r['violations'])
        agg['nviolations'] += r['nviolations']
        agg['inconclusive'].extend(r['inconclusive'])
    problems.extend(agg['inconclusive'])
    distinct = len(agg['hashes']) + agg['bulk']

    if not replay_path and hasattr(mod, 'finalize'):
        problems.extend(mod.finalize(agg, tier) or [])
    minimum = getattr(mod, 'MIN_NONTRIVIAL', {}).get(tier, 2)
    if not replay_path and distinct < minimum:
        problems.append('only %d distinct non-trivial cases observed (< %d)' % (distinct, minimum))

    # ---- classify violations
    os.makedirs(os.path.join(paths.REPLAYS, prop), exist_ok=True)
    known_seen = {}
    alarms = []
    for v in agg['violations']:
        fid = v.get('finding')
        if fid is not None and fid in known:
            known_seen.setdefault(fid, v)
        else:
            alarms.append(v)
    for i, desc, text, spec in crashes:
        alarms.append({'what': '%s in shard %d: %s' % (desc, i, text[:1500]), 'finding': None,
                       'replay': {'shard_spec': spec, 'shard_index': i, 'shards': n, 'sanitizer': text}})

    lines = []
    for fid, v in sorted(known_seen.items()):
        lines.append('KNOWN-FINDING: property=%s %s [%s] (seen %d times this run)' % (
            prop, known[fid]['what'], fid, agg['counters'].get('known:' + fid, 1)))
    for fid in sorted(set(known) - set(known_seen)):
        lines.append('NOTE: listed finding %s was not reproduced in this run' % fid)
    rc = 0
    seen_alarm = set()
    for v in alarms:
        key = harness.h64(v['replay'])
        if key in seen_alarm:
            continue
        seen_alarm.add(key)
        rpath = os.path.join(paths.REPLAYS, prop, key + '.json')
        with open(rpath, 'w') as f:
            json.dump({'property': prop, 'tier': tier, 'seed': seed, 'what': v['what'], 'finding': v.get('finding'),
                       'flavour': v['replay'].get('flavour', 'plain') if isinstance(v['replay'], dict) else 'plain',
                       'replay': v['replay']}, f, indent=1)
        lines.append('VIOLATION property=%s replay=%s' % (prop, rpath))
        lines.append('  ' + v['what'].replace('\n', '\n  ')[:1500])
        rc = 1
    if problems:
        if rc == 0:
            rc = 2
        for pr in problems[:10]:
            lines.append('INCONCLUSIVE property=%s reason=%s' % (prop, pr.replace('\n', ' | ')[:1500]))

    wall = time.time() - t0
    if not replay_path and not os.environ.get('VERIF_NO_EVIDENCE'):
        cov = {
            'evaluations': agg['evaluations'],
            'distinct_nontrivial': distinct,
            'rule': getattr(mod, 'RULE', ''),
            'samples': agg['samples'] or ['(no sample recorded)'],
            'exhaustive': bool(getattr(mod, 'EXHAUSTIVE', {}).get(tier, False)) if isinstance(getattr(mod, 'EXHAUSTIVE', None), dict) else bool(getattr(mod, 'EXHAUSTIVE', False)),
            'monitor_counters': agg['counters'],
            'histograms': agg['hists'],
            'skipped_by_precondition': agg['skipped'],
            'shards': n,
            'shards_completed': len(results),
            'build_flavours': flavours if needs_c else [],
            'sanitizer_reports': len([c for c in crashes if c[1] == 'sanitizer report']),
            'known_findings_seen': sorted(known_seen),
            'inconclusive_reasons': problems[:10],
            'verdict': {0: 'held on what was observed', 1: 'violated', 2: 'inconclusive'}[rc],
        }
        if hasattr(mod, 'EXHAUSTIVE_NOTE'):
            cov['exhaustive_note'] = mod.EXHAUSTIVE_NOTE
        ev = {
            'property_id': prop, 'tier': tier, 'seed': seed, 'level': getattr(mod, 'LEVEL', 'exploration'),
            'coverage': cov, 'assumptions': getattr(mod, 'ASSUMPTIONS', []), 'wall_s': round(wall, 2),
            'violations': len(seen_alarm),
        }
        os.makedirs(paths.EVIDENCE, exist_ok=True)
        tmp = os.path.join(paths.EVIDENCE, '.%s.%d.tmp' % (prop, os.getpid()))
        with open(tmp, 'w') as f:
            json.dump(ev, f, indent=1, sort_keys=True)
        os.replace(tmp, os.path.join(paths.EVIDENCE, prop + '.json'))
    shutil.rmtree(workdir, ignore_errors=True)
    print('%s %s seed=%d: %d evaluations, %d distinct non-trivial, %d shards, %.1fs' % (prop, tier, seed, agg['evaluations'], distinct, n, wall))
    interesting = {k: v for k, v in agg['counters'].items()}
    if interesting:
        print('  counters: ' + ', '.join('%s=%s' % kv for kv in sorted(interesting.items())[:40]))
    if agg['skipped']:
        print('  skipped: ' + ', '.join('%s=%s' % kv for kv in sorted(agg['skipped'].items())))
    nv = 0
    for l in lines:
        if l.startswith('VIOLATION'):
            nv += 1
        if nv > 12 and (l.startswith('VIOLATION') or l.startswith('  ')):
            continue
        print(l)
    if nv > 12:
        print('... %d more VIOLATION lines suppressed (replay files written)' % (nv - 12))
    if rc == 0:
        print('HELD property=%s (on what was observed)' % prop)
    return rc

def _ensure(d):
    os.makedirs(d, exist_ok=True)
    return d

if __name__ == '__main__':
    sys.exit(main(sys.argv[1:]))
