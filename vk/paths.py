import os

VERIF = os.path.dirname(os.path.dirname(os.path.abspath(__file__)))
REPO = os.environ.get('VERIF_REPO', '/repo')
PYTHON = os.environ.get('VERIF_PYTHON', '/venv/bin/python')
DEPS = os.path.join(VERIF, '.deps')
EVIDENCE = os.path.join(VERIF, 'evidence')
REPLAYS = os.path.join(VERIF, 'replays')
SCRATCH = os.path.join(VERIF, '.scratch')
KNOWN = os.path.join(VERIF, 'known_findings.json')
GUARD = 'SKOOLKIT_VERIF'
