"""htmlcheck - reference link/anchor resolver for a directory tree of generated HTML (C16).

Written from the HTML/URL rules only; does not import skoolkit.

  scan_tree(root)            -> Tree: every file below root; every .html/.htm file parsed into a Page
  Tree.check_links()         -> list of problems (dicts) for relative href/src values that do not resolve
  Page.ids                   -> {id: count}   (id attributes of any element, plus <a name=...>)

What counts as a reference: the href attribute of a, link, area; the src attribute of img, script, audio, source,
video, embed, iframe, input, track. A reference is *relative* (and therefore inside the property) when it has no
scheme, is not protocol-relative (//host), and is not root-relative (/path). Query strings are ignored. The path
part is percent-decoded, resolved against the directory of the page that carries it, and must name a regular
file inside the tree. A fragment is checked only when the target is a parsed HTML page: it must equal an id (or
<a name>) in that page; the empty fragment and the HTML5 special fragment "top" always resolve.
"""
import os
import posixpath
import re
from html.parser import HTMLParser
from urllib.parse import unquote

HREF_TAGS = {'a', 'link', 'area'}
SRC_TAGS = {'img', 'script', 'audio', 'source', 'video', 'embed', 'iframe', 'input', 'track'}
RE_SCHEME = re.compile(r'^[A-Za-z][A-Za-z0-9+.\-]*:')

class Ref:
    __slots__ = ('tag', 'attr', 'url', 'line', 'ctx')
    def __init__(self, tag, attr, url, line, ctx):
        self.tag, self.attr, self.url, self.line, self.ctx = tag, attr, url, line, ctx

class Page(HTMLParser):
    def __init__(self, relpath):
        super().__init__(convert_charrefs=True)
        self.relpath = relpath          # posix path relative to the tree root
        self.ids = {}                   # id -> number of elements that carry it
        self.id_tags = {}               # id -> list of (tag, line)
        self.refs = []
        self.base_href = None
        self._cell = None               # class of the innermost open <td> (context of a reference, for statistics only)

    def handle_starttag(self, tag, attrs):
        line = self.getpos()[0]
        d = {}
        for k, v in attrs:
            if k not in d:              # first occurrence wins, as in browsers
                d[k] = v
        if tag == 'base' and d.get('href'):
            self.base_href = d['href']
        ident = d.get('id')
        if ident is not None:
            self.ids[ident] = self.ids.get(ident, 0) + 1
            self.id_tags.setdefault(ident, []).append((tag, line))
        if tag == 'a' and d.get('name') is not None and d.get('name') != ident:
            n = d['name']
            self.ids[n] = self.ids.get(n, 0) + 1
            self.id_tags.setdefault(n, []).append((tag, line))
        if tag == 'td':
            self._cell = d.get('class') or ''
        if tag in HREF_TAGS and d.get('href') is not None:
            self.refs.append(Ref(tag, 'href', d['href'], line, self._cell))
        if tag in SRC_TAGS and d.get('src') is not None:
            self.refs.append(Ref(tag, 'src', d['src'], line, self._cell))

    def handle_startendtag(self, tag, attrs):
        self.handle_starttag(tag, attrs)

    def handle_endtag(self, tag):
        if tag == 'td':
            self._cell = None

def split_url(url):
    """-> (kind, path, fragment); kind in 'relative', 'external'. fragment is None when there is no '#'."""
    u = url.strip()
    if RE_SCHEME.match(u) or u.startswith('//') or u.startswith('/'):
        return 'external', None, None
    frag = None
    if '#' in u:
        u, frag = u.split('#', 1)
    if '?' in u:
        u = u.split('?', 1)[0]
    return 'relative', unquote(u), (unquote(frag) if frag is not None else None)

class Tree:
    def __init__(self, root):
        self.root = root
        self.files = set()      # posix relative paths of regular files
        self.dirs = set()
        self.pages = {}         # relpath -> Page
        self.parse_errors = []

    def resolve(self, page, path):
        """Resolve a relative URL path against the page's directory -> normalised relpath, or None when it leaves the tree."""
        base = posixpath.dirname(page.relpath)
        if path == '':
            return page.relpath
        target = posixpath.normpath(posixpath.join(base, path))
        if target == '..' or target.startswith('../') or target.startswith('/'):
            return None
        return target

    def check_links(self):
        """-> (problems, stats). problems: list of dicts {page, tag, attr, url, line, why, target}."""
        problems = []
        stats = {'refs': 0, 'relative': 0, 'external': 0, 'fragments': 0, 'file_targets': 0, 'same_page_fragments': 0,
                 'cross_page_fragments': 0, 'by_attr': {}, 'target_ext': {}}
        for rel in sorted(self.pages):
            page = self.pages[rel]
            if page.base_href is not None:
                # a <base> element changes resolution for the whole page; nothing in skoolkit emits one
                problems.append({'page': rel, 'tag': 'base', 'attr': 'href', 'url': page.base_href, 'line': 0,
                                 'why': 'base element present (relative references are no longer relative to the page)', 'target': None})
                continue
            for r in page.refs:
                stats['refs'] += 1
                kind, path, frag = split_url(r.url)
                if kind == 'external':
                    stats['external'] += 1
                    continue
                stats['relative'] += 1
                key = '%s.%s' % (r.tag, r.attr)
                stats['by_attr'][key] = stats['by_attr'].get(key, 0) + 1
                if r.ctx == 'instruction':
                    stats['operand_links'] = stats.get('operand_links', 0) + 1
                target = self.resolve(page, path)
                rec = {'page': rel, 'tag': r.tag, 'attr': r.attr, 'url': r.url, 'line': r.line, 'target': target, 'ctx': r.ctx}
                if target is None:
                    rec['why'] = 'path leaves the output tree'
                    problems.append(rec)
                    continue
                if target not in self.files:
                    rec['why'] = 'names a directory, not a file' if (target in self.dirs or target == '.') else 'no such file was written or copied'
                    problems.append(rec)
                    continue
                stats['file_targets'] += 1
                ext = posixpath.splitext(target)[1].lower()
                stats['target_ext'][ext] = stats['target_ext'].get(ext, 0) + 1
                if frag is None or frag == '' or frag.lower() == 'top':
                    continue
                tpage = self.pages.get(target)
                if tpage is None:
                    continue        # fragment on a non-HTML resource: nothing to resolve
                stats['fragments'] += 1
                if target == rel:
                    stats['same_page_fragments'] += 1
                else:
                    stats['cross_page_fragments'] += 1
                if frag not in tpage.ids:
                    rec['why'] = 'fragment %r is not an id in %s' % (frag, target)
                    rec['fragment'] = frag
                    problems.append(rec)
        return problems, stats

def scan_tree(root):
    t = Tree(root)
    root = os.path.abspath(root)
    for dirpath, dirnames, filenames in os.walk(root):
        reld = os.path.relpath(dirpath, root).replace(os.sep, '/')
        if reld != '.':
            t.dirs.add(reld)
        for fn in filenames:
            rel = fn if reld == '.' else reld + '/' + fn
            t.files.add(rel)
            if fn.lower().endswith(('.html', '.htm')):
                p = Page(rel)
                try:
                    with open(os.path.join(dirpath, fn), encoding='utf-8', errors='replace') as f:
                        p.feed(f.read())
                    p.close()
                except Exception as e:   # html.parser is lenient; this should not happen
                    t.parse_errors.append((rel, repr(e)))
                t.pages[rel] = p
    return t
