"""C11 reference model: tape file formats (TAP / TZX 1.20 / PZX 1.0) and the signal they describe.

Written from the format texts (worldofspectrum.net TZXformat.html, zxds.raxoft.cz/docs/pzx.txt), not from
skoolkit/tape.py, and it does not import skoolkit.

  serialisers     tap_bytes, tzx_bytes (abstract elements), pzx_bytes (PZX block tuples), tzx_to_pzx
  parsers         parse_tap / parse_tzx / parse_pzx -> numbered format blocks, each with an optional timing block
  select()        --tape-start / --tape-stop / --tape-skip on format block numbers; expand_loops() for TZX 0x24/0x25
  model_edges()   timing blocks + first edge + polarity -> the list of signal edges, with per-block index ranges
  decode_bits()   edge distances -> bits (the inverse of the encoding, independent of model_edges)
  canonical()     an edge list reduced to the instants at which the level really changes

Representation conventions (the only things shared with the code under test, see ASSUMPTIONS in vk/props/c11.py):
  * an edge list starts with the first edge; pulse k lies between edge k-1 and edge k and has level (k-1) % 2,
    polarity 1 prepends one zero-length pulse;
  * a pulse of zero duration outside a data block is an edge at the same instant as its predecessor;
  * a pause moves the clock and produces no edge; a pause after the last block is not played;
  * PZX blocks carry an explicit initial level: when the running level differs, one edge is inserted at the block start
    ("polarity adjustment"); a PULS block that starts with an odd number of zero-duration pulses starts high and
    those pulses are not played;
  * standard-speed blocks (TAP, TZX 0x10) get 8063 pilot pulses when the flag byte is 0 and 3223 otherwise;
  * the tail pulse of the last data block is not played when it is the last thing on the tape.
"""
import struct
from itertools import accumulate

T_MS = 3500

def w16(v):
    return struct.pack('<H', v)

def w24(v):
    return bytes((v & 255, (v >> 8) & 255, (v >> 16) & 255))

def w32(v):
    return struct.pack('<I', v)

def r16(b, i):
    return b[i] | (b[i + 1] << 8)

def r24(b, i):
    return b[i] | (b[i + 1] << 8) | (b[i + 2] << 16)

def r32(b, i):
    return b[i] | (b[i + 1] << 8) | (b[i + 2] << 16) | (b[i + 3] << 24)

# ------------------------------------------------------------------ timing blocks

class TB:
    """What one block contributes to the signal: optional pulses, then optional data (+tail), then optional pause."""
    __slots__ = ('level', 'pulses', 'data', 's0', 's1', 'used', 'tail', 'pause', 'drb', 'num', 'kind')

    def __init__(self, kind, num=None, level=None, pulses=(), data=None, s0=(), s1=(), used=8, tail=0, pause=0, drb=False):
        self.kind = kind
        self.num = num
        self.level = level
        self.pulses = list(pulses)
        self.data = bytes(data) if data is not None else None
        self.s0 = tuple(s0)
        self.s1 = tuple(s1)
        self.used = used
        self.tail = tail
        self.pause = pause
        self.drb = drb

    def has_zero_seq(self):
        return bool(self.data) and (0 in self.s0 or 0 in self.s1)

    def nbits(self):
        return 8 * (len(self.data) - 1) + self.used if self.data else 0

    def describe(self):
        d = {'kind': self.kind, 'num': self.num}
        if self.level is not None:
            d['level'] = self.level
        if self.pulses:
            d['pulses'] = self.pulses[:8] + (['...'] if len(self.pulses) > 8 else [])
        if self.data is not None:
            d.update(len=len(self.data), s0=self.s0, s1=self.s1, used=self.used, tail=self.tail, head=list(self.data[:4]))
        if self.pause:
            d['pause'] = self.pause
        return d

class FB:
    """A numbered block of a tape file."""
    __slots__ = ('num', 'id', 'tb', 'data', 'loop', 'stop')

    def __init__(self, num, id_, tb=None, data=None, loop=None, stop=None):
        self.num = num
        self.id = id_
        self.tb = tb
        self.data = data
        self.loop = loop      # ('start', reps) | ('end',)
        self.stop = stop      # 'always' | '48k' | None
        if tb is not None:
            tb.num = num

def std_tb(data, pause):
    pilot = 8063 if data[0] == 0 else 3223
    return TB('std', pulses=[(pilot, 2168), (1, 667), (1, 735)], data=data, s0=(855, 855), s1=(1710, 1710), used=8, pause=pause)

# ------------------------------------------------------------------ TAP

def tap_bytes(blocks):
    return b''.join(w16(len(b)) + bytes(b) for b in blocks)

def parse_tap(raw):
    out = []
    i, n = 0, 1
    while i + 1 < len(raw):
        ln = r16(raw, i)
        data = bytes(raw[i + 2:i + 2 + ln])
        out.append(FB(n, 'tap', std_tb(data, 1000 * T_MS) if data else None, data))
        i += 2 + ln
        n += 1
    return out

# ------------------------------------------------------------------ TZX

def _drb_runs(samples, used):
    """Direct recording: list of bits (MSb first; `used` bits of the last byte)."""
    bits = []
    for k, b in enumerate(samples, 1):
        nb = 8 if k < len(samples) else used
        for j in range(nb):
            bits.append((b >> (7 - j)) & 1)
    runs = []
    for bit in bits:
        if runs and runs[-1][0] == bit:
            runs[-1][1] += 1
        else:
            runs.append([bit, 1])
    return bits, runs

def tzx_element_bytes(e):
    """Bytes of the TZX block(s) of one abstract element; returns list of byte strings, one per TZX block."""
    k = e['k']
    if k == 'std':
        return [b'\x10' + w16(e['pause']) + w16(len(e['data'])) + bytes(e['data'])]
    if k == 'turbo':
        return [b'\x11' + w16(e['pilot']) + w16(e['sync1']) + w16(e['sync2']) + w16(e['zero']) + w16(e['one']) + w16(e['pilot_len'])
                + bytes((e['used'],)) + w16(e['pause']) + w24(len(e['data'])) + bytes(e['data'])]
    if k == 'tone':
        return [b'\x12' + w16(e['plen']) + w16(e['count'])]
    if k == 'pulses':
        return [b'\x13' + bytes((len(e['lens']),)) + b''.join(w16(v) for v in e['lens'])]
    if k == 'pure':
        return [b'\x14' + w16(e['zero']) + w16(e['one']) + bytes((e['used'],)) + w16(e['pause']) + w24(len(e['data'])) + bytes(e['data'])]
    if k == 'direct':
        return [b'\x15' + w16(e['tps']) + w16(e['pause']) + bytes((e['used'],)) + w24(len(e['samples'])) + bytes(e['samples'])]
    if k == 'pause':
        return [b'\x20' + w16(e['ms'])]
    if k == 'loop':
        out = [b'\x24' + w16(e['reps'])]
        for x in e['body']:
            out.extend(tzx_element_bytes(x))
        out.append(b'\x25')
        return out
    if k == 'info':
        v = e['v']
        t = e.get('text', b'')
        if v == 'group':
            return [b'\x21' + bytes((len(t),)) + t]
        if v == 'groupend':
            return [b'\x22']
        if v == 'text':
            return [b'\x30' + bytes((len(t),)) + t]
        if v == 'message':
            return [b'\x31' + bytes((e.get('secs', 1), len(t))) + t]
        if v == 'archive':
            body = bytes((len(e['items']),)) + b''.join(bytes((i, len(s))) + s for i, s in e['items'])
            return [b'\x32' + w16(len(body)) + body]
        if v == 'hardware':
            return [b'\x33' + bytes((len(e['items']),)) + b''.join(bytes(i) for i in e['items'])]
        if v == 'custom':
            return [b'\x35' + e['ident'] + w32(len(t)) + t]
        if v == 'glue':
            return [b'\x5a' + b'XTape!\x1a\x01\x14']
        if v == 'stop48':
            return [b'\x2a' + w32(0)]
        # blocks that carry no signal and that skoolkit lists without acting on them; what matters here is that the
        # reader steps over exactly their length (TZX 1.20: 0x23 jump, 0x26 call sequence, 0x27 return, 0x28 select,
        # 0x34 emulation info, 0x40 snapshot)
        if v == 'jump':
            return [b'\x23' + w16(e['n'] & 0xFFFF)]
        if v == 'call':
            return [b'\x26' + w16(len(e['offsets'])) + b''.join(w16(o & 0xFFFF) for o in e['offsets'])]
        if v == 'return':
            return [b'\x27']
        if v == 'select':
            body = bytes((len(e['items']),)) + b''.join(w16(o & 0xFFFF) + bytes((len(x),)) + x for o, x in e['items'])
            return [b'\x28' + w16(len(body)) + body]
        if v == 'emulation':
            return [b'\x34' + bytes(e['raw8'])]
        if v == 'snapshot':
            return [b'\x40' + bytes((e['type'],)) + w24(len(e['blob'])) + bytes(e['blob'])]
    raise ValueError('unknown element %r' % (e,))

def tzx_bytes(elements, minor=20):
    """-> (bytes, kinds) where kinds[i] is a short name for TZX block number i+1."""
    parts = []
    kinds = []
    for e in elements:
        for b in tzx_element_bytes(e):
            parts.append(b)
            kinds.append(b[0])
    return b'ZXTape!\x1a\x01' + bytes((minor,)) + b''.join(parts), kinds

def parse_tzx(raw):
    if raw[:8] != b'ZXTape!\x1a':
        raise ValueError('not TZX')
    out = []
    i, n = 10, 1
    while i < len(raw):
        bid = raw[i]
        i += 1
        tb = data = loop = stop = None
        if bid == 0x10:
            pause = r16(raw, i)
            ln = r16(raw, i + 2)
            data = bytes(raw[i + 4:i + 4 + ln])
            if data:
                tb = std_tb(data, pause * T_MS)
            i += 4 + ln
        elif bid == 0x11:
            pilot, sync1, sync2, zero, one, plen = (r16(raw, i + 2 * j) for j in range(6))
            used = raw[i + 12]
            pause = r16(raw, i + 13)
            ln = r24(raw, i + 15)
            data = bytes(raw[i + 18:i + 18 + ln])
            tb = TB('turbo', pulses=[(plen, pilot), (1, sync1), (1, sync2)], data=data, s0=(zero, zero), s1=(one, one), used=used, pause=pause * T_MS)
            i += 18 + ln
        elif bid == 0x12:
            tb = TB('tone', pulses=[(r16(raw, i + 2), r16(raw, i))])
            i += 4
        elif bid == 0x13:
            np_ = raw[i]
            tb = TB('pulses', pulses=[(1, r16(raw, i + 1 + 2 * j)) for j in range(np_)])
            i += 1 + 2 * np_
        elif bid == 0x14:
            zero, one = r16(raw, i), r16(raw, i + 2)
            used = raw[i + 4]
            pause = r16(raw, i + 5)
            ln = r24(raw, i + 7)
            data = bytes(raw[i + 10:i + 10 + ln])
            tb = TB('pure', data=data, s0=(zero, zero), s1=(one, one), used=used, pause=pause * T_MS)
            i += 10 + ln
        elif bid == 0x15:
            tps = r16(raw, i)
            pause = r16(raw, i + 2)
            used = raw[i + 4]
            ln = r24(raw, i + 5)
            samples = raw[i + 8:i + 8 + ln]
            bits, runs = _drb_runs(samples, used)
            pulses = [(1, 0)] if bits and bits[0] else []
            pulses += [(1, c * tps) for bit, c in runs]
            tb = TB('direct', pulses=pulses, pause=pause * T_MS, drb=True)
            i += 8 + ln
        elif bid == 0x20:
            ms = r16(raw, i)
            tb = TB('pause', pause=ms * T_MS)
            if ms == 0:
                stop = 'always'
            i += 2
        elif bid == 0x21:
            i += 1 + raw[i]
        elif bid == 0x22:
            pass
        elif bid == 0x24:
            loop = ('start', r16(raw, i))
            i += 2
        elif bid == 0x25:
            loop = ('end',)
        elif bid == 0x23:
            i += 2
        elif bid == 0x26:
            i += 2 + 2 * r16(raw, i)
        elif bid == 0x27:
            pass
        elif bid == 0x28:
            i += 2 + r16(raw, i)
        elif bid == 0x34:
            i += 8
        elif bid == 0x40:
            i += 4 + r24(raw, i + 1)
        elif bid == 0x2A:
            stop = '48k'
            i += 4 + r32(raw, i)
        elif bid == 0x30:
            i += 1 + raw[i]
        elif bid == 0x31:
            i += 2 + raw[i + 1]
        elif bid == 0x32:
            i += 2 + r16(raw, i)
        elif bid == 0x33:
            i += 1 + 3 * raw[i]
        elif bid == 0x35:
            i += 20 + r32(raw, i + 16)
        elif bid == 0x5A:
            i += 9
        else:
            raise ValueError('reference TZX parser: block id 0x%02X not modelled' % bid)
        out.append(FB(n, bid, tb, data, loop, stop))
        n += 1
    return out

def expand_loops(fblocks):
    """TZX loop start/end (no nesting): the blocks between them play `reps` times."""
    out = []
    body = None
    reps = 0
    for b in fblocks:
        if b.loop and b.loop[0] == 'start':
            body = []
            reps = b.loop[1]
            continue
        if b.loop and b.loop[0] == 'end' and body is not None:
            out.extend(body * reps)
            body = None
            continue
        (out if body is None else body).append(b)
    if body is not None:
        raise ValueError('loop start without loop end (generator must keep loops intact)')
    return out

# ------------------------------------------------------------------ PZX
# PZX block tuples:
#   ('PZXT', major, minor, [bytes, ...])         info strings
#   ('PULS', [(count, duration, explicit_count, long_form), ...])   raw entries, including a leading zero pulse for "high"
#   ('DATA', level, nbits, tail, s0, s1, databytes)
#   ('PAUS', level, duration)
#   ('BRWS', text) ('STOP', flags) ('RAW', tag4, payload)

def _puls_payload(entries):
    out = bytearray()
    for count, dur, explicit, long_form in entries:
        if not 1 <= count <= 0x7FFF or not 0 <= dur <= 0x7FFFFFFF:
            raise ValueError('PULS entry out of range: %r' % ((count, dur),))
        if count > 1 or explicit or dur > 0xFFFF:
            # (a first word above 0x8000 is always read as a repeat count, so a duration above 0xFFFF needs one)
            out += w16(0x8000 | count)
        if dur >= 0x8000 or long_form:
            out += w16(0x8000 | (dur >> 16)) + w16(dur & 0xFFFF)
        else:
            out += w16(dur)
    return bytes(out)

def pzx_block_bytes(b):
    tag = b[0]
    if tag == 'PZXT':
        payload = bytes((b[1], b[2])) + b'\x00'.join(b[3])
    elif tag == 'PULS':
        payload = _puls_payload(b[1])
    elif tag == 'DATA':
        _, level, nbits, tail, s0, s1, data = b
        if len(data) != (nbits + 7) // 8:
            raise ValueError('DATA length mismatch')
        payload = (w32((level << 31) | nbits) + w16(tail) + bytes((len(s0), len(s1))) + b''.join(w16(v) for v in s0)
                   + b''.join(w16(v) for v in s1) + bytes(data))
    elif tag == 'PAUS':
        payload = w32((b[1] << 31) | b[2])
    elif tag == 'BRWS':
        payload = b[1]
    elif tag == 'STOP':
        payload = w16(b[1])
    elif tag == 'RAW':
        return b[1] + w32(len(b[2])) + b[2]
    else:
        raise ValueError(tag)
    return tag.encode() + w32(len(payload)) + payload

def pzx_bytes(blocks):
    return b''.join(pzx_block_bytes(b) for b in blocks)

def parse_pzx(raw):
    if raw[:4] != b'PZXT':
        raise ValueError('not PZX')
    out = []
    i, n = 0, 1
    while i < len(raw):
        tag = bytes(raw[i:i + 4])
        ln = r32(raw, i + 4)
        p = i + 8
        end = p + ln
        tb = data = stop = None
        if tag == b'PULS':
            pulses = []
            j = p
            while j < end:
                count = 1
                dur = r16(raw, j)
                j += 2
                if dur > 0x8000:
                    count = dur & 0x7FFF
                    dur = r16(raw, j)
                    j += 2
                if dur >= 0x8000:
                    dur = ((dur & 0x7FFF) << 16) | r16(raw, j)
                    j += 2
                pulses.append((count, dur))
            level = 0
            if pulses and pulses[0][1] == 0 and pulses[0][0] % 2:
                level = 1
                pulses = pulses[1:]
            tb = TB('PULS', level=level, pulses=pulses)
        elif tag == b'DATA':
            count = r32(raw, p)
            nbits = count & 0x7FFFFFFF
            level = count >> 31
            tail = r16(raw, p + 4)
            p0, p1 = raw[p + 6], raw[p + 7]
            j = p + 8
            s0 = tuple(r16(raw, j + 2 * k) for k in range(p0))
            j += 2 * p0
            s1 = tuple(r16(raw, j + 2 * k) for k in range(p1))
            j += 2 * p1
            nbytes = (nbits + 7) // 8
            data = bytes(raw[j:j + nbytes])
            tb = TB('DATA', level=level, data=data, s0=s0, s1=s1, used=(nbits % 8) or 8, tail=tail)
        elif tag == b'PAUS':
            d = r32(raw, p)
            tb = TB('PAUS', level=d >> 31, pause=d & 0x7FFFFFFF)
        elif tag == b'STOP':
            stop = '48k' if r16(raw, p) & 1 else 'always'
        out.append(FB(n, tag.decode('latin-1'), tb, data, None, stop))
        i = end
        n += 1
    return out

# ------------------------------------------------------------------ TZX -> PZX (same signal, identical pulse parameters)

def _split_count(count, dur):
    out = []
    while count > 0:
        c = min(count, 0x7FFF)
        out.append((c, dur))
        count -= c
    return out

def _puls(level, pulses, rng=None):
    """PZX PULS block whose first played pulse has `level`. pulses: [(count, dur)] with count >= 0."""
    entries = []
    for c, d in pulses:
        entries.extend(_split_count(c, d))
    if not entries and not level:
        return None
    if level:
        entries.insert(0, (1, 0))
    elif entries[0][1] == 0 and entries[0][0] % 2 and entries[0][0] > 1:
        c = entries[0][0]
        entries[0:1] = [(2, 0), (c - 2, 0)]
    out = []
    for c, d in entries:
        explicit = bool(rng and c == 1 and rng.random() < 0.2)
        long_form = bool(rng and d < 0x8000 and rng.random() < 0.15)
        out.append((c, d, explicit, long_form))
    return ('PULS', out)

def tzx_to_pzx(elements, rng=None, info=None):
    """The PZX blocks that describe the same signal as the TZX elements, with the PZX initial levels equal to the running level
    so that no level adjustment is expected. Returns (blocks, notes) - notes names anything in the tape that PZX cannot
    express block by block (the cross-format comparison is then skipped)."""
    blocks = [('PZXT', 1, 0, info or [])]
    r = [0]      # running level = parity of the pulses played so far
    notes = set()

    def emit_puls(b):
        if len(b[1]) == 1 and b[1][0][1] == 0 and b[1][0][0] % 2:
            # a PULS block that consists of its "start high" marker only plays nothing: a lone zero-length pulse
            # at low level cannot be written as a PZX block of its own
            notes.add('lone-zero-pulse')
        blocks.append(b)

    def pulses(pl, toggle_first=False):
        lvl = r[0] ^ (1 if toggle_first else 0)
        n = sum(c for c, d in pl)
        b = _puls(lvl, pl, rng)
        if b is None:
            return
        if n == 0:
            # nothing to play but a level to set: only emit when a toggle is required
            if toggle_first:
                emit_puls(b)
                r[0] ^= 1
            return
        emit_puls(b)
        r[0] = lvl ^ (n & 1)

    def data(d, s0, s1, used):
        if not d:
            return
        nbits = 8 * (len(d) - 1) + used
        blocks.append(('DATA', r[0], nbits, 0, tuple(s0), tuple(s1), bytes(d)))
        n0 = len(s0)
        n1 = len(s1)
        if (n0 | n1) & 1:
            ones = 0
            for k, b in enumerate(d, 1):
                nb = 8 if k < len(d) else used
                ones += bin(b >> (8 - nb)).count('1')
            r[0] ^= (ones * n1 + (nbits - ones) * n0) & 1

    def pause(ms):
        if ms or (rng and rng.random() < 0.3):
            blocks.append(('PAUS', r[0], ms * T_MS))

    def play(e):
        k = e['k']
        if k == 'std':
            if e['data']:
                pulses([(8063 if e['data'][0] == 0 else 3223, 2168), (1, 667), (1, 735)])
                data(e['data'], (855, 855), (1710, 1710), 8)
                pause(e['pause'])
        elif k == 'turbo':
            pulses([(e['pilot_len'], e['pilot']), (1, e['sync1']), (1, e['sync2'])])
            data(e['data'], (e['zero'],) * 2, (e['one'],) * 2, e['used'])
            pause(e['pause'])
        elif k == 'tone':
            pulses([(e['count'], e['plen'])])
        elif k == 'pulses':
            pulses([(1, v) for v in e['lens']])
        elif k == 'pure':
            data(e['data'], (e['zero'],) * 2, (e['one'],) * 2, e['used'])
            pause(e['pause'])
        elif k == 'direct':
            bits, runs = _drb_runs(e['samples'], e['used'])
            pulses([(1, c * e['tps']) for bit, c in runs], toggle_first=bool(bits and bits[0]))
            pause(e['pause'])
        elif k == 'pause':
            pause(e['ms'])
        elif k == 'loop':
            for _ in range(e['reps']):
                for x in e['body']:
                    play(x)
        elif k == 'info':
            if rng and rng.random() < 0.5:
                blocks.append(('BRWS', e.get('text', b'x')) if rng.random() < 0.7 else ('RAW', b'ZZZZ', b'\x01\x02\x03'))
        else:
            raise ValueError(k)

    for e in elements:
        play(e)
    return blocks, notes

# ------------------------------------------------------------------ selection

def select(fblocks, start=1, stop=0, skip=()):
    skip = set(skip)
    out = []
    for b in fblocks:
        if stop > 0 and b.num >= stop:
            break
        if b.num >= start and b.num not in skip:
            out.append(b)
    return out

def timing_blocks(fblocks):
    return [b.tb for b in fblocks if b.tb is not None]

# ------------------------------------------------------------------ the signal

class Model:
    __slots__ = ('edges', 'ranges', 'zero_seq', 'ambiguous_pop', 'popped', 'adjustments', 'npulses', 'preds', 't_end', 'tail_block')

def used_bits_pulses(tb):
    """(pulses the used bits of the last byte specify, pulses a proportional cut of the whole last byte would keep)."""
    last = tb.data[-1]
    n_all = sum(len(tb.s1 if (last << j) & 0x80 else tb.s0) for j in range(8))
    n_true = sum(len(tb.s1 if (last << j) & 0x80 else tb.s0) for j in range(tb.used))
    return n_true, (n_all * tb.used) // 8

def _bit_durations(tb, proportional_cut=False):
    """Durations of all bit pulses of a data block, in order.
    proportional_cut=True reproduces a known defect (used only to classify a witness, never as an expectation)."""
    data = tb.data
    table = []
    for v in range(256):
        seq = []
        for j in range(8):
            seq.extend(tb.s1 if (v << j) & 0x80 else tb.s0)
        table.append(seq)
    durs = []
    for b in data[:-1]:
        durs.extend(table[b])
    last = data[-1]
    if proportional_cut and not tb.has_zero_seq():
        bt = table[last]
        durs.extend(bt[:(len(bt) * tb.used) // 8])
        return durs
    for j in range(tb.used):
        durs.extend(tb.s1 if (last << j) & 0x80 else tb.s0)
    return durs

QUIRKS = ('cut', 'lead', 'trail')

def model_edges(tbs, first_edge=0, polarity=0, quirks=()):
    """Every pulse (including zero-length ones) ends with an edge. Returns a Model:
      edges      the edge list
      ranges     per timing block: dict(first=index of the edge at which the block's first pulse starts,
                 dstart/dend=index of the edge starting the data / ending the last bit pulse (None without data),
                 last=index of the block's last edge)
      zero_seq   some data block has a zero-length pulse in a bit sequence (compare with canonical())
      preds      names of the known-defect shapes present on this tape (see below)
      t_end      the clock after the last pulse

    quirks: names of known defects of the code under test to reproduce. They are used only to decide whether a witness is
    fully explained by a known mechanism; the expectation is always quirks=().
      cut    used bits < 8 and bit sequences of different lengths: the last byte's pulses are cut proportionally
      lead   a data block with zero-length bit pulses starts, after a pause, with an odd number of zero-length pulses:
             the following pulse is added to the previous edge instead of being placed after the pause
      trail  a data block with zero-length bit pulses ends with an odd number of them and has a tail pulse: the tail is
             played as a new pulse instead of lengthening the last one (one zero-length toggle is forgotten)
    """
    preds = set()
    pol = polarity % 2
    edges = [first_edge]
    if pol:
        edges.append(first_edge)
    t = first_edge
    pending = []            # pauses played since the last block that certainly produced an edge
    t_emit = first_edge     # instant of the last edge that is not a zero-length bit pulse of a data block (those are merged away)
    ranges = []
    tail_index = None
    tail_time = None
    tail_block = None
    adjustments = 0
    npulses = 0

    def adjust(level):
        nonlocal adjustments, t_emit
        if level is not None and (len(edges) - 1) % 2 != level ^ pol:
            edges.append(t)
            t_emit = t
            adjustments += 1

    nblocks = len(tbs)
    for i, tb in enumerate(tbs):
        rg = {'first': len(edges) - 1, 'dstart': None, 'dend': None, 'last': None, 'tail': False, 'gap': 0, 'gaps': [0]}
        emits = any(c for c, d in tb.pulses)
        if tb.pulses:
            adjust(tb.level)
            rg['first'] = len(edges) - 1
            for count, dur in tb.pulses:
                if count:
                    if dur:
                        edges.extend(range(t + dur, t + dur * count + 1, dur))
                    else:
                        edges.extend([t] * count)
                    t += dur * count
                    t_emit = t
                    npulses += count
        if tb.data:
            adjust(tb.level)
            if not tb.pulses:
                rg['first'] = len(edges) - 1
            rg['dstart'] = len(edges) - 1
            rg['gap'] = t - t_emit         # pauses since the last edge: they lengthen the first pulse as seen on the tape
            # the silence before the data, measured from whichever edge is the last one before it
            rg['gaps'] = sorted({sum(pending[k:]) for k in range(len(pending) + 1)})
            if not tb.has_zero_seq() and len(tb.s0) != len(tb.s1) and tb.used < 8 and len(set(used_bits_pulses(tb))) == 2:
                preds.add('cut')
            durs = _bit_durations(tb, 'cut' in quirks)
            emits = emits or any(durs) or bool(tb.tail)
            merged = False
            if tb.has_zero_seq() and durs:
                lead = 0
                while lead < len(durs) and durs[lead] == 0:
                    lead += 1
                trail = 0
                while trail < len(durs) and durs[-1 - trail] == 0:
                    trail += 1
                if rg['gap'] > 0 and lead % 2 and lead < len(durs):
                    preds.add('lead')
                if tb.tail and trail % 2:
                    preds.add('trail')
                if 'lead' in quirks or 'trail' in quirks or 'merge' in quirks:
                    # Classification only: the same signal written as a merged edge list (a pulse that continues the level
                    # of the previous one lengthens it), with the two known slips switched on separately.
                    merged = True
                    p = q = 0
                    emitted = False
                    for d in durs:
                        if d:
                            t += d
                            if p == q:
                                edges.append(t)
                                q ^= 1
                                emitted = True
                                t_emit = t
                            elif emitted or rg['gap'] == 0 or 'lead' in quirks:
                                j = len(edges) - 1
                                while j > 0 and edges[j] != t_emit:
                                    j -= 1
                                edges[j] += d       # slip 'lead' when nothing was emitted yet and a pause lies in between
                                t_emit = edges[j]
                            else:
                                edges.extend((t - d, t))
                                emitted = True
                                t_emit = t
                        p ^= 1
                    if p != q and not (tb.tail and 'trail' in quirks):
                        edges.append(t)             # the zero-length toggle left over; slip 'trail' forgets it before a tail
                    npulses += len(durs)
            if durs and not merged:
                acc = list(accumulate(durs, initial=t))
                edges.extend(acc[1:])
                if acc[-1] != t:
                    t_emit = acc[-1]
                t = acc[-1]
                npulses += len(durs)
            rg['dend'] = len(edges) - 1
            if tb.tail:
                t += tb.tail
                edges.append(t)
                t_emit = t
                tail_index = len(edges) - 1
                tail_time = t
                tail_block = i
                rg['tail'] = True
                npulses += 1
        rg['last'] = len(edges) - 1
        ranges.append(rg)
        if emits:
            pending = []
        if tb.pause and i + 1 < nblocks:
            adjust(tb.level)
            t += tb.pause
            pending.append(tb.pause)

    m = Model()
    m.popped = False
    m.ambiguous_pop = False
    if tail_time is not None and t_emit == tail_time:
        # nothing but zero-length bit pulses (which are merged away) follows the end of the last tail pulse:
        # that edge is the last one on the tape and is not played
        j = len(edges) - 1
        while edges[j] != tail_time:
            j -= 1
        del edges[j]
        m.popped = True
        top = len(edges) - 1
        for rg in ranges:
            for k in ('first', 'dstart', 'dend', 'last'):
                if rg[k] is not None and rg[k] > top:
                    rg[k] = top
                    if k == 'last':
                        rg['tail'] = False
    m.edges = edges
    m.ranges = ranges
    m.zero_seq = any(tb.has_zero_seq() for tb in tbs)
    m.adjustments = adjustments
    m.npulses = npulses
    m.preds = preds
    m.t_end = t
    m.tail_block = tail_block if m.popped else None
    return m

def canonical(edges):
    """Instants at which the level really changes: edges that coincide cancel in pairs."""
    out = []
    for e in sorted(edges):
        if out and out[-1] == e:
            out.pop()
        else:
            out.append(e)
    return out

# ------------------------------------------------------------------ decoding

def decodable(s0, s1):
    """Bits can be recovered from pulse lengths iff neither sequence is empty, contains a zero, or is a prefix of the other."""
    if not s0 or not s1 or 0 in s0 or 0 in s1:
        return False
    n = min(len(s0), len(s1))
    return tuple(s0[:n]) != tuple(s1[:n])

def decode_bits(edges, start, end, s0, s1, tail, gap=0):
    """Measure the distances between edges[start..end] and turn them back into bits.
    tail: duration of a tail pulse expected after the last bit (0 = none).
    gap: silence (pauses) between edge `start` and the moment the data begins; it is part of the first measured distance.
    Returns (bits as a list of 0/1, None) or (None, reason)."""
    if not (0 <= start <= end < len(edges)):
        return None, 'range %d..%d outside the edge list (%d edges)' % (start, end, len(edges))
    seg = edges[start:end + 1]
    dist = [b - a for a, b in zip(seg, seg[1:])]
    if gap and dist:
        dist[0] -= gap
    if tail:
        if not dist or dist[-1] != tail:
            return None, 'last pulse in the range is %s, expected the tail pulse %d' % (dist[-1] if dist else None, tail)
        dist.pop()
    s0 = list(s0)
    s1 = list(s1)
    n0, n1 = len(s0), len(s1)
    bits = []
    k = 0
    n = len(dist)
    if n0 == n1 == 2 and s0[0] == s0[1] and s1[0] == s1[1]:
        # common case, fast path
        z, o = s0[0], s1[0]
        if n % 2:
            return None, 'odd number of pulses (%d) for two-pulse bits' % n
        for k in range(0, n, 2):
            a = dist[k]
            if a != dist[k + 1]:
                return None, 'pulse pair %d,%d at pulse %d is not a bit' % (a, dist[k + 1], k)
            if a == z:
                bits.append(0)
            elif a == o:
                bits.append(1)
            else:
                return None, 'pulse length %d at pulse %d is neither a 0-bit (%d) nor a 1-bit (%d)' % (a, k, z, o)
        return bits, None
    while k < n:
        if dist[k:k + n0] == s0:
            bits.append(0)
            k += n0
        elif dist[k:k + n1] == s1:
            bits.append(1)
            k += n1
        else:
            return None, 'pulses %r at pulse %d match neither bit sequence' % (dist[k:k + max(n0, n1)], k)
    return bits, None

def data_bits(data, used):
    bits = []
    for k, b in enumerate(data, 1):
        nb = 8 if k < len(data) else used
        for j in range(nb):
            bits.append((b >> (7 - j)) & 1)
    return bits

def bits_to_bytes(bits):
    out = bytearray()
    for i in range(0, len(bits), 8):
        chunk = bits[i:i + 8]
        v = 0
        for b in chunk:
            v = (v << 1) | b
        v <<= 8 - len(chunk)
        out.append(v)
    return bytes(out)
