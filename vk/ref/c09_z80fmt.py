"""Z80 snapshot files, versions 1, 2 and 3: a decoder and a plain encoder written from the format text
(worldofspectrum.net/faq/reference/z80format.htm). No skoolkit import.

The state produced/consumed is a plain dict:
  machine   '48K' | '128K' | '+2'
  a f bc de hl a2 f2 bc2 de2 hl2 ix iy sp pc i r   register values
  iff1 iff2 im border issue2
  tstates   position in the frame (None when the file version has no T-state counter)
  out7ffd outfffd ay(tuple of 16)     (None for version 1)
  ram       bytes(49152) for 48K, or list of 8 bytes(16384) for 128K/+2
"""

FRAME = {'48K': 69888, '128K': 70908, '+2': 70908}

class FormatError(Exception):
    pass

# ------------------------------------------------------------------ run-length coding

def rle_decode(data):
    """Expand one compressed block. Every ED ED in the stream introduces a four-byte code ED ED count value; everything
    else stands for itself. (Scanning for the leftmost ED ED from the current position is the same as reading byte by byte.)"""
    data = bytes(data)
    out = bytearray()
    i, n = 0, len(data)
    while i < n:
        j = data.find(b'\xed\xed', i)
        if j < 0:
            out += data[i:]
            break
        out += data[i:j]
        if j + 4 > n:
            raise FormatError('ED ED code truncated at offset %d of %d' % (j, n))
        count, value = data[j + 2], data[j + 3]
        if count == 0:
            raise FormatError('ED ED code with repeat count 0 at offset %d' % j)
        out += bytes((value,)) * count
        i = j + 4
    return bytes(out)

def rle_decode_v1(data):
    """A version 1 memory block: compressed data terminated by the end marker 00 ED ED 00."""
    data = bytes(data)
    if data[-4:] != b'\x00\xed\xed\x00':
        raise FormatError('version 1 block does not end with 00 ED ED 00 (ends with %s)' % data[-6:].hex())
    return rle_decode(data[:-4])

def rle_encode(data):
    """Plain encoder following the three rules of the text: runs of at least five equal bytes become ED ED n b (n <= 255);
    runs of ED become a code from length two; the byte directly after a single ED is never the start of a code."""
    data = bytes(data)
    out = bytearray()
    i, n = 0, len(data)
    after_single_ed = False
    while i < n:
        b = data[i]
        j = i
        while j < n and data[j] == b and j - i < 255:
            j += 1
        run = j - i
        if after_single_ed:
            out.append(b)
            i += 1
            after_single_ed = False        # b is not ED here (a single ED is one not followed by ED)
            continue
        if b == 0xED:
            if run >= 2:
                out += bytes((0xED, 0xED, run, 0xED))
                i = j
            else:
                out.append(0xED)
                i += 1
                after_single_ed = True
        elif run >= 5:
            out += bytes((0xED, 0xED, run, b))
            i = j
        else:
            out += data[i:j]
            i = j
    return bytes(out)

# ------------------------------------------------------------------ decoder

V2_HW = {0: '48K', 1: '48K', 3: '128K', 4: '128K', 12: '+2'}
V3_HW = {0: '48K', 1: '48K', 3: '48K', 4: '128K', 5: '128K', 6: '128K', 12: '+2'}

def _w(d, i):
    return d[i] + 256 * d[i + 1]

def parse(data):
    """File bytes -> state dict (plus 'version', 'hw', 'pages'). Raises FormatError when the file is not well formed."""
    d = bytes(data)
    if len(d) < 30:
        raise FormatError('file shorter than the 30-byte header')
    s = {}
    s['a'], s['f'] = d[0], d[1]
    s['bc'], s['hl'] = _w(d, 2), _w(d, 4)
    pc = _w(d, 6)
    s['sp'] = _w(d, 8)
    s['i'] = d[10]
    b12 = d[12]
    if b12 == 255:
        b12 = 1
    s['r'] = (d[11] & 0x7F) | ((b12 & 1) << 7)
    s['border'] = (b12 >> 1) & 7
    compressed_v1 = bool(b12 & 0x20)
    s['de'] = _w(d, 13)
    s['bc2'], s['de2'], s['hl2'] = _w(d, 15), _w(d, 17), _w(d, 19)
    s['a2'], s['f2'] = d[21], d[22]
    s['iy'], s['ix'] = _w(d, 23), _w(d, 25)
    s['iff1'] = 1 if d[27] else 0
    s['iff2'] = 1 if d[28] else 0
    s['iff1_raw'], s['iff2_raw'] = d[27], d[28]
    s['im'] = d[29] & 3
    s['issue2'] = (d[29] >> 2) & 1
    s['tstates'] = None
    s['out7ffd'] = s['outfffd'] = s['ay'] = None
    if pc != 0:
        s['version'] = 1
        s['pc'] = pc
        s['machine'] = '48K'
        s['hw'] = None
        if compressed_v1:
            ram = rle_decode_v1(d[30:])
        else:
            ram = d[30:]
        if len(ram) != 49152:
            raise FormatError('version 1 memory block is %d bytes, not 49152' % len(ram))
        s['ram'] = ram
        s['pages'] = None
        return s
    if len(d) < 32:
        raise FormatError('no additional header length')
    xlen = _w(d, 30)
    if xlen not in (23, 54, 55):
        raise FormatError('additional header length %d is not 23, 54 or 55' % xlen)
    hend = 32 + xlen
    if len(d) < hend:
        raise FormatError('file shorter than its header')
    s['version'] = 2 if xlen == 23 else 3
    s['pc'] = _w(d, 32)
    hw = d[34]
    modify = bool(d[37] & 0x80)
    table = V2_HW if s['version'] == 2 else V3_HW
    if hw not in table:
        raise FormatError('hardware mode %d not handled by this decoder' % hw)
    machine = table[hw]
    if modify:
        if machine == '48K':
            raise FormatError('16K machine not handled by this decoder')
        machine = '+2'
    s['machine'] = machine
    s['hw'] = hw
    s['out7ffd'] = d[35]
    s['outfffd'] = d[38]
    s['ay'] = tuple(d[39:55])
    if s['version'] == 3:
        # The low counter counts down from (quarter-1) to 0; the high counter is 3 just after the interrupt and goes up by
        # one, modulo 4, every quarter of a frame.
        frame = FRAME[machine]
        q = frame // 4
        low, high = _w(d, 55), d[57]
        if low >= q or high > 3:
            raise FormatError('T-state counters out of range: low=%d high=%d' % (low, high))
        s['tstates'] = ((high + 1) % 4) * q + (q - 1 - low)
        s['t_raw'] = (low, high)
    pages = {}
    i = hend
    while i < len(d):
        if i + 3 > len(d):
            raise FormatError('truncated memory block header at offset %d' % i)
        length, page = _w(d, i), d[i + 2]
        i += 3
        if length == 0xFFFF:
            blk = d[i:i + 16384]
            i += 16384
        else:
            if i + length > len(d):
                raise FormatError('memory block for page %d runs past the end of the file' % page)
            blk = rle_decode(d[i:i + length])
            i += length
        if len(blk) != 16384:
            raise FormatError('page %d decodes to %d bytes, not 16384' % (page, len(blk)))
        if page in pages:
            raise FormatError('page %d appears twice' % page)
        pages[page] = blk
    s['pages'] = pages
    if machine == '48K':
        if set(pages) != {4, 5, 8}:
            raise FormatError('48K snapshot has pages %s, expected 4, 5 and 8' % sorted(pages))
        s['ram'] = pages[8] + pages[4] + pages[5]
    else:
        if set(pages) != set(range(3, 11)):
            raise FormatError('128K snapshot has pages %s, expected 3..10' % sorted(pages))
        s['ram'] = [pages[b + 3] for b in range(8)]
    return s

# ------------------------------------------------------------------ encoder (used to make input files skoolkit did not write)

def build(s, version=3, compress=True, xlen=None):
    """State dict -> file bytes. version 1 only for 48K and pc != 0."""
    h = bytearray(30)
    h[0], h[1] = s['a'], s['f']
    h[2:4] = (s['bc'] & 255, s['bc'] >> 8)
    h[4:6] = (s['hl'] & 255, s['hl'] >> 8)
    h[8:10] = (s['sp'] & 255, s['sp'] >> 8)
    h[10] = s['i']
    h[11] = s['r'] & 0x7F
    h[12] = ((s['r'] >> 7) & 1) | ((s['border'] & 7) << 1)
    h[13:15] = (s['de'] & 255, s['de'] >> 8)
    h[15:17] = (s['bc2'] & 255, s['bc2'] >> 8)
    h[17:19] = (s['de2'] & 255, s['de2'] >> 8)
    h[19:21] = (s['hl2'] & 255, s['hl2'] >> 8)
    h[21], h[22] = s['a2'], s['f2']
    h[23:25] = (s['iy'] & 255, s['iy'] >> 8)
    h[25:27] = (s['ix'] & 255, s['ix'] >> 8)
    h[27], h[28] = s['iff1'], s['iff2']
    h[29] = (s['im'] & 3) | ((s.get('issue2', 0) & 1) << 2)
    if version == 1:
        assert s['machine'] == '48K' and s['pc'] != 0
        h[6:8] = (s['pc'] & 255, s['pc'] >> 8)
        if compress:
            h[12] |= 0x20
            return bytes(h) + rle_encode(s['ram']) + b'\x00\xed\xed\x00'
        return bytes(h) + bytes(s['ram'])
    if xlen is None:
        xlen = 23 if version == 2 else 54
    x = bytearray(xlen)
    x[0:2] = (s['pc'] & 255, s['pc'] >> 8)
    m = s['machine']
    if m == '48K':
        x[2] = 0
    else:
        x[2] = 3 if version == 2 else 4
        x[3] = s.get('out7ffd') or 0
        if m == '+2':
            x[5] |= 0x80
    x[6] = s.get('outfffd') or 0
    x[7:23] = bytes(s.get('ay') or (0,) * 16)
    if version == 3:
        frame = FRAME[m]
        q = frame // 4
        t = (s.get('tstates') or 0) % frame
        low = q - 1 - t % q
        high = (t // q - 1) % 4
        x[23:26] = (low & 255, low >> 8, high)
    out = bytes(h) + bytes((xlen & 255, xlen >> 8)) + bytes(x)
    if m == '48K':
        ram = bytes(s['ram'])
        blocks = [(8, ram[:16384]), (4, ram[16384:32768]), (5, ram[32768:])]
    else:
        blocks = [(b + 3, bytes(s['ram'][b])) for b in range(8)]
    for page, blk in blocks:
        if compress:
            c = rle_encode(blk)
            out += bytes((len(c) & 255, len(c) >> 8, page)) + c
        else:
            out += bytes((0xFF, 0xFF, page)) + blk
    return out
