"""C20: CPU adapter for the reference recorder built on refz80 (no skoolkit import). 48K or 128K memory with the real
ROM images (passed in as bytes) and the paging model of vk.ref.paging.

Adapter interface used by c20_rzxrec.Recorder:
  regs            mutable 30-slot register list (refz80 layout)
  peek(a)/poke(a, v)   memory as the CPU sees it now (stores into ROM are dropped)
  step()          execute one instruction -> (list of values read by IN, list of (port, value) written by OUT)
  ram()           bytes(49152) for 48K, list of 8 bytes(16384) for 128K
"""
from vk.ref import paging
from vk.ref.refz80 import CPU

class RefCPU:
    def __init__(self, state, roms, inputs):
        """state: snapshot state dict (c09_z80fmt / c09_szxfmt layout). roms: [rom48] or [rom0, rom1]. inputs(port) -> byte."""
        self.is128 = state['machine'] != '48K'
        self.roms = [bytes(r) for r in roms]
        if self.is128:
            self.banks = [bytearray(b) for b in state['ram']]
            self.page = paging.Model(state.get('out7ffd') or 0)
        else:
            self.flat = bytearray(16384) + bytearray(state['ram'])
            self.flat[:16384] = self.roms[0][:16384]
        self.inputs = inputs
        r = [0] * 30
        r[0], r[1] = state['a'], state['f']
        for hi, name in ((2, 'bc'), (4, 'de'), (6, 'hl'), (8, 'ix'), (10, 'iy'), (18, 'bc2'), (20, 'de2'), (22, 'hl2')):
            r[hi], r[hi + 1] = state[name] >> 8, state[name] & 0xFF
        r[16], r[17] = state['a2'], state['f2']
        r[12] = state['sp']
        r[14], r[15] = state['i'], state['r']
        r[24] = state['pc']
        r[25] = state.get('tstates') or 0
        r[26] = 1 if state['iff1'] else 0
        r[27] = state['im']
        r[29] = state.get('memptr') or 0
        self.regs = r

    def peek(self, a):
        a &= 0xFFFF
        if not self.is128:
            return self.flat[a]
        slot, off = a >> 14, a & 0x3FFF
        if slot == 0:
            return self.roms[self.page.rom][off]
        if slot == 1:
            return self.banks[5][off]
        if slot == 2:
            return self.banks[2][off]
        return self.banks[self.page.bank][off]

    def poke(self, a, v):
        a &= 0xFFFF
        if a < 0x4000:
            return
        if not self.is128:
            self.flat[a] = v & 0xFF
            return
        slot, off = a >> 14, a & 0x3FFF
        if slot == 1:
            self.banks[5][off] = v & 0xFF
        elif slot == 2:
            self.banks[2][off] = v & 0xFF
        else:
            self.banks[self.page.bank][off] = v & 0xFF

    def step(self):
        got = []
        def port_in(port):
            v = self.inputs(port) & 0xFF
            got.append(v)
            return v
        cpu = CPU(self.regs, self.peek, port_in)
        res = cpu.step()
        self.regs[:] = res.regs          # in place: the recorder keeps a reference to this list
        for a, v in res.writes:
            self.poke(a, v)
        outs = []
        for ev in res.ports:
            if ev[0] == 'out':
                outs.append((ev[1], ev[2]))
                if self.is128:
                    self.page.out(ev[1], ev[2])
        return got, outs

    def ram(self):
        if self.is128:
            return [bytes(b) for b in self.banks]
        return bytes(self.flat[16384:])

    def paged(self):
        return self.page.value if self.is128 else 0
