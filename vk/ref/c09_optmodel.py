"""What --reg, --state, --poke, --move and --patch mean, written from the command documentation (commands.rst, '--reg help',
'--state help'). Works on the state dict of c09_z80fmt / c09_szxfmt. No skoolkit import."""

FRAME = {'48K': 69888, '128K': 70908, '+2': 70908}
HI = {'b': 'bc', 'd': 'de', 'h': 'hl'}
LO = {'c': 'bc', 'e': 'de', 'l': 'hl'}

def num(text):
    t = text.strip().lower()
    if t.startswith('0x'):
        return int(t[2:], 16)
    if t.startswith('$'):
        return int(t[1:], 16)
    return int(t)

def set_reg(s, spec, fmt):
    name, _, val = spec.lower().partition('=')
    v = num(val)
    sfx = '2' if name.startswith('^') else ''
    n = name.lstrip('^')
    if n in ('a', 'f'):
        s[n + sfx] = v & 255
    elif n in HI:
        k = HI[n] + sfx
        s[k] = (s[k] & 0x00FF) | ((v & 255) << 8)
    elif n in LO:
        k = LO[n] + sfx
        s[k] = (s[k] & 0xFF00) | (v & 255)
    elif n in ('bc', 'de', 'hl'):
        s[n + sfx] = v & 0xFFFF
    elif n in ('ix', 'iy', 'sp', 'pc') and not sfx:
        s[n] = v & 0xFFFF
    elif n in ('i', 'r') and not sfx:
        s[n] = v & 255
    elif n == 'memptr' and not sfx:
        if fmt == 'szx':                    # the Z80 format has no MEMPTR field
            s['memptr'] = v & 0xFFFF
    else:
        raise ValueError('unknown register in %r' % spec)

def set_state(s, spec, fmt, version=3):
    """version: Z80 file version (1, 2 or 3); fields the file version cannot hold are left alone."""
    name, _, val = spec.lower().partition('=')
    v = num(val)
    if name == 'border':
        s['border'] = v & 7
    elif name == 'iff':
        s['iff1'] = s['iff2'] = v
    elif name == 'im':
        s['im'] = v
    elif name == 'tstates':
        if fmt == 'szx' or version == 3:
            s['tstates'] = v % FRAME[s['machine']]
    elif name == 'issue2':
        if fmt == 'z80' or s['machine'] == '48K':
            s['issue2'] = v & 1
    elif name == '7ffd':
        if fmt == 'szx' or version >= 2:
            s['out7ffd'] = v & 255
    elif name == 'fffd':
        if fmt == 'szx' or version >= 2:
            s['outfffd'] = v & 255
    elif name.startswith('ay[') and name.endswith(']'):
        if fmt == 'szx' or version >= 2:
            ay = list(s['ay'])
            ay[num(name[3:-1])] = v & 255
            s['ay'] = tuple(ay)
    elif name == 'fe':
        if fmt == 'szx':
            s['outfe'] = v & 255
    else:
        raise ValueError('unknown state attribute in %r' % spec)

class Mem:
    """RAM as the options see it. 48K: three 16K areas at 0x4000, 0x8000, 0xC000. 128K: eight banks, bank 5 at 0x4000,
    bank 2 at 0x8000 and bank `page` at 0xC000. Addresses below 0x4000 are ROM: not part of the snapshot."""
    def __init__(self, ram, page=0):
        if isinstance(ram, (bytes, bytearray)):
            assert len(ram) == 49152
            self.is128 = False
            self.banks = {5: bytearray(ram[:16384]), 2: bytearray(ram[16384:32768]), 0: bytearray(ram[32768:])}
            self.top = 0
        else:
            assert len(ram) == 8
            self.is128 = True
            self.banks = {b: bytearray(ram[b]) for b in range(8)}
            self.top = page & 7

    def ram(self):
        if self.is128:
            return [bytes(self.banks[b]) for b in range(8)]
        return bytes(self.banks[5] + self.banks[2] + self.banks[0])

    def _cell(self, addr):
        if not 0x4000 <= addr <= 0xFFFF:
            return None
        return self.banks[(None, 5, 2, self.top)[addr >> 14]], addr & 0x3FFF

    def _split(self, text):
        if ':' in text:
            p, rest = text.split(':', 1)
            return num(p), rest
        return None, text

    def _get(self, page, addr):
        if page is None:
            c = self._cell(addr)
            return 0 if c is None else c[0][c[1]]
        return self.banks[page & 7][addr & 0x3FFF]

    def _put(self, page, addr, v):
        if page is None:
            c = self._cell(addr)
            if c is not None:
                c[0][c[1]] = v
        else:
            self.banks[page & 7][addr & 0x3FFF] = v

    def poke(self, spec):
        addr, val = spec.split(',', 1)
        page, addr = self._split(addr)
        if val[0] == '^':
            k = num(val[1:])
            f = lambda b: b ^ k
        elif val[0] == '+':
            k = num(val[1:])
            f = lambda b: (b + k) & 255
        else:
            k = num(val)
            f = lambda b: k
        parts = [num(p) for p in addr.split('-')]
        a = parts[0]
        b = parts[1] if len(parts) > 1 else a
        c = parts[2] if len(parts) > 2 else 1
        for n in range(a, b + 1, c):
            self._put(page, n, f(self._get(page, n)))

    def move(self, spec):
        src, size, dest = spec.split(',')
        spage, src = self._split(src)
        dpage, dest = self._split(dest)
        if dpage is None:
            dpage = spage
        src, size, dest = num(src), num(size), num(dest)
        block = [self._get(spage, src + i) for i in range(size)]
        for i, v in enumerate(block):
            self._put(dpage, dest + i, v)

    def patch(self, where, data):
        page, addr = self._split(where)
        addr = num(addr)
        for i, v in enumerate(data):
            if page is not None and (addr & 0x3FFF) + i >= 0x4000:
                break                       # a patch stays inside the bank it names
            self._put(page, addr + i, v)
