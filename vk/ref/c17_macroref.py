"""C17 reference model: evaluators for the mode-independent skool macros, written from
sphinx/source/skool-macros.rst (sections "Numeric parameters", "String parameters", "Replacement fields",
"SMPL macros", #CHR, #N, #SPACE, #POKES/#POPS/#PUSHS). No skoolkit import.

The model works on a small abstract syntax tree (class N), not on macro text: the generator
(vk/gens/c17_macrogen.py) builds a tree, renders it to macro text in one of the documented spellings
(delimiters, bracketed or bare integers, keyword or positional arguments, number bases, spaces) and this
module says what the text must expand to. Everything the documentation leaves open raises Undefined; the
generator then discards the tree, so the check never demands more than the documentation states.

Output convention: the value returned is the ASM-mode text. HTML-mode output is compared after undoing HTML
escaping (entities -> characters, non-breaking space -> space), see normalise().
"""
import html as _html
import re

class Undefined(Exception):
    """The documentation does not define the result (or calls the text erroneous)."""

class N:
    """AST node: kind k plus attributes."""
    def __init__(self, k, **kw):
        self.k = k
        self.__dict__.update(kw)

    def __repr__(self):
        return 'N(%s)' % ', '.join('%s=%r' % kv for kv in self.__dict__.items())

CFG_DEFAULTS = {
    'poke': 'POKE {addr},{byte}',
    'pokes': 'FOR n={start} TO {end}: POKE n,{byte}: NEXT n',
    'pokes-step': 'FOR n={start} TO {end} STEP {step}: POKE n,{byte}: NEXT n',
}

ZX_CHARS = {94: 8593, 96: 163, 127: 169}

LIMIT = 1 << 48

class DefaultDict(dict):
    """Dictionary variable: 'default is the default value (used when a key is not found in the dictionary)'."""
    def __init__(self, default):
        super().__init__()
        self.default = default

    def __missing__(self, key):
        return self.default

    def copy(self):
        d = DefaultDict(self.default)
        d.update(self)
        return d

class VarsDict(dict):
    """'accessing an undefined variable in this dictionary yields the integer value 0'"""
    def __missing__(self, key):
        return 0

class State:
    def __init__(self, mem):
        self.mem = bytearray(mem)
        self.vars = {}
        self.stack = []            # [(saved memory, name of the snapshot that replaced it)]
        self.pokes = {'': []}
        self.cfg = dict(CFG_DEFAULTS)
        self.defs = {}

    def snapshot_name(self):
        return self.stack[-1][1] if self.stack else ''

    def copy(self):
        s = State(self.mem)
        s.vars = {k: (v.copy() if isinstance(v, dict) else v) for k, v in self.vars.items()}
        s.stack = [(bytearray(m), n) for m, n in self.stack]
        s.pokes = {k: list(v) for k, v in self.pokes.items()}
        s.cfg = dict(self.cfg)
        s.defs = dict(self.defs)
        return s

class Env:
    """Textual bindings in force: loop variables (substituted as text) and #DEF parameters."""
    def __init__(self, loop=None, params=None):
        self.loop = loop or {}
        self.params = params or {}

    def with_loop(self, vid, value):
        d = dict(self.loop)
        d[vid] = value
        return Env(d, self.params)

RE_INT = re.compile(r'-?(0|[1-9][0-9]*)\Z')
RE_SUM = re.compile(r'(0|[1-9][0-9]*)([+*](0|[1-9][0-9]*))*\Z')

class Evaluator:
    def __init__(self, state, base=0, case=0, cmdvars=None, pc=0, max_iter=64, let_strip=False):
        # let_strip: model of the (undocumented) behaviour behind finding C17-let-string-edge-whitespace-stripped-in-asm,
        # used only to recognise that finding, never as the expected value
        self.let_strip = let_strip
        self.st = state
        self.base = base          # 0, 10 (--decimal), 16 (--hex)
        self.case = case          # 0, 1 (--lower), 2 (--upper)
        self.cmdvars = VarsDict(cmdvars or {})
        self.pc = pc
        self.max_iter = max_iter
        self.steps = 0

    # ------------------------------------------------------------------ replacement fields
    def field_value(self, name, key=None):
        if name == 'base':
            v = self.base
        elif name == 'case':
            v = self.case
        elif name == 'mode':
            v = {'base': self.base, 'case': self.case}
        elif name == 'vars':
            v = self.cmdvars
        elif name in self.st.vars:
            v = self.st.vars[name]
        else:
            raise Undefined('unknown field %s' % name)
        if key is not None:
            if not isinstance(v, dict):
                raise Undefined('field %s is not a dictionary' % name)
            if isinstance(v, (DefaultDict, VarsDict)) or key in v:
                v = v[key]
            else:
                raise Undefined('no key %r in %s' % (key, name))
        elif isinstance(v, dict):
            raise Undefined('dictionary used as a scalar')
        return v

    # ------------------------------------------------------------------ arithmetic
    def num(self, e, env):
        v = self._num(e, env)
        if abs(v) > LIMIT:
            raise Undefined('magnitude')
        return v

    def truth(self, e, env):
        """Truth value of an expression; && and || are only defined as truth values."""
        if e.k == 'grp':
            return self.truth(e.a, env)
        if e.k == 'bin' and e.op in ('&&', '||'):
            a = self.truth(e.a, env)
            b = self.truth(e.b, env)   # both sides are always evaluated: an undefined operand is never hidden
            return (a and b) if e.op == '&&' else (a or b)
        return self.num(e, env) != 0

    def _num(self, e, env):
        k = e.k
        if k == 'num':
            return e.v
        if k == 'grp':
            return self.num(e.a, env)
        if k == 'neg':
            return -self.num(e.a, env)
        if k == 'fld':
            v = self.field_value(e.name, getattr(e, 'key', None))
            if isinstance(v, bool) or not isinstance(v, int):
                raise Undefined('non-integer field in arithmetic')
            return v
        if k == 'var':
            s = env.loop[e.id]
            if not RE_INT.match(s):
                raise Undefined('non-numeric loop value in arithmetic')
            return int(s)
        if k == 'par':
            p = env.params[e.name]
            if p[0] != 'i':
                raise Undefined('string parameter in arithmetic')
            return p[1]
        if k == 'mac':
            s = self.text(e.node, env)
            if RE_INT.match(s):
                return int(s)
            if RE_SUM.match(s):
                total = 0
                for term in s.split('+'):
                    p = 1
                    for f in term.split('*'):
                        p *= int(f)
                    total += p
                return total
            raise Undefined('macro output %r is not a canonical integer' % s)
        if k == 'bin':
            op = e.op
            if op in ('&&', '||'):
                a, b = self.num(e.a, env), self.num(e.b, env)
                if a not in (0, 1) or b not in (0, 1):
                    raise Undefined('numeric value of a Boolean operator on non-Boolean operands')
                return int((a and b) if op == '&&' else (a or b))
            a, b = self.num(e.a, env), self.num(e.b, env)
            if op == '+':
                return a + b
            if op == '-':
                return a - b
            if op == '*':
                return a * b
            if op in ('/', '%'):
                if a < 0 or b <= 0:
                    raise Undefined('division with a negative operand or a zero divisor')
                return a // b if op == '/' else a % b
            if op == '**':
                if b < 0 or b > 8 or abs(a) > 4096:
                    raise Undefined('exponent range')
                return a ** b
            if op in ('&', '|', '^'):
                if a < 0 or b < 0:
                    raise Undefined('bitwise operator on a negative operand')
                return a & b if op == '&' else (a | b if op == '|' else a ^ b)
            if op in ('<<', '>>'):
                if a < 0 or b < 0 or b > 24:
                    raise Undefined('shift range')
                return a << b if op == '<<' else a >> b
            if op == '==':
                return int(a == b)
            if op == '!=':
                return int(a != b)
            if op == '<':
                return int(a < b)
            if op == '>':
                return int(a > b)
            if op == '<=':
                return int(a <= b)
            if op == '>=':
                return int(a >= b)
        raise Undefined('expression kind %s' % k)

    def opt(self, e, env, default):
        return default if e is None else self.num(e, env)

    # ------------------------------------------------------------------ text
    def text(self, n, env):
        self.steps += 1
        if self.steps > 200000:
            raise Undefined('too many steps')
        return getattr(self, 't_' + n.k)(n, env)

    def t_lit(self, n, env):
        return n.s

    def t_seq(self, n, env):
        return ''.join([self.text(c, env) for c in n.items])

    def t_var(self, n, env):
        return env.loop[n.id]

    def t_par(self, n, env):
        p = env.params[n.name]
        if p[0] == 'i':
            return str(p[1])
        return self.text(p[1], p[2])

    def t_fld(self, n, env):
        """Replacement field inside #FORMAT text or a #LET string value (Python string formatting)."""
        v = self.field_value(n.name, getattr(n, 'key', None))
        try:
            return format(v, n.spec or '')
        except (ValueError, TypeError):
            raise Undefined('format spec')

    def t_eval(self, n, env):
        v = self.num(n.e, env)
        base = self.opt(n.base, env, 10)
        width = self.opt(n.width, env, 1)
        if base not in (2, 10, 16) or width < 0:
            raise Undefined('base/width')
        if v < 0 and width > 1:
            raise Undefined('padding of a negative value')
        if base == 2:
            return '{:0{}b}'.format(v, width)
        if base == 10:
            return '{:0{}d}'.format(v, width)
        return ('{:0{}x}' if self.case == 1 else '{:0{}X}').format(v, width)

    def t_n(self, n, env):
        v = self.num(n.e, env)
        if v < 0:
            raise Undefined('#N of a negative value')
        hwidth = self.opt(n.hwidth, env, None)
        dwidth = self.opt(n.dwidth, env, 1)
        affix = self.opt(n.affix, env, 0)
        tohex = self.opt(n.hex, env, 0)
        if (hwidth is not None and hwidth < 1) or dwidth < 1:
            raise Undefined('width')
        if bool(affix) != (n.prefix is not None or n.suffix is not None or getattr(n, 'empty_affix', False)):
            raise Undefined('affix flag does not match the presence of prefix/suffix')
        if self.base == 16 or (tohex and self.base != 10):
            if hwidth is None:
                hwidth = 2 if v < 256 else 4
            digits = ('{:0{}x}' if self.case == 1 else '{:0{}X}').format(v, hwidth)
            prefix = self.text(n.prefix, env) if n.prefix is not None else ''
            suffix = self.text(n.suffix, env) if n.suffix is not None else ''
            return prefix + digits + suffix
        return '{:0{}d}'.format(v, dwidth)

    def t_if(self, n, env):
        if self.truth(n.e, env):
            return self.text(n.t, env)
        return self.text(n.f, env) if n.f is not None else ''

    def t_map(self, n, env):
        key = self.num(n.key, env)
        keys = [self.num(k, env) for k, v in n.pairs]
        if len(set(keys)) != len(keys):
            raise Undefined('duplicate keys')
        for kv, (k, v) in zip(keys, n.pairs):
            if kv == key:
                return self.text(v, env)
        return self.text(n.default, env)

    def _join(self, outs, sep, fsep):
        if not outs:
            return ''
        if len(outs) == 1:
            return outs[0]
        return sep.join(outs[:-1]) + fsep + outs[-1]

    def t_for(self, n, env):
        start, stop = self.num(n.start, env), self.num(n.stop, env)
        step = self.opt(n.step, env, 1)
        flags = self.opt(n.flags, env, 0)
        if step == 0 or flags < 0 or flags > 7:
            raise Undefined('step/flags')
        if (step > 0 and start > stop) or (step < 0 and start < stop):
            raise Undefined('empty range')
        count = abs(stop - start) // abs(step) + 1
        if count > self.max_iter:
            raise Undefined('range too long')
        outs = []
        for i in range(count):
            outs.append(self.text(n.body, env.with_loop(n.id, str(start + i * step))))
        sep = self.text(n.sep, env) if n.sep is not None else ''
        if flags & 1:
            sep = ',' + sep
        if flags & 2:
            sep = sep + ','
        fsep = self.text(n.fsep, env) if n.fsep is not None else sep
        return self._join(outs, sep, fsep)

    def t_foreach(self, n, env):
        values = [self.text(v, env) for v in n.values]
        if not values:
            raise Undefined('no values')
        outs = [self.text(n.body, env.with_loop(n.id, v)) for v in values]
        sep = self.text(n.sep, env) if n.sep is not None else ''
        fsep = self.text(n.fsep, env) if n.fsep is not None else sep
        return self._join(outs, sep, fsep)

    def poke_items(self, name, index):
        if name not in self.st.pokes:
            raise Undefined('no snapshot of that name')
        groups = self.st.pokes[name]
        if index is not None:
            if index[0] == 'i':
                groups = groups[index[1]:index[1] + 1]
            else:
                groups = groups[index[1]:index[2]]
        items = []
        for addr, byte, length, step in groups:
            try:
                if length == 1:
                    items.append(self.st.cfg['poke'].format(addr=addr, byte=byte))
                elif step == 1:
                    items.append(self.st.cfg['pokes'].format(start=addr, end=addr + (length - 1) * step, byte=byte))
                else:
                    items.append(self.st.cfg['pokes-step'].format(start=addr, end=addr + (length - 1) * step, step=step, byte=byte))
            except (KeyError, ValueError, IndexError):
                raise Undefined('cfg format')
        return items

    def t_foreachspecial(self, n, env):
        # ENTRY[types] / REFaddr / EREFaddr: the addresses (decimal) in ascending order; no values - empty expansion
        if not n.expected:
            return ''
        outs = [self.text(n.body, env.with_loop(n.id, v)) for v in n.expected]
        sep = self.text(n.sep, env) if n.sep is not None else ''
        fsep = self.text(n.fsep, env) if n.fsep is not None else sep
        return self._join(outs, sep, fsep)

    def t_foreachpoke(self, n, env):
        items = self.poke_items(n.name, n.index)
        outs = [self.text(n.body, env.with_loop(n.id, v)) for v in items]
        sep = self.text(n.sep, env) if n.sep is not None else ''
        fsep = self.text(n.fsep, env) if n.fsep is not None else sep
        return self._join(outs, sep, fsep)

    def t_while(self, n, env):
        out = ''
        count = 0
        while self.truth(n.cond, env):
            count += 1
            if count > self.max_iter:
                raise Undefined('loop does not terminate within the bound')
            out += self.text(n.body, env).strip()
        return out

    def t_let(self, n, env):
        if n.name.endswith('$'):
            if self.let_strip and n.v.k == 'seq':
                # whitespace is stripped after the macros in the value have been expanded but before the replacement
                # fields are substituted: spaces produced by a field survive
                parts = [[self.text(p, env), p.k == 'fld'] for p in n.v.items]
                for seq in (parts, parts[::-1]):
                    for part in seq:
                        if part[1]:
                            break
                        part[0] = part[0].lstrip() if seq is parts else part[0].rstrip()
                        if part[0]:
                            break
                v = ''.join(p[0] for p in parts)
            else:
                v = self.text(n.v, env)
                if self.let_strip:
                    v = v.strip()
            self.st.vars[n.name] = v
        else:
            self.st.vars[n.name] = self.num(n.e, env)
        return ''

    def t_letd(self, n, env):
        strings = n.name.endswith('$')
        if strings:
            d = DefaultDict(self.text(n.default, env))
        else:
            d = DefaultDict(self.num(n.default, env))
        keys = []
        for k, v in n.pairs:
            kv = self.num(k, env)
            keys.append(kv)
            if v is None:
                if strings:
                    if k.k != 'num' or getattr(k, 'style', 'd') != 'd':
                        raise Undefined('string value defaulting to a key that is not a plain decimal number')
                    d[kv] = str(kv)
                else:
                    d[kv] = kv
            else:
                d[kv] = self.text(v, env) if strings else self.num(v, env)
        if len(set(keys)) != len(keys):
            raise Undefined('duplicate keys')
        self.st.vars[n.name] = d
        return ''

    def t_letk(self, n, env):
        d = self.st.vars.get(n.name)
        if not isinstance(d, DefaultDict):
            raise Undefined('no such dictionary')
        key = self.num(n.key, env)
        d[key] = self.text(n.v, env) if n.name.endswith('$') else self.num(n.e, env)
        return ''

    def t_letcfg(self, n, env):
        if n.key not in CFG_DEFAULTS:
            raise Undefined('unknown configuration parameter')
        self.st.cfg[n.key] = n.value
        return ''

    def t_format(self, n, env):
        s = ''.join([self.text(p, env) for p in n.parts])
        case = self.opt(n.case, env, 0)
        if case == 1:
            return s.lower()
        if case == 2:
            return s.upper()
        if case != 0:
            raise Undefined('case')
        return s

    def t_def(self, n, env):
        self.st.defs[n.name] = n
        return ''

    def t_call(self, n, env):
        d = self.st.defs.get(n.name)
        if d is None or d is not n.defn:
            raise Undefined('macro not defined (yet)')
        names = [p[0] for p in d.iparams]
        vals = {}
        pos = 0
        seen_kw = False
        for kw, e in n.iargs:
            if kw is None:
                if seen_kw or pos >= len(names):
                    raise Undefined('positional after keyword / too many')
                if e is not None:
                    vals[names[pos]] = self.num(e, env)
                pos += 1
            else:
                seen_kw = True
                if kw not in names or e is None:
                    raise Undefined('keyword')
                vals[kw] = self.num(e, env)
        params = {}
        for name, default in d.iparams:
            if name in vals:
                params[name] = ('i', vals[name])
            elif default is not None:
                params[name] = ('i', default)
            else:
                raise Undefined('missing required integer argument')
        ienv = Env({}, dict(params))
        nreq = len([1 for name, default in d.sparams if default is None])
        if n.sargs is None:
            if nreq:
                raise Undefined('missing string arguments')
            given = []
        else:
            given = n.sargs
            if len(given) < max(nreq, 1) or len(given) > len(d.sparams):
                raise Undefined('string argument count')
        for i, (name, default) in enumerate(d.sparams):
            if i < len(given):
                params[name] = ('s', given[i], env)
            else:
                params[name] = ('s', default, ienv)
        out = self.text(d.body, Env({}, params))
        if d.flags & 2:
            out = out.strip()
        return out

    def t_peek(self, n, env):
        a = self.num(n.addr, env)
        if not 0 <= a <= 65535:
            raise Undefined('address range')
        return str(self.st.mem[a])

    def t_pokes(self, n, env):
        for addr, byte, length, step in n.groups:
            a, b = self.num(addr, env), self.num(byte, env)
            ln, stp = self.opt(length, env, 1), self.opt(step, env, 1)
            if not (0 <= b <= 255 and ln >= 1 and stp >= 1 and 0 <= a and a + (ln - 1) * stp <= 65535):
                raise Undefined('poke range')
            for i in range(ln):
                self.st.mem[a + i * stp] = b
            self.st.pokes.setdefault(self.st.snapshot_name(), []).append((a, b, ln, stp))
        return ''

    def t_pushs(self, n, env):
        self.st.stack.append((bytearray(self.st.mem), n.name))
        self.st.pokes[n.name] = []
        return ''

    def t_pops(self, n, env):
        if not self.st.stack:
            raise Undefined('pop with empty stack')
        self.st.mem = self.st.stack.pop()[0]
        return ''

    def t_chr(self, n, env):
        c = self.num(n.e, env)
        flags = self.opt(n.flags, env, 0)
        if flags & 2:
            c = ZX_CHARS.get(c, c)
        if not (32 < c < 0xD800) or c in (35, 123, 125, 127, 160) or 128 <= c < 161:
            raise Undefined('character outside the range this check uses')
        return chr(c)

    def t_str(self, n, env):
        a = self.num(n.addr, env)
        flags = self.opt(n.flags, env, 0)
        length = self.opt(n.length, env, -1)
        if not 0 <= a <= 65535 or flags < 0 or flags > 15:
            raise Undefined('range')
        mem = self.st.mem
        data = []
        if length >= 0:
            if a + length > 65536:
                raise Undefined('range')
            data = list(mem[a:a + length])
        else:
            if flags & 8:
                if n.end is None:
                    raise Undefined('no end expression')
            while True:
                if a > 65535:
                    raise Undefined('ran off the end of memory')
                b = mem[a]
                if flags & 8:
                    if self.truth(n.end, Env(env.loop, dict(env.params, b=('i', b)))):
                        break
                    if b == 0 or b & 128:
                        raise Undefined('zero or bit-7 byte before the end marker')
                elif b == 0:
                    break
                elif b & 128:
                    data.append(b & 127)
                    break
                data.append(b)
                a += 1
        if any(b < 32 or b > 126 or b in (35, 94, 96) for b in data):
            raise Undefined('byte outside the plain character range')
        s = ''.join(chr(b) for b in data)
        if flags & 1:
            s = s.rstrip()
        if flags & 2:
            s = s.lstrip()
        # flag 4 replaces runs of spaces by #SPACE(N), which expands to N spaces: same text after normalisation
        return s

    def t_space(self, n, env):
        c = self.opt(n.e, env, 1)
        if c < 1 or c > 64:
            raise Undefined('count')
        return ' ' * c

    def t_pc(self, n, env):
        return str(self.pc)

def normalise(s, html=False):
    """Undo HTML escaping (HTML mode only) and map the non-breaking space to a space (both modes)."""
    if html:
        s = _html.unescape(s)
    return s.replace('\xa0', ' ')
