"""asmload (C04): read the text skool2asm wrote and build the memory image an assembler would produce from it.

Understands exactly the line shapes of skool2asm's default templates:
    ; comment                        (ignored)
    LABEL:                           (label at the current address)
    NAME EQU value / name equ value  (symbol definition)
      ORG address / org address      (sets the current address)
      OPERATION [; comment]          (indented; an empty operation is a comment continuation line)
Labels are resolved in two passes and replaced textually by their decimal values; the encoding of one instruction is
delegated to the `assemble(operation, address) -> sequence of bytes` callback handed in by the caller (the check
passes skoolkit's z80.Assembler, which C02 validates separately).  This module does not import skoolkit.

It refuses (AsmRefused) input it cannot interpret faithfully: a label that shadows a register/condition/mnemonic, an
instruction before any ORG, an unparseable ORG/EQU value, an unknown line shape.
"""
import re

class AsmRefused(Exception):
    pass

RESERVED = {'A', 'B', 'C', 'D', 'E', 'H', 'L', 'I', 'R', 'F', 'AF', 'BC', 'DE', 'HL', 'SP', 'IX', 'IY', 'IXH', 'IXL', 'IYH', 'IYL',
            'NZ', 'Z', 'NC', 'PO', 'PE', 'P', 'M', 'ORG', 'EQU', 'DEFB', 'DEFM', 'DEFS', 'DEFW'}

_IDENT = re.compile(r'(?<![\w$%"\'])[A-Za-z_][A-Za-z0-9_]*(?![\w\'])')
_QUOTED = re.compile(r'("(?:[^"\\]|\\.)*")')

def split_comment(text):
    """(operation, comment) split at the first ';' outside a string literal."""
    pos = 0
    for part in _QUOTED.split(text):
        if not part.startswith('"') or not part.endswith('"') or len(part) < 2:
            i = part.find(';')
            if i >= 0:
                return text[:pos + i], text[pos + i + 1:]
        pos += len(part)
    return text, ''

def parse_number(s):
    s = s.strip()
    try:
        if s.startswith('$'):
            return int(s[1:], 16)
        if s.startswith('%'):
            return int(s[1:], 2)
        if s[:2].lower() == '0x':
            return int(s[2:], 16)
        return int(s, 10)
    except ValueError:
        return None

def substitute(operation, symbols, default=None):
    """Replace identifiers that are symbols by their decimal value, outside string literals and never the mnemonic.
    default: value used for identifiers found in `symbols` whose value is None (first pass)."""
    m = re.match(r'\s*\S+', operation)
    if not m:
        return operation, []
    head, rest = operation[:m.end()], operation[m.end():]
    used = []
    def rep(mo):
        name = mo.group()
        if name in symbols:
            used.append(name)
            v = symbols[name]
            return str(default if v is None else v)
        return name
    out = ''
    for part in _QUOTED.split(rest):
        if part.startswith('"') and part.endswith('"') and len(part) >= 2:
            out += part
        else:
            out += _IDENT.sub(rep, part)
    return head + out, used

def parse(text):
    """-> list of items: ('org', value) ('equ', name, value) ('label', name) ('op', operation, line number)."""
    items = []
    for n, raw in enumerate(text.split('\n'), 1):
        line = raw.rstrip('\r')
        if not line.strip() or line.startswith(';'):
            continue
        if line[0] in ' \t':
            op, _ = split_comment(line)
            op = op.strip()
            if not op:
                continue
            if op.upper().startswith('ORG ') or op.upper().startswith('ORG\t'):
                v = parse_number(op[4:])
                if v is None:
                    raise AsmRefused('unparseable ORG: %r' % line)
                items.append(('org', v))
            else:
                items.append(('op', op, n))
            continue
        m = re.match(r'^(\S+)\s+(EQU|equ)\s+(\S+)\s*$', line)
        if m:
            v = parse_number(m.group(3))
            if v is None:
                raise AsmRefused('unparseable EQU: %r' % line)
            items.append(('equ', m.group(1), v))
            continue
        m = re.match(r'^([A-Za-z_][A-Za-z0-9_]*):\s*$', line)
        if m:
            items.append(('label', m.group(1)))
            continue
        raise AsmRefused('unknown line shape: %r' % line[:80])
    return items

class Image:
    def __init__(self):
        self.mem = {}            # address -> byte
        self.symbols = {}
        self.ops = []            # (address, operation as written, operation after substitution, bytes)
        self.failed = []         # (address, operation as written, operation after substitution): the assembler returned nothing
        self.orgs = []
        self.overlaps = 0
        self.symbols_used = 0

    def span(self):
        if not self.mem:
            return None
        return min(self.mem), max(self.mem) + 1

    def flat(self, lo, hi):
        return bytes(self.mem.get(a, 0) for a in range(lo, hi))

def _normalise(op):
    """Forms real assemblers accept but the delegated encoder only knows literally: OUT (C),<zero in any base>."""
    m = re.match(r'^(\s*OUT\s*\(C\)\s*,\s*)(\S+)\s*$', op, re.I)
    if m and parse_number(m.group(2)) == 0:
        return m.group(1) + '0'
    return op

def load(text, assemble):
    items = parse(text)
    symbols = {}
    for it in items:
        if it[0] in ('equ', 'label'):
            name = it[1]
            if name.upper() in RESERVED:
                raise AsmRefused('symbol %s shadows a register, condition or directive name' % name)
            if name in symbols:
                raise AsmRefused('symbol %s defined twice' % name)
            symbols[name] = it[2] if it[0] == 'equ' else None
    # ---- pass 1: addresses (sizes do not depend on operand values; unknown labels stand in as the current address)
    img = Image()
    cur = None
    sizes = []
    for it in items:
        if it[0] == 'org':
            cur = it[1]
            img.orgs.append(cur)
        elif it[0] == 'label':
            if cur is None:
                raise AsmRefused('label %s before any ORG' % it[1])
            symbols[it[1]] = cur
        elif it[0] == 'op':
            if cur is None:
                raise AsmRefused('instruction before any ORG: %r' % it[1])
            op1, used = substitute(_normalise(it[1]), {k: None for k in symbols}, default=cur)
            up = op1.upper()
            if up.startswith(('DJNZ ', 'JR ')):
                size = 2
            else:
                size = len(assemble(op1, cur) or ())
                if size == 0 and used:
                    # a value-dependent failure with the stand-in (e.g. a label used as a byte): size it with zero
                    op0, _ = substitute(_normalise(it[1]), {k: None for k in symbols}, default=0)
                    size = len(assemble(op0, cur) or ())
            sizes.append(size)
            cur += size
    # ---- pass 2: bytes
    cur = None
    k = 0
    for it in items:
        if it[0] == 'org':
            cur = it[1]
        elif it[0] == 'op':
            op2, used = substitute(_normalise(it[1]), symbols)
            img.symbols_used += len(used)
            data = tuple(assemble(op2, cur) or ())
            size = sizes[k]
            k += 1
            if not data or len(data) != size:
                img.failed.append((cur, it[1], op2))
                data = data[:size] if data else ()
            for i, b in enumerate(data):
                a = (cur + i)
                if a in img.mem:
                    img.overlaps += 1
                img.mem[a] = b
            img.ops.append((cur, it[1], op2, data))
            cur += size
    img.symbols = symbols
    return img
