"""Structural PNG/APNG decoder written from the PNG (ISO/IEC 15948) and APNG specifications.

Independent of skoolkit (uses only zlib/struct). `decode(data)` walks the file, checks every structural
rule the C15 statement names (signature, chunk lengths, CRCs, IHDR/PLTE/tRNS consistency, zlib stream,
APNG sequencing) and returns the frames as rows of palette indexes together with the RGBA palette.

Problems are collected as strings in `Png.problems` (never raised): an empty list means the file is a
well-formed indexed-colour PNG/APNG.
"""
import struct
import zlib

SIGNATURE = bytes((137, 80, 78, 71, 13, 10, 26, 10))

# byte -> pixel indexes, per bit depth
_UNPACK = {
    1: [bytes((b >> s) & 1 for s in (7, 6, 5, 4, 3, 2, 1, 0)) for b in range(256)],
    2: [bytes((b >> s) & 3 for s in (6, 4, 2, 0)) for b in range(256)],
    4: [bytes((b >> s) & 15 for s in (4, 0)) for b in range(256)],
    8: [bytes((b,)) for b in range(256)],
}

class FrameData:
    __slots__ = ('width', 'height', 'x', 'y', 'delay_num', 'delay_den', 'dispose', 'blend', 'rows', 'seq', 'is_default')
    def __init__(self, width, height, x=0, y=0, delay_num=0, delay_den=0, dispose=0, blend=0, seq=None, is_default=True):
        self.width, self.height, self.x, self.y = width, height, x, y
        self.delay_num, self.delay_den, self.dispose, self.blend = delay_num, delay_den, dispose, blend
        self.rows = None      # list of bytes (one palette index per pixel), or None when the stream was unusable
        self.seq = seq
        self.is_default = is_default

class Png:
    def __init__(self):
        self.problems = []
        self.width = self.height = self.depth = None
        self.palette = []        # list of (r, g, b, a)
        self.chunks = []         # chunk type names in file order
        self.animated = False
        self.num_frames = None
        self.num_plays = None
        self.frames = []         # FrameData; frames[0] is the default image (IDAT)

    @property
    def ok(self):
        return not self.problems

def _paeth(a, b, c):
    p = a + b - c
    pa, pb, pc = abs(p - a), abs(p - b), abs(p - c)
    if pa <= pb and pa <= pc:
        return a
    if pb <= pc:
        return b
    return c

def _unfilter(raw, height, rowbytes, bpp, problems, what):
    rows = []
    prev = bytes(rowbytes)
    pos = 0
    for y in range(height):
        ft = raw[pos]
        line = bytearray(raw[pos + 1:pos + 1 + rowbytes])
        pos += 1 + rowbytes
        if ft == 0:
            pass
        elif ft == 1:
            for i in range(bpp, rowbytes):
                line[i] = (line[i] + line[i - bpp]) & 255
        elif ft == 2:
            for i in range(rowbytes):
                line[i] = (line[i] + prev[i]) & 255
        elif ft == 3:
            for i in range(rowbytes):
                a = line[i - bpp] if i >= bpp else 0
                line[i] = (line[i] + ((a + prev[i]) >> 1)) & 255
        elif ft == 4:
            for i in range(rowbytes):
                a = line[i - bpp] if i >= bpp else 0
                c = prev[i - bpp] if i >= bpp else 0
                line[i] = (line[i] + _paeth(a, prev[i], c)) & 255
        else:
            problems.append('%s: scanline %d has filter type %d' % (what, y, ft))
            return None
        prev = bytes(line)
        rows.append(prev)
    return rows

def _decode_stream(png, stream, width, height, what):
    """zlib stream -> list of rows of palette indexes (bytes), or None."""
    depth = png.depth
    if depth not in _UNPACK or not width or not height:
        return None
    rowbytes = (width * depth + 7) // 8
    d = zlib.decompressobj()
    try:
        raw = d.decompress(stream)
        raw += d.flush()
    except zlib.error as e:
        png.problems.append('%s: zlib stream does not inflate (%s)' % (what, e))
        return None
    if not d.eof:
        png.problems.append('%s: zlib stream is truncated (no final block / Adler-32)' % what)
        return None
    if d.unused_data:
        png.problems.append('%s: %d bytes follow the end of the zlib stream' % (what, len(d.unused_data)))
    expected = height * (1 + rowbytes)
    if len(raw) != expected:
        png.problems.append('%s: inflated length %d, expected %d = %d x (1 + %d)' % (what, len(raw), expected, height, rowbytes))
        return None
    lines = _unfilter(raw, height, rowbytes, 1, png.problems, what)
    if lines is None:
        return None
    table = _UNPACK[depth]
    npal = len(png.palette)
    rows = []
    cache = {}
    bad = None
    for y, line in enumerate(lines):
        r = cache.get(line)
        if r is None:
            r = b''.join([table[b] for b in line])[:width]
            cache[line] = r
            if npal and r and max(r) >= npal and bad is None:
                bad = (y, max(r))
        rows.append(r)
    if bad:
        png.problems.append('%s: row %d uses palette index %d but PLTE has %d entries' % (what, bad[0], bad[1], npal))
    return rows

def decode(data):
    png = Png()
    P = png.problems
    data = bytes(data)
    if data[:8] != SIGNATURE:
        P.append('bad signature %r' % data[:8])
        return png
    pos = 8
    n = len(data)
    seen_iend = False
    idat = []              # IDAT payloads
    idat_done = False
    have_plte = have_trns = False
    trns = b''
    expected_seq = 0
    fctl_count = 0
    cur = None             # frame under construction: [FrameData, [payloads]]
    pending = []           # finished (FrameData, payload list)
    default_fctl = None
    while pos < n:
        if seen_iend:
            P.append('%d bytes after IEND' % (n - pos))
            break
        if pos + 12 > n:
            P.append('truncated chunk header at offset %d' % pos)
            break
        length, = struct.unpack('>I', data[pos:pos + 4])
        ctype = data[pos + 4:pos + 8]
        if length > 0x7FFFFFFF:
            P.append('chunk length %d exceeds 2^31-1 at offset %d' % (length, pos))
            break
        if pos + 12 + length > n:
            P.append('chunk %r at offset %d: length %d runs past the end of the file' % (ctype, pos, length))
            break
        body = data[pos + 8:pos + 8 + length]
        crc, = struct.unpack('>I', data[pos + 8 + length:pos + 12 + length])
        calc = zlib.crc32(data[pos + 4:pos + 8 + length]) & 0xFFFFFFFF
        try:
            name = ctype.decode('ascii')
        except UnicodeDecodeError:
            name = repr(ctype)
        if not (len(name) == 4 and name.isalpha()):
            P.append('chunk type %r at offset %d is not four ASCII letters' % (ctype, pos))
        if crc != calc:
            P.append('chunk %s at offset %d: CRC %08x, computed %08x' % (name, pos, crc, calc))
        first = not png.chunks
        png.chunks.append(name)
        pos += 12 + length
        if first and name != 'IHDR':
            P.append('first chunk is %s, not IHDR' % name)
        if name == 'IHDR':
            if not first:
                P.append('IHDR is not the first chunk / appears twice')
                continue
            if length != 13:
                P.append('IHDR length %d' % length)
                continue
            w, h, depth, ctype_, comp, filt, inter = struct.unpack('>IIBBBBB', body)
            png.width, png.height, png.depth = w, h, depth
            if w == 0 or h == 0 or w > 0x7FFFFFFF or h > 0x7FFFFFFF:
                P.append('IHDR dimensions %d x %d' % (w, h))
            if ctype_ != 3:
                P.append('IHDR colour type %d (indexed colour expected)' % ctype_)
            if depth not in (1, 2, 4, 8):
                P.append('IHDR bit depth %d is not allowed for indexed colour' % depth)
            if comp != 0 or filt != 0:
                P.append('IHDR compression/filter method %d/%d' % (comp, filt))
            if inter != 0:
                P.append('IHDR interlace method %d (only 0 is produced/decoded here)' % inter)
        elif name == 'PLTE':
            if have_plte:
                P.append('more than one PLTE')
            if idat:
                P.append('PLTE after IDAT')
            have_plte = True
            if length == 0 or length % 3:
                P.append('PLTE length %d is not a positive multiple of 3' % length)
            entries = length // 3
            if png.depth in (1, 2, 4, 8) and entries > (1 << png.depth):
                P.append('PLTE has %d entries, more than bit depth %d can index' % (entries, png.depth))
            png.palette = [(body[3 * i], body[3 * i + 1], body[3 * i + 2], 255) for i in range(entries)]
        elif name == 'tRNS':
            if have_trns:
                P.append('more than one tRNS')
            if not have_plte:
                P.append('tRNS before PLTE')
            if idat:
                P.append('tRNS after IDAT')
            have_trns = True
            if length > len(png.palette):
                P.append('tRNS has %d entries, PLTE has %d' % (length, len(png.palette)))
            if length == 0:
                P.append('empty tRNS')
            trns = body
            for i, a in enumerate(body[:len(png.palette)]):
                r, g, b, _ = png.palette[i]
                png.palette[i] = (r, g, b, a)
        elif name == 'acTL':
            if png.animated:
                P.append('more than one acTL')
            if idat:
                P.append('acTL after IDAT')
            png.animated = True
            if length != 8:
                P.append('acTL length %d' % length)
            else:
                png.num_frames, png.num_plays = struct.unpack('>II', body)
                if png.num_frames == 0:
                    P.append('acTL num_frames is 0')
        elif name == 'fcTL':
            if length != 26:
                P.append('fcTL length %d' % length)
                continue
            seq, w, h, x, y, dn, dd, dispose, blend = struct.unpack('>IIIIIHHBB', body)
            if seq != expected_seq:
                P.append('fcTL sequence number %d, expected %d' % (seq, expected_seq))
            expected_seq = seq + 1
            fctl_count += 1
            if w == 0 or h == 0:
                P.append('fcTL frame size %d x %d' % (w, h))
            if png.width is not None and (x + w > png.width or y + h > png.height):
                P.append('fcTL region (%d,%d,%d,%d) is not inside the %d x %d canvas' % (x, y, w, h, png.width, png.height))
            if dispose > 2:
                P.append('fcTL dispose_op %d' % dispose)
            if blend > 1:
                P.append('fcTL blend_op %d' % blend)
            fd = FrameData(w, h, x, y, dn, dd, dispose, blend, seq, is_default=False)
            if cur is not None:
                pending.append(cur)
                cur = None
            if not idat:
                # applies to the default image
                if default_fctl is not None:
                    P.append('two fcTL chunks before IDAT')
                default_fctl = fd
                if (w, h, x, y) != (png.width, png.height, 0, 0):
                    P.append('fcTL of the default image is (%d,%d,%d,%d), IHDR says %d x %d' % (x, y, w, h, png.width, png.height))
            else:
                idat_done = True
                cur = [fd, []]
        elif name == 'IDAT':
            if not have_plte:
                P.append('IDAT before PLTE (indexed colour requires PLTE)')
            if idat_done or (idat and png.chunks[-2] != 'IDAT'):
                P.append('IDAT chunks are not consecutive')
            idat.append(body)
        elif name == 'fdAT':
            if length < 4:
                P.append('fdAT length %d' % length)
                continue
            seq, = struct.unpack('>I', body[:4])
            if seq != expected_seq:
                P.append('fdAT sequence number %d, expected %d' % (seq, expected_seq))
            expected_seq = seq + 1
            if cur is None:
                P.append('fdAT without a preceding fcTL')
            else:
                cur[1].append(body[4:])
        elif name == 'IEND':
            seen_iend = True
            if length:
                P.append('IEND length %d' % length)
        else:
            if name[:1].isupper():
                P.append('unknown critical chunk %s' % name)
    if cur is not None:
        pending.append(cur)
    if not seen_iend:
        P.append('no IEND chunk')
    if png.width is None:
        return png
    if not idat:
        P.append('no IDAT chunk')
    if not have_plte:
        P.append('no PLTE chunk')
    # default image
    f0 = default_fctl or FrameData(png.width, png.height)
    f0.width, f0.height, f0.x, f0.y = png.width, png.height, 0, 0
    f0.is_default = True
    if idat:
        f0.rows = _decode_stream(png, b''.join(idat), png.width, png.height, 'IDAT')
    png.frames.append(f0)
    for fd, payloads in pending:
        if not payloads:
            P.append('fcTL (sequence %d) has no fdAT' % fd.seq)
        else:
            fd.rows = _decode_stream(png, b''.join(payloads), fd.width, fd.height, 'fdAT after fcTL %d' % fd.seq)
        png.frames.append(fd)
    if png.animated:
        nfr = fctl_count
        if png.num_frames is not None and png.num_frames != nfr:
            P.append('acTL says %d frames, file has %d fcTL chunks' % (png.num_frames, nfr))
    else:
        if fctl_count or pending:
            P.append('fcTL/fdAT present without acTL')
    return png

def rgba_rows(png, frame):
    """Rows of a decoded frame as lists of (r,g,b,a)."""
    pal = png.palette
    return [[pal[i] if i < len(pal) else None for i in row] for row in frame.rows]

def compose(png):
    """Canvas after each animation frame, as lists of rows of palette indexes (bytes); honours region,
    dispose_op and blend_op=source (blend_op=over on an indexed image is only equal to 'source' for opaque
    pixels, which is all the caller needs to know: it reports blend in the frame data)."""
    if not png.frames or png.frames[0].rows is None:
        return []
    out = []
    canvas = [bytes(r) for r in png.frames[0].rows]
    out.append(list(canvas))
    for fd in png.frames[1:]:
        if fd.rows is None:
            out.append(None)
            continue
        new = list(canvas)
        for j, r in enumerate(fd.rows):
            y = fd.y + j
            if 0 <= y < len(new):
                row = new[y]
                new[y] = row[:fd.x] + r + row[fd.x + fd.width:]
        out.append(new)
        if fd.dispose == 0:
            canvas = new
    return out
