"""ULA contention model for the 48K and 128K Spectrum, from the published timing descriptions (no skoolkit import).

48K : frame 69888 T, 224 T per line, first contended T 14335, 192 display lines, 128 contended T per line.
128K: frame 70908 T, 228 T per line, first contended T 14361.
A contended access beginning at T waits 6,5,4,3,2,1,0,0 T for T = first+0..7 (repeating every 8 T).
I/O: high byte of the port address in contended memory / low bit (ULA port) select one of four shapes.
"""

class ULA:
    def __init__(self, is128=False, odd_bank_at_c000=False):
        self.is128 = is128
        self.odd = odd_bank_at_c000
        if is128:
            self.frame, self.line, self.first = 70908, 228, 14361
        else:
            self.frame, self.line, self.first = 69888, 224, 14335
        self.last = self.first + 192 * self.line

    def wait(self, t):
        t %= self.frame
        if t < self.first or t >= self.last:
            return 0
        x = (t - self.first) % self.line
        if x >= 128:
            return 0
        return (6, 5, 4, 3, 2, 1, 0, 0)[x % 8]

    def contended(self, a):
        a &= 0xFFFF
        return 0x4000 <= a < 0x8000 or (self.is128 and self.odd and a >= 0xC000)

    def io_cycles(self, port):
        hi = self.contended(port)
        if port & 1:
            if hi:
                return [(True, 1)] * 4
            return [(False, 4)]
        if hi:
            return [(True, 1), (True, 3)]
        return [(False, 1), (True, 3)]

    def extra(self, cycles, t):
        """Total wait states for the ordered machine-cycle list of one instruction starting at T-state t."""
        d = 0
        for c in cycles:
            if c[0] == 'm':
                if self.contended(c[1]):
                    w = self.wait(t)
                    d += w
                    t += w
                t += c[2]
            else:
                for cont, n in self.io_cycles(c[1]):
                    if cont:
                        w = self.wait(t)
                        d += w
                        t += w
                    t += n
        return d

    def in_display(self, t, length=32):
        """True if any T in [t, t+length) can be delayed."""
        t %= self.frame
        return t + length >= self.first and t < self.last
