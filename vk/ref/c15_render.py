"""Reference model of how a tile array becomes pixels, written from the SkoolKit documentation
(skool-macros: image macros, Cropping, Masks, Palette; ref-files: [Colours], [ImageWriter]) and the
Spectrum display rules. Does not import skoolkit.

A tile is (attr, data, mask): attr 0..255, data = 8 bytes (top row first, bit 7 leftmost),
mask = 8 bytes or None.

Colour ids: 0 transparent, 1 black, 2 blue, 3 red, 4 magenta, 5 green, 6 cyan, 7 yellow, 8 white,
9..15 the bright versions of blue..white (bright black is black).
"""

DEFAULT_RGB = (
    (0, 254, 0),       # TRANSPARENT
    (0, 0, 0), (0, 0, 197), (197, 0, 0), (197, 0, 197), (0, 198, 0), (0, 198, 197), (197, 198, 0), (205, 198, 205),
    (0, 0, 255), (255, 0, 0), (255, 0, 255), (0, 255, 0), (0, 255, 255), (255, 255, 0), (255, 255, 255),
)
COLOUR_NAMES = ('TRANSPARENT', 'BLACK', 'BLUE', 'RED', 'MAGENTA', 'GREEN', 'CYAN', 'YELLOW', 'WHITE',
                'BRIGHT_BLUE', 'BRIGHT_RED', 'BRIGHT_MAGENTA', 'BRIGHT_GREEN', 'BRIGHT_CYAN', 'BRIGHT_YELLOW', 'BRIGHT_WHITE')

def attr_colours(attr):
    """(paper id, ink id) of an attribute byte."""
    ink, paper = attr & 7, (attr >> 3) & 7
    if attr & 64:
        ink = 8 + ink if ink else 1
        paper = 8 + paper if paper else 1
    else:
        ink += 1
        paper += 1
    return paper, ink

# ------------------------------------------------------------------ geometry on tile arrays

def _flip_tile_h(t):
    attr, data, mask = t
    rev = lambda b: int('{:08b}'.format(b)[::-1], 2)
    return (attr, [rev(b) for b in data], [rev(b) for b in mask] if mask is not None else None)

def _flip_tile_v(t):
    attr, data, mask = t
    return (attr, list(data)[::-1], list(mask)[::-1] if mask is not None else None)

def _bits(rows):
    return [[(b >> (7 - x)) & 1 for x in range(8)] for b in rows]

def _pack(bits):
    return [sum(v << (7 - x) for x, v in enumerate(r)) for r in bits]

def _rot_tile_cw(t):
    attr, data, mask = t
    def rot(rows):
        old = _bits(rows)
        # new[y][x] = old[7 - x][y]
        return _pack([[old[7 - x][y] for x in range(8)] for y in range(8)])
    return (attr, rot(data), rot(mask) if mask is not None else None)

def flip(tiles, how):
    """how & 1: mirror left-right; how & 2: mirror top-bottom."""
    if how & 1:
        tiles = [[_flip_tile_h(t) for t in reversed(row)] for row in tiles]
    if how & 2:
        tiles = [[_flip_tile_v(t) for t in row] for row in reversed(tiles)]
    return [list(r) for r in tiles]

def rotate(tiles, n):
    """n quarter turns clockwise."""
    for _ in range(n & 3):
        rows, cols = len(tiles), len(tiles[0])
        # new array has `cols` rows and `rows` columns; new[r][c] = old[rows - 1 - c][r]
        tiles = [[_rot_tile_cw(tiles[rows - 1 - c][r]) for c in range(rows)] for r in range(cols)]
    return [list(r) for r in tiles]

def adjust(tiles, flip_, rotate_):
    """Flip, then rotate (the order in which every SkoolKit macro and sna2img lists and applies them)."""
    return rotate(flip(tiles, flip_), rotate_)

# ------------------------------------------------------------------ pixels

def _row_ids(tile, k, mask_type, swap):
    """Colour ids of pixel row k of a tile."""
    attr, data, mask = tile
    paper, ink = attr_colours(attr)
    if swap and attr & 128:
        paper, ink = ink, paper
    u = data[k]
    if not mask_type or mask is None:
        return bytes(ink if (u >> (7 - x)) & 1 else paper for x in range(8))
    m = mask[k]
    out = bytearray(8)
    for x in range(8):
        ub, mb = (u >> (7 - x)) & 1, (m >> (7 - x)) & 1
        if mask_type == 1:      # OR-AND: 00 paper, 01 transparent, 10 paper, 11 ink
            c = (ink if ub else 0) if mb else paper
        else:                   # AND-OR: 00 paper, 01 transparent, 10 ink, 11 ink
            c = ink if ub else (0 if mb else paper)
        out[x] = c
    return bytes(out)

class Rendered:
    """Result for one frame: rows of colour ids for the still image and for the flash-swapped image."""
    __slots__ = ('width', 'height', 'rows', 'rows2', 'has_trans', 'colours', 'flash_differs', 'flash_box')

def crop_rect(tiles, scale, crop):
    """The rectangle actually rendered: the requested one intersected with the scaled array.
    None if the origin is outside the image (no pixels requested)."""
    x, y, w, h = crop
    full_w, full_h = 8 * len(tiles[0]) * scale, 8 * len(tiles) * scale
    x, y = x or 0, y or 0
    if x < 0 or y < 0 or x >= full_w or y >= full_h:
        return None
    w = min(w or full_w, full_w - x)
    h = min(h or full_h, full_h - y)
    if w <= 0 or h <= 0:
        return None
    return x, y, w, h

def render(tiles, scale, mask_type, crop=(0, 0, None, None), flash=True):
    """Colour ids of every output pixel: source pixel (sx, sy) covers the scale x scale block at
    (sx*scale, sy*scale); output pixel (i, j) is scaled pixel (x + i, y + j)."""
    rect = crop_rect(tiles, scale, crop)
    if rect is None:
        return None
    x0, y0, w, h = rect
    res = Rendered()
    res.width, res.height = w, h
    out = []
    for swap in ((False, True) if flash else (False,)):
        rows = []
        cache = {}
        for j in range(h):
            sy = (y0 + j) // scale
            r = cache.get(sy)
            if r is None:
                trow = tiles[sy // 8]
                src = b''.join([_row_ids(t, sy % 8, mask_type, swap) for t in trow])
                if scale > 1:
                    src = bytes([v for v in src for _ in range(scale)])
                r = cache[sy] = src[x0:x0 + w]
            rows.append(r)
        out.append(rows)
    res.rows = out[0]
    res.rows2 = out[1] if flash else out[0]
    seen = set()
    for r in set(res.rows):
        seen.update(r)
    res.has_trans = 0 in seen
    res.colours = seen
    res.flash_differs = False
    res.flash_box = None
    if flash:
        minx = miny = None
        maxx = maxy = -1
        for j, (a, b) in enumerate(zip(res.rows, res.rows2)):
            if a is not b and a != b:
                if miny is None:
                    miny = j
                maxy = j
                for i in range(w):
                    if a[i] != b[i]:
                        if minx is None or i < minx:
                            minx = i
                        break
                for i in range(w - 1, -1, -1):
                    if a[i] != b[i]:
                        if i > maxx:
                            maxx = i
                        break
        if miny is not None:
            res.flash_differs = True
            res.flash_box = (minx, miny, maxx + 1, maxy + 1)   # half-open bounding box of pixels that change
    return res

def rgba_table(rgb=DEFAULT_RGB, has_trans=False, tindex=0, alpha=255):
    """colour id -> (r, g, b, a) for an image.
    has_trans: some pixel of the image (any frame) is transparent because of a mask.
    tindex: palette entry to treat as transparent when no mask made anything transparent.
    alpha: alpha value of the transparent colour."""
    table = [tuple(c) + (255,) for c in rgb]
    table[0] = tuple(rgb[0]) + (alpha,)
    if not has_trans and 0 < tindex < 16:
        table[tindex] = tuple(rgb[tindex]) + (alpha,)
    return table
