"""Sequential model of the 128K paging port 0x7FFD (written from the hardware description, no skoolkit import)."""

class Model:
    def __init__(self, value=0):
        self.value = value & 0xFF

    @property
    def locked(self):
        return bool(self.value & 0x20)

    @property
    def bank(self):
        return self.value & 7

    @property
    def rom(self):
        return (self.value >> 4) & 1

    def out(self, port, value):
        """A write is decoded when A15 and A1 are both low; it is ignored once bit 5 has been set."""
        if port & 0x8002 == 0 and not self.locked:
            self.value = value & 0xFF
            return True
        return False
