"""ZX-State (SZX) snapshot files: a decoder and a plain encoder written from the ZX-State format text
(spectaculator.com/docs/zx-state). No skoolkit import. Same state dict as c09_z80fmt, plus memptr and outfe."""
import struct
import zlib

FRAME = {'48K': 69888, '128K': 70908, '+2': 70908}
MACHINES = {1: '48K', 2: '128K', 3: '+2'}
MACHINE_IDS = {'48K': 1, '128K': 2, '+2': 3}

class FormatError(Exception):
    pass

def walk(data):
    """Header check and chunk walk: returns (machine id, [(id bytes, payload bytes)]). Chunks must tile the file exactly."""
    d = bytes(data)
    if len(d) < 8 or d[:4] != b'ZXST':
        raise FormatError('no ZXST signature')
    major, minor, mid, flags = d[4], d[5], d[6], d[7]
    if major != 1:
        raise FormatError('major version %d' % major)
    chunks = []
    i = 8
    while i < len(d):
        if i + 8 > len(d):
            raise FormatError('truncated chunk header at offset %d' % i)
        cid = d[i:i + 4]
        size = struct.unpack('<I', d[i + 4:i + 8])[0]
        if i + 8 + size > len(d):
            raise FormatError('chunk %r at offset %d (size %d) runs past the end of the file' % (cid, i, size))
        chunks.append((cid, d[i + 8:i + 8 + size]))
        i += 8 + size
    return mid, chunks

def parse(data):
    mid, chunks = walk(data)
    if mid not in MACHINES:
        raise FormatError('machine id %d not handled by this decoder' % mid)
    machine = MACHINES[mid]
    s = {'machine': machine, 'issue2': 0, 'out7ffd': 0, 'outfffd': 0, 'ay': (0,) * 16, 'outfe': 0, 'border': 0, 'has_ay': False}
    pages = {}
    seen = set()
    for cid, p in chunks:
        if cid != b'RAMP':
            if cid in seen:
                raise FormatError('chunk %r appears twice' % cid)
            seen.add(cid)
        if cid == b'Z80R':
            if len(p) != 37:
                raise FormatError('Z80R chunk is %d bytes, not 37' % len(p))
            (af, s['bc'], s['de'], s['hl'], af2, s['bc2'], s['de2'], s['hl2'], s['ix'], s['iy'], s['sp'], s['pc'],
             s['i'], s['r'], iff1, iff2, s['im'], cycles, hold, zflags, s['memptr']) = struct.unpack('<12H5BIBBH', p)
            s['a'], s['f'] = af >> 8, af & 255
            s['a2'], s['f2'] = af2 >> 8, af2 & 255
            s['iff1'] = 1 if iff1 else 0
            s['iff2'] = 1 if iff2 else 0
            s['iff1_raw'], s['iff2_raw'] = iff1, iff2
            s['cycles_raw'] = cycles
            # dwCyclesStart is "the number of T-states since the start of the current frame"; a value that is not inside
            # the frame is reported as it is and left to the comparison with what was written.
            s['tstates'] = cycles
            if s['im'] > 2:
                raise FormatError('interrupt mode %d' % s['im'])
        elif cid == b'SPCR':
            if len(p) != 8:
                raise FormatError('SPCR chunk is %d bytes, not 8' % len(p))
            if p[0] > 7:
                raise FormatError('border colour %d' % p[0])
            s['border'], s['out7ffd'], s['outfe'] = p[0], p[1], p[3]
        elif cid == b'AY\x00\x00':
            if len(p) != 18:
                raise FormatError('AY chunk is %d bytes, not 18' % len(p))
            s['outfffd'] = p[1]
            s['ay'] = tuple(p[2:18])
            s['has_ay'] = True
        elif cid == b'KEYB':
            if len(p) != 5:
                raise FormatError('KEYB chunk is %d bytes, not 5' % len(p))
            s['issue2'] = struct.unpack('<I', p[:4])[0] & 1
        elif cid == b'RAMP':
            if len(p) < 3:
                raise FormatError('RAMP chunk too short')
            flags = p[0] + 256 * p[1]
            page = p[2]
            if flags & 1:
                try:
                    ram = zlib.decompress(p[3:])
                except zlib.error as e:
                    raise FormatError('page %d does not inflate: %s' % (page, e))
            else:
                ram = p[3:]
            if len(ram) != 16384:
                raise FormatError('page %d is %d bytes, not 16384' % (page, len(ram)))
            if page in pages:
                raise FormatError('page %d appears twice' % page)
            pages[page] = ram
    if b'Z80R' not in seen:
        raise FormatError('no Z80R chunk')
    if machine != '48K' and b'SPCR' not in seen:
        raise FormatError('no SPCR chunk in a 128K snapshot')
    s['pages'] = pages
    if machine == '48K':
        if set(pages) != {0, 2, 5}:
            raise FormatError('48K snapshot has pages %s, expected 0, 2 and 5' % sorted(pages))
        s['ram'] = pages[5] + pages[2] + pages[0]
    else:
        if set(pages) != set(range(8)):
            raise FormatError('128K snapshot has pages %s, expected 0..7' % sorted(pages))
        s['ram'] = [pages[b] for b in range(8)]
    return s

def _chunk(cid, payload):
    return cid + struct.pack('<I', len(payload)) + payload

def build(s, compress=True, extra=False):
    """State dict -> file bytes."""
    m = s['machine']
    out = b'ZXST' + bytes((1, 4, MACHINE_IDS[m], 0))
    if extra:
        out += _chunk(b'CRTR', b'verif harness'.ljust(32, b'\x00') + bytes((1, 0, 0, 0)) + b'x')
    af = (s['a'] << 8) | s['f']
    af2 = (s['a2'] << 8) | s['f2']
    z80r = struct.pack('<12H5BIBBH', af, s['bc'], s['de'], s['hl'], af2, s['bc2'], s['de2'], s['hl2'], s['ix'], s['iy'], s['sp'], s['pc'],
                       s['i'], s['r'], s['iff1'], s['iff2'], s['im'], (s.get('tstates') or 0) % FRAME[m], 0, 0, s.get('memptr') or 0)
    spcr = bytes((s['border'] & 7, s.get('out7ffd') or 0, 0, s.get('outfe') or 0, 0, 0, 0, 0))
    ramps = []
    if m == '48K':
        ram = bytes(s['ram'])
        pages = [(5, ram[:16384]), (2, ram[16384:32768]), (0, ram[32768:])]
    else:
        pages = [(b, bytes(s['ram'][b])) for b in range(8)]
    for page, blk in pages:
        if compress:
            ramps.append(_chunk(b'RAMP', bytes((1, 0, page)) + zlib.compress(blk, 6)))
        else:
            ramps.append(_chunk(b'RAMP', bytes((0, 0, page)) + blk))
    body = [_chunk(b'Z80R', z80r), _chunk(b'SPCR', spcr)]
    if m != '48K':
        body.append(_chunk(b'AY\x00\x00', bytes((0, s.get('outfffd') or 0)) + bytes(s.get('ay') or (0,) * 16)))
    else:
        body.append(_chunk(b'KEYB', struct.pack('<IB', s.get('issue2', 0) & 1, 0)))
    if extra:
        # chunks may come in any order: put the memory pages before the registers
        body = ramps + body
    else:
        body = body + ramps
    return out + b''.join(body)
