"""C20 reference RZX recorder and RZX file writer. No skoolkit import.

The recorder drives an abstract CPU (an adapter around `refz80` - see c20_refcpu - or around a simulator of the code
under test - the adapter for that lives with the property module) and applies ONE stated recording convention:

  * a frame ends at the first instruction boundary at which the CPU clock T >= the frame length (or after exactly one
    instruction when the frame is a forced short one, see `ei` below); T is then reset to 0;
  * fetch counter of a frame = number of M1 (opcode fetch) machine cycles of the instructions executed in it, i.e. the
    number of times the R register is incremented by instruction execution: 1 per unprefixed instruction, 2 for CB.. and
    ED.., 2 for DD/FD + an opcode that uses HL/H/L/(HL) and for DD/FD CB d op, 1 for a DD/FD prefix that is followed by
    anything else (that prefix is an instruction of its own, as in the code under test); one HALT cycle (4 T) is one
    fetch; one iteration of a repeating block instruction is two; the interrupt acknowledge cycle is not counted;
  * IN counter / port readings of a frame = the values returned to the IN instructions executed in it, in order;
  * at EVERY frame boundary, including the one after the last frame of an input recording block, a maskable interrupt
    is accepted when IFF is set: PC is first stepped past a HALT if the CPU is halted; PC is pushed; PC := 0x38 (IM 0/1,
    13 T) or the word at I*256+255 (IM 2, 19 T); IFF := 0; R is incremented; MEMPTR := PC;
  * `ldair` (matches playback flag 1): when the last instruction of the frame was LD A,I or LD A,R and the interrupt is
    accepted, bit 2 of F is reset first;
  * `ei` (matches playback flag 2): when the last instruction of the frame was EI the interrupt is NOT accepted and the
    next frame is a short one of exactly one instruction.

A recording also notes which playback-flag bits the convention actually constrains (`need_bit0`, `need_bit1`): a bit is
free when no frame boundary of the recording depends on it.
"""
import struct
import zlib

from vk.ref import paging
from vk.ref.refz80 import CPU as _RefCPU

A, F, B, C, D, E, H, L, IXH, IXL, IYH, IYL, SP, _SP2, I, R = range(16)
PC, T, IFF, IM, HALT, MEMPTR = 24, 25, 26, 27, 28, 29

# ------------------------------------------------------------------ instruction-level helpers

def m1_count(op0, op1):
    """Number of opcode-fetch (M1) cycles of the instruction that starts with bytes op0, op1."""
    if op0 in (0xCB, 0xED):
        return 2
    if op0 in (0xDD, 0xFD):
        if op1 == 0xCB:
            return 2
        return 2 if _RefCPU.indexable(op1) else 1
    return 1

def classify(op0, op1):
    """What the frame-boundary rules care about in the instruction that starts with op0, op1."""
    if op0 == 0x76:
        return 'halt'
    if op0 == 0xFB:
        return 'ei'
    if op0 == 0xED and op1 in (0x57, 0x5F):
        return 'ldair'
    if op0 in (0xDD, 0xFD) and m1_count(op0, op1) == 1:
        return 'prefix'
    return 'other'

class PortState:
    """Output-port state of a 48K/128K Spectrum as far as snapshots hold it."""
    def __init__(self, is128, out7ffd=0, outfffd=0, ay=None, outfe=0, border=0):
        self.is128 = is128
        self.page = paging.Model(out7ffd if is128 else 0)
        self.outfffd = outfffd
        self.ay = list(ay or (0,) * 16)
        self.outfe = outfe
        self.border = border & 7
        self.nout = 0

    def out(self, port, value):
        self.nout += 1
        if port & 1 == 0:
            self.outfe = value
            self.border = value & 7
        if self.is128:
            self.page.out(port, value)
        if port & 0xC002 == 0xC000:
            self.outfffd = value
        elif port & 0xC002 == 0x8000 and self.outfffd < 16:
            self.ay[self.outfffd] = value

class Frame:
    """fetch counter, port readings, kind of the last instruction, whether the interrupt at its end was accepted, IFF at its
    end (before the interrupt), whether it was a forced short frame, PC after the boundary was processed."""
    __slots__ = ('fetch', 'ins', 'last', 'accepted', 'iff', 'short', 'pc')
    def __init__(self, fetch, ins, last, accepted, iff, short, pc):
        self.fetch, self.ins, self.last, self.accepted, self.iff, self.short, self.pc = fetch, ins, last, accepted, iff, short, pc

class Block:
    """One input recording block: frames, the clock at its start, and (optionally) the snapshot that precedes it."""
    def __init__(self, tstates, snapshot=None, ext=None):
        self.tstates = tstates
        self.frames = []
        self.snapshot = snapshot
        self.ext = ext

class Recorder:
    def __init__(self, cpu, ports, ldair=False, ei=False):
        self.cpu = cpu
        self.ports = ports
        self.ldair = ldair
        self.ei = ei
        self.force_short = False
        self.stats = {'halt': 0, 'ei': 0, 'ldair': 0, 'prefix': 0, 'other': 0, 'accepted': 0, 'ei_blocked': 0, 'short': 0,
                      'ins': 0, 'fetch': 0, 'instructions': 0, 'outs': 0, 'im2': 0, 'halt_wrap': 0,
                      'locked_7ffd_writes': 0, 'locked_7ffd_writes_other_value': 0, 'locked_7ffd_writes_bit5_clear': 0}
        self.frame_no = 0
        self.lock_frame = None       # index of the first frame at whose end the 128K paging lock (bit 5 of 0x7FFD) is set
        self.need_bit0 = False
        self.ambiguous = []          # reasons why this recording is outside what the convention defines
        self.hazard = False          # a boundary where re-reading the opcode after execution classifies the instruction differently
        self.pushed_af = False
        self.taint = False           # executed BIT n,(HL) or a block instruction that repeated (undocumented flags, see c20.py)

    # ---- one frame
    def frame(self, flen):
        cpu = self.cpu
        regs = cpu.regs
        fetch = 0
        ins = []
        short = self.force_short
        self.force_short = False
        st = self.stats
        while True:
            pc = regs[PC]
            op0 = cpu.peek(pc)
            op1 = cpu.peek((pc + 1) & 0xFFFF)
            got, outs = cpu.step()
            fetch += m1_count(op0, op1)
            st['instructions'] += 1
            if op0 == 0xF5:
                self.pushed_af = True
            elif op0 == 0xCB and op1 & 0xC7 == 0x46:
                self.taint = True
            elif op0 == 0xED and op1 & 0xF4 == 0xB0 and regs[PC] == pc:
                self.taint = True
            if got:
                ins.extend(got)
            for port, value in outs:
                p = self.ports
                if p.is128 and port & 0x8002 == 0 and p.page.locked:
                    st['locked_7ffd_writes'] += 1
                    if value != p.page.value:
                        st['locked_7ffd_writes_other_value'] += 1
                    if not value & 0x20:
                        st['locked_7ffd_writes_bit5_clear'] += 1
                p.out(port, value)
                st['outs'] += 1
            if short or regs[T] >= flen:
                break
        if self.lock_frame is None and self.ports.is128 and self.ports.page.locked:
            self.lock_frame = self.frame_no
        self.frame_no += 1
        last = classify(op0, op1)
        if regs[IFF]:
            again = classify(cpu.peek(pc), cpu.peek((pc + 1) & 0xFFFF))
            if (again if again != 'prefix' else 'other') != (last if last != 'prefix' else 'other'):
                self.hazard = True
        regs[T] = 0
        iff = 1 if regs[IFF] else 0
        accepted = False
        if iff:
            if last == 'halt':
                if regs[PC] == 0xFFFF:
                    st['halt_wrap'] += 1
                regs[PC] = (regs[PC] + 1) & 0xFFFF
                accepted = True
            elif last == 'ldair':
                self.need_bit0 = True
                if self.ldair:
                    regs[F] &= 0xFB
                accepted = True
            elif last == 'ei' and self.ei:
                self.force_short = True
                st['ei_blocked'] += 1
            else:
                accepted = True
            if accepted:
                self.accept()
        st[last] += 1
        st['fetch'] += fetch
        st['ins'] += len(ins)
        if short:
            st['short'] += 1
        return Frame(fetch, ins, last, accepted, iff, short, int(regs[PC]))

    def accept(self):
        cpu = self.cpu
        regs = cpu.regs
        pc = regs[PC]
        sp1 = (regs[SP] - 1) & 0xFFFF
        sp2 = (regs[SP] - 2) & 0xFFFF
        if regs[IM] == 2:
            vec = ((regs[I] & 0xFF) << 8) | 0xFF
            v2 = (vec + 1) & 0xFFFF
            if vec in (sp1, sp2) or v2 in (sp1, sp2):
                self.ambiguous.append('interrupt push overlaps the IM 2 vector')
            addr = cpu.peek(vec) | (cpu.peek(v2) << 8)
            t = 19
            self.stats['im2'] += 1
        else:
            addr = 0x38
            t = 13
        cpu.poke(sp1, pc >> 8)
        cpu.poke(sp2, pc & 0xFF)
        regs[SP] = sp2
        regs[PC] = addr
        regs[IFF] = 0
        regs[HALT] = 0
        r = regs[R]
        regs[R] = (r & 0x80) | ((r + 1) & 0x7F)
        regs[T] += t
        regs[MEMPTR] = addr
        self.stats['accepted'] += 1

    def record(self, block, nframes, flen_of):
        """Append nframes frames to block; flen_of(i) gives the frame length of the i-th frame of this call."""
        for i in range(nframes):
            block.frames.append(self.frame(flen_of(i)))
        return block

def need_bit1(blocks, ei_mode):
    """True when some frame boundary depends on playback flag 2: the frame ended with EI (IFF set) and the next frame of the
    same block has a fetch counter of 1 or 2, or there is no next frame in the block."""
    for b in blocks:
        fr = b.frames
        for i, f in enumerate(fr):
            if f.iff and f.last == 'ei':
                if ei_mode:
                    return True
                if i + 1 >= len(fr) or fr[i + 1].fetch <= 2:
                    return True
    return False

# ------------------------------------------------------------------ RZX file writer (from the RZX format text, version 0.13)

def _block(bid, payload):
    return bytes((bid,)) + struct.pack('<I', len(payload) + 5) + payload

def snapshot_block(data, ext, compress):
    body = zlib.compress(bytes(data), 6) if compress else bytes(data)
    e = ext.encode('ascii')[:4].ljust(4, b'\x00')
    return _block(0x30, struct.pack('<I', 2 if compress else 0) + e + struct.pack('<I', len(data)) + body)

def frames_bytes(frames, repeat):
    """frames: list of (fetch, [readings]). repeat: use the 0xFFFF 'same readings as the previous frame' marker where
    possible ('nonempty': only for frames with readings; 'all': for empty ones too; None: never)."""
    out = bytearray()
    prev = None
    for fetch, ins in frames:
        ins = bytes(ins)
        out += struct.pack('<H', fetch)
        if repeat and prev is not None and ins == prev and (ins or repeat == 'all'):
            out += b'\xff\xff'
        else:
            out += struct.pack('<H', len(ins)) + ins
            prev = ins
    return bytes(out)

def count_repeats(frames, repeat):
    """How many frames frames_bytes() writes with the repeat marker: (with readings, without readings)."""
    prev = None
    n = m = 0
    for fetch, ins in frames:
        ins = bytes(ins)
        if repeat and prev is not None and ins == prev and (ins or repeat == 'all'):
            if ins:
                n += 1
            else:
                m += 1
        else:
            prev = ins
    return n, m

def input_block(frames, tstates, compress, repeat):
    body = frames_bytes(frames, repeat)
    if compress:
        body = zlib.compress(body, 6)
    return _block(0x80, struct.pack('<IBII', len(frames), 0, tstates, 2 if compress else 0) + body)

def creator_block(name=b'verif rzxrec', major=1, minor=0, custom=b''):
    return _block(0x10, name[:20].ljust(20, b'\x00') + struct.pack('<HH', major, minor) + custom)

def build_rzx(blocks, compress_snap=True, compress_irb=True, repeat='nonempty', creator=True, minor=13):
    """blocks: list of Block. Returns the file bytes."""
    out = b'RZX!' + bytes((0, minor)) + struct.pack('<I', 0)
    if creator:
        out += creator_block()
    for b in blocks:
        if b.snapshot is not None:
            out += snapshot_block(b.snapshot, b.ext, compress_snap)
        out += input_block([(f.fetch, f.ins) for f in b.frames], b.tstates, compress_irb, repeat)
    return out
