"""C18 reference readers and oracles. Written from the skool-file format description, the ASM/HTML page layouts and the
statement of the property; nothing here imports skoolkit.

Every check_* function returns (problems, stats): problems is a list of dicts {'code', 'place', 'detail'}; codes:
  tokens     a word was lost, duplicated, altered, reordered or attached to another place
  structure  an entry / section / row that must exist is missing or an unexpected one is present
  instr      an instruction is missing, duplicated, or listed with another address/operation
  width      a line exceeds the line width although it could have been broken (more than one word after its fixed prefix)
  nowarn-i   an over-width instruction line (justified or not) for which skool2asm printed no warning
  nowarn-c   a justified over-width comment line for which skool2asm printed no warning
"""
from html.parser import HTMLParser

TABLE = '\x00TABLE'

def toks(s):
    return s.split()

def _p(code, place, detail):
    return {'code': code, 'place': place, 'detail': detail}

# ------------------------------------------------------------------ expectations from the document

def part_source(part):
    if part[0] == 't':
        return part[1]
    if part[0] == 'l':
        return '#LIST%s %s LIST#' % (part[1], ' '.join('{ %s }' % it for it in part[2]))
    flag, wrapcols, nhead, rows = part[1:]
    classes = 'default' + ''.join(',:w' if w else ',' for w in wrapcols)
    rtxt = ['{ %s }' % ' | '.join(('=h ' + c) if i < nhead else c for c in row) for i, row in enumerate(rows)]
    return '#TABLE(%s)%s %s TABLE#' % (classes, flag, ' '.join(rtxt))

def par_src_tokens(par):
    out = []
    for part in par:
        out += toks(part_source(part))
    return out

def par_flat_tokens(par):
    out = []
    for part in par:
        if part[0] == 't':
            out += toks(part[1])
        elif part[0] == 'l':
            for it in part[2]:
                out += toks(it)
        else:
            for row in part[4]:
                for c in row:
                    out += toks(c)
    return out

def par_asm_tokens(par, bullet='*'):
    """-> (tokens with a TABLE marker per table, [per-column token lists of each table])"""
    out, tables = [], []
    for part in par:
        if part[0] == 't':
            out += toks(part[1])
        elif part[0] == 'l':
            for it in part[2]:
                out += [bullet] + toks(it)
        else:
            rows = part[4]
            ncols = len(rows[0])
            tables.append([[t for row in rows for t in toks(row[c])] for c in range(ncols)])
            out.append(TABLE)
    return out, tables

def comment_par(g):
    return g.get('cpar') or [['t', g['comment']]]

def reg_field(reg):
    prefix, delims, name, text = reg
    return (prefix + ':' if prefix else '') + name

def first_diff(a, b):
    n = min(len(a), len(b))
    for i in range(n):
        if a[i] != b[i]:
            return 'token %d: expected %r, got %r (expected %d tokens, got %d)' % (i, a[i], b[i], len(a), len(b))
    if len(a) != len(b):
        if len(a) > n:
            return 'token %d: expected %r, output ends (expected %d tokens, got %d)' % (n, a[n], len(a), len(b))
        return 'token %d: unexpected extra %r (expected %d tokens, got %d)' % (n, b[n], len(a), len(b))
    return None

# ------------------------------------------------------------------ skool2asm output

def _asm_line_tokens(texts):
    """texts: comment texts of consecutive lines -> (tokens with TABLE markers, [per-column token lists], table line flags)"""
    out, tables, flags = [], [], []
    cur = None
    for t in texts:
        s = t.strip()
        if s.startswith(('+', '|')):
            flags.append(True)
            if cur is None:
                cur = {}
                tables.append(cur)
                out.append(TABLE)
            if s.startswith('|'):
                cells = s.split('|')[1:]
                if s.endswith('|'):
                    cells = cells[:-1]
                for c, cell in enumerate(cells):
                    cur.setdefault(c, []).extend(toks(cell))
                cur['n'] = max(cur.get('n', 0), len(cells))
        else:
            flags.append(False)
            cur = None
            out += toks(t)
    tabs = []
    for t in tables:
        tabs.append([t.get(c, []) for c in range(t.get('n', 0))])
    return out, tabs, flags

def _cmp_asm_par(problems, place, texts, par, stats=None):
    got, gtabs, flags = _asm_line_tokens(texts)
    exp, etabs = par_asm_tokens(par)
    d = first_diff(exp, got)
    if d:
        problems.append(_p('tokens', place, d))
        return flags
    for k, (et, gt) in enumerate(zip(etabs, gtabs)):
        if stats is not None:
            stats['tables'] += 1
        if len(et) != len(gt):
            problems.append(_p('tokens', place, 'table %d: expected %d columns, got %d' % (k, len(et), len(gt))))
            continue
        for c, (ec, gc) in enumerate(zip(et, gt)):
            d = first_diff(ec, gc)
            if d:
                problems.append(_p('tokens', place, 'table %d column %d: %s' % (k, c, d)))
    return flags

def _split_pars(lines):
    """lines: block comment lines (each starting with ';') -> list of paragraphs, each a list of (raw line, text)"""
    pars = [[]]
    for l in lines:
        if l.rstrip() == ';':
            pars.append([])
        else:
            pars[-1].append((l, l[1:]))
    return [p for p in pars if p]

def check_asm(doc, out, err, W, min_cw=10, want_warnings=True):
    problems = []
    stats = {'lines': 0, 'over': 0, 'over_justified': 0, 'words': 0, 'instrs': 0, 'places': 0, 'tables': 0, 'over_instr': 0, 'over_comment': 0}
    lines = [l[:-1] if l.endswith('\r') else l for l in out.split('\n')]
    blocks = [[]]
    for l in lines:
        if l == '':
            if blocks[-1]:
                blocks.append([])
        else:
            blocks[-1].append(l)
    blocks = [b for b in blocks if b]
    if len(blocks) != len(doc['entries']):
        problems.append(_p('structure', 'file', 'expected %d entries (blank-line separated blocks), got %d' % (len(doc['entries']), len(blocks))))
        return problems, stats
    errn = err.replace('\r\n', '\n')

    def width_comment(raw, text, place, allowed_words, is_table):
        # a block comment line
        stats['lines'] += 1
        if len(raw) <= W:
            return
        stats['over'] += 1
        stats['over_comment'] += 1
        if not is_table and len(toks(text)) > allowed_words:
            problems.append(_p('width', place, 'comment line of %d characters (line width %d) holds more than one word after its prefix: %r' % (len(raw), W, raw)))
            return
        stats['over_justified'] += 1
        if want_warnings:
            warned = (raw in errn) or (text.strip() and ('\n' + text.strip() + '\n') in errn) or (is_table and 'Table in entry at' in errn)
            if not warned:
                problems.append(_p('nowarn-c', place, 'comment line of %d characters (line width %d) and no warning: %r' % (len(raw), W, raw)))

    def do_pars(place, plines, pars):
        got = _split_pars(plines)
        if len(got) != len(pars):
            problems.append(_p('structure', place, 'expected %d paragraphs, got %d: %r' % (len(pars), len(got), [t for l, t in sum(got, [])][:6])))
            return
        for k, (g, par) in enumerate(zip(got, pars)):
            stats['places'] += 1
            flags = _cmp_asm_par(problems, '%s paragraph %d' % (place, k), [t for l, t in g], par, stats)
            has_list = any(p[0] == 'l' for p in par)
            for (raw, text), tf in zip(g, flags):
                tk = toks(text)
                allowed = 2 if (has_list and tk[:1] == ['*']) else 1
                width_comment(raw, text, '%s paragraph %d' % (place, k), allowed, tf)
            stats['words'] += len(par_flat_tokens(par))

    for ei, (e, b) in enumerate(zip(doc['entries'], blocks)):
        en = 'entry %d (%d)' % (ei, e['addr'])
        i = 0
        while i < len(b) and b[i].startswith(';'):
            i += 1
        header, body = b[:i], b[i:]
        hp = _split_pars(header)
        nexp = 1 + len(e['desc']) + (1 if e['regs'] else 0) + len(e['groups'][0]['mid'])
        if len(hp) != nexp:
            problems.append(_p('structure', en + ' header', 'expected %d paragraphs (title, %d description, %d register block, %d start comment), got %d'
                               % (nexp, len(e['desc']), 1 if e['regs'] else 0, len(e['groups'][0]['mid']), len(hp))))
        else:
            k = 0
            # title
            t = hp[0]
            d = first_diff(toks(e['title']), [x for l, tx in t for x in toks(tx)])
            stats['places'] += 1
            stats['words'] += len(toks(e['title']))
            if d:
                problems.append(_p('tokens', en + ' title', d))
            for raw, text in t:
                width_comment(raw, text, en + ' title', 1, False)
            k = 1
            for j, par in enumerate(e['desc']):
                do_pars(en + ' description %d' % j, [l for l, tx in hp[k]], [par])
                k += 1
            if e['regs']:
                rl = hp[k]
                k += 1
                exp = []
                bounds = []
                for reg in e['regs']:
                    f = toks(reg_field(reg))
                    bounds.append((len(exp), len(f)))
                    exp += f + toks(reg[3])
                got = [x for l, tx in rl for x in toks(tx)]
                d = first_diff(exp, got)
                stats['places'] += 1
                stats['words'] += len(exp)
                if d:
                    problems.append(_p('tokens', en + ' registers', d))
                else:
                    pos = 0
                    starts = {s: n for s, n in bounds}
                    for raw, text in rl:
                        n = len(toks(text))
                        allowed = 1 + starts.get(pos, 0) if pos in starts else 1
                        width_comment(raw, text, en + ' registers', allowed, False)
                        pos += n
            for j, par in enumerate(e['groups'][0]['mid']):
                do_pars(en + ' start comment %d' % j, [l for l, tx in hp[k]], [par])
                k += 1
        # body
        i = 0
        ok = True
        for gi, g in enumerate(e['groups']):
            gn = '%s group %d (%d)' % (en, gi, g['instrs'][0][0])
            j = i
            while j < len(body) and body[j].startswith(';'):
                j += 1
            if gi > 0:
                if j > i or g['mid']:
                    do_pars(gn + ' mid-block comment', body[i:j], g['mid'])
            elif j > i:
                problems.append(_p('structure', gn, 'comment lines between the entry header and the first instruction: %r' % body[i:j][:3]))
            i = j
            texts = []
            raws = []
            for (a, op, hx) in g['instrs']:
                if i >= len(body) or body[i].startswith(';'):
                    problems.append(_p('instr', gn, 'instruction %r at %d is not listed where expected (next line: %r)' % (op, a, body[i] if i < len(body) else None)))
                    ok = False
                    break
                s = body[i].lstrip()
                rest = s[len(op):]
                if not s.startswith(op) or (rest and not rest[0].isspace()):
                    problems.append(_p('instr', gn, 'expected operation %r at %d, got line %r' % (op, a, body[i])))
                    ok = False
                    break
                stats['instrs'] += 1
                r = rest.strip()
                if r and not r.startswith(';'):
                    problems.append(_p('instr', gn, 'expected operation %r at %d, got line %r' % (op, a, body[i])))
                    ok = False
                    break
                texts.append(r[1:] if r else '')
                raws.append(body[i])
                i += 1
                while i < len(body) and not body[i].startswith(';') and body[i].lstrip().startswith(';'):
                    texts.append(body[i].lstrip()[1:])
                    raws.append(body[i])
                    i += 1
            if not ok:
                break
            stats['places'] += 1
            par = comment_par(g)
            flags = _cmp_asm_par(problems, gn + ' instruction comment', texts, par, stats)
            stats['words'] += len(par_flat_tokens(par))
            has_list = any(p[0] == 'l' for p in par)
            for raw, text, tf in zip(raws, texts, flags):
                stats['lines'] += 1
                if len(raw) <= W:
                    continue
                stats['over'] += 1
                stats['over_instr'] += 1
                text = text.strip()
                tk = toks(text)
                prefix = len(raw) - len(text)
                allowed = 2 if (has_list and tk[:1] == ['*']) else 1
                justified = tf or len(tk) <= allowed or (prefix + min_cw > W and len(text) <= min_cw)
                if not justified:
                    problems.append(_p('width', gn, 'instruction line of %d characters (line width %d) holds more than one comment word: %r' % (len(raw), W, raw)))
                else:
                    stats['over_justified'] += 1
                if want_warnings and ('characters long:\n' + raw + '\n') not in errn:
                    problems.append(_p('nowarn-i', gn, 'instruction line of %d characters (line width %d) and no "Line is N characters long" warning: %r' % (len(raw), W, raw)))
        if not ok:
            continue
        rest = body[i:]
        if any(not l.startswith(';') for l in rest):
            problems.append(_p('instr', en, 'unexpected extra instruction/continuation lines after the last group: %r' % [l for l in rest if not l.startswith(';')][:3]))
        crest = [l for l in rest if l.startswith(';')]
        if crest or e['end']:
            do_pars(en + ' end comment', crest, e['end'])
    return problems, stats

# ------------------------------------------------------------------ skool file (the format sna2skool must write)

def split_op_comment(s):
    """'OP ; comment' -> (op, comment or None); a semicolon inside a quoted string does not start the comment."""
    q = False
    i = 0
    while i < len(s):
        c = s[i]
        if q:
            if c == '\\':
                i += 1
            elif c == '"':
                q = False
        elif c == '"':
            q = True
        elif c == ';':
            return s[:i].strip(), s[i + 1:].strip()
        i += 1
    return s.strip(), None

def _sections(lines):
    """Header comment lines (text after ';') -> up to four sections, separated by empty comment lines."""
    secs = [[]]
    last = ''
    for t in lines:
        s = t.strip()
        if s:
            secs[-1].append(s)
            last = s
        elif last and len(secs) < 4:
            secs.append([])
    return secs

def _paragraphs(lines):
    pars = [[]]
    for s in lines:
        s = s.strip()
        if s == '.':
            pars.append([])
        elif s:
            pars[-1].append(s)
    return [' '.join(p) for p in pars if p]

def parse_register_line(s):
    """-> (field as written, description); a field that starts with a non-alphanumeric character is delimited by that character
    (or its closing bracket)."""
    if s and not s[0].isalnum():
        close = {'(': ')', '[': ']', '{': '}'}.get(s[0], s[0])
        depth = 0
        for i, c in enumerate(s):
            if i == 0:
                depth = 1
                continue
            if close != s[0] and c == s[0]:
                depth += 1
            elif c == close:
                depth -= 1
                if depth == 0:
                    return s[:i + 1], s[i + 1:].strip()
    parts = s.split(None, 1)
    return parts[0], (parts[1] if len(parts) > 1 else '')

def parse_skool(text):
    """-> list of entries {'ctl','addr','title','desc':[par],'regs':[[field, desc]],'instrs':[{'addr','op','mid':[par],'lines':[...]|None}],'end':[par]}
    plus, per entry, 'raw': the list of (line, kind) for the width rule; kind in 'h' (header comment), 'r' (register line),
    'm' (mid-block/end comment), 'i' (instruction or continuation line), '@'."""
    entries = []
    blocks = [[]]
    for l in text.split('\n'):
        l = l.rstrip('\r')
        if l.strip() == '':
            if blocks[-1]:
                blocks.append([])
        else:
            blocks[-1].append(l)
    for b in blocks:
        if not b or not any(l[0] in 'bcgistuw' for l in b):
            continue
        e = {'instrs': [], 'end': [], 'raw': []}
        comments = []
        cur = None
        for l in b:
            if l.startswith('@'):
                e['raw'].append((l, '@'))
                continue
            if l.startswith(';'):
                comments.append(l[1:])
                e['raw'].append((l, 'c'))
                cur = None
                continue
            if l.lstrip().startswith(';'):
                e['raw'].append((l, 'i'))
                if cur is not None:
                    cur['lines'].append(l.lstrip()[1:].strip())
                continue
            e['raw'].append((l, 'i'))
            ctl, addr, rest = l[0], l[1:6], l[6:]
            op, com = split_op_comment(rest)
            cur = {'addr': addr.strip(), 'op': op, 'mid': [], 'lines': [com] if com is not None else []}
            if ctl in 'bcgistuw' and not e['instrs']:
                e['ctl'] = ctl
                secs = _sections(comments)
                e['title'] = ' '.join(secs[0])
                e['desc'] = _paragraphs(secs[1]) if len(secs) > 1 else []
                regs = []
                if len(secs) > 2:
                    for s in secs[2]:
                        if s == '.':
                            continue
                        if regs and s.startswith('.'):
                            regs[-1][1] = (regs[-1][1] + ' ' + s[1:].lstrip()).strip()
                        else:
                            regs.append(list(parse_register_line(s)))
                e['regs'] = regs
                cur['mid'] = _paragraphs(secs[3]) if len(secs) > 3 else []
                e['nsecs'] = len(secs)
            else:
                cur['mid'] = _paragraphs(comments)
            comments = []
            e['instrs'].append(cur)
        e['end'] = _paragraphs(comments)
        if e['instrs']:
            entries.append(e)
    return entries

def decode_group(instrs, i):
    """Instruction-comment group starting at instrs[i] by the documented brace rules -> (rowspan, rendered text)."""
    first = ' '.join(l for l in instrs[i]['lines'] if l)
    if not first.startswith('{'):
        return 1, first
    nest = first.count('{') - first.count('}')
    parts = [first]
    j = i
    while nest > 0 and j + 1 < len(instrs) and not instrs[j + 1]['mid']:
        j += 1
        t = ' '.join(l for l in instrs[j]['lines'] if l)
        parts.append(t)
        nest += t.count('{') - t.count('}')
    text = ' '.join(p for p in parts if p)
    text = text.lstrip('{').strip()
    text = text.rstrip('}').strip()
    return j - i + 1, text

def check_skool_out(doc, text, W, min_cw=10):
    problems = []
    stats = {'lines': 0, 'over': 0, 'over_justified': 0, 'words': 0, 'instrs': 0, 'places': 0, 'groups_multi': 0}
    ents = parse_skool(text)
    if len(ents) != len(doc['entries']):
        problems.append(_p('structure', 'file', 'expected %d entries, got %d' % (len(doc['entries']), len(ents))))
        return problems, stats

    def cmp(place, exp, got):
        stats['places'] += 1
        stats['words'] += len(exp)
        d = first_diff(exp, got)
        if d:
            problems.append(_p('tokens', place, d))

    for ei, (e, o) in enumerate(zip(doc['entries'], ents)):
        en = 'entry %d (%d)' % (ei, e['addr'])
        if o.get('ctl') != e['ctl']:
            problems.append(_p('structure', en, 'entry type %r, expected %r' % (o.get('ctl'), e['ctl'])))
        cmp(en + ' title', toks(e['title']), toks(o['title']))
        cmp(en + ' description', [t for par in e['desc'] for t in par_src_tokens(par)], [t for p in o['desc'] for t in toks(p)])
        if len(o['regs']) != len(e['regs']):
            problems.append(_p('structure', en + ' registers', 'expected %d registers, got %d: %r' % (len(e['regs']), len(o['regs']), o['regs'][:5])))
        else:
            for k, (reg, (field, desc)) in enumerate(zip(e['regs'], o['regs'])):
                prefix, delims, name, rtext = reg
                expf = delims[0] + reg_field(reg) + delims[1]
                if field != expf:
                    problems.append(_p('tokens', en + ' register %d' % k, 'register field %r, expected %r' % (field, expf)))
                cmp(en + ' register %d' % k, toks(rtext), toks(desc))
        flat = [(gi, g, ins) for gi, g in enumerate(e['groups']) for ins in g['instrs']]
        if len(flat) != len(o['instrs']):
            problems.append(_p('instr', en, 'expected %d instructions, got %d' % (len(flat), len(o['instrs']))))
            continue
        bad = False
        for (gi, g, (a, op, hx)), oi in zip(flat, o['instrs']):
            stats['instrs'] += 1
            if oi['addr'] != str(a) or oi['op'] != op:
                problems.append(_p('instr', en, 'expected %d %r, got %r %r' % (a, op, oi['addr'], oi['op'])))
                bad = True
        if bad:
            continue
        k = 0
        for gi, g in enumerate(e['groups']):
            gn = '%s group %d (%d)' % (en, gi, g['instrs'][0][0])
            oi = o['instrs'][k]
            cmp(gn + ' mid-block comment', [t for par in g['mid'] for t in par_src_tokens(par)], [t for p in oi['mid'] for t in toks(p)])
            for x in range(1, len(g['instrs'])):
                if o['instrs'][k + x]['mid']:
                    problems.append(_p('tokens', gn, 'unexpected mid-block comment inside the group: %r' % o['instrs'][k + x]['mid'][:2]))
            rowspan, ctext = decode_group(o['instrs'], k)
            n = len(g['instrs'])
            exp = toks(g['comment'])
            if n > 1:
                stats['groups_multi'] += 1
            if rowspan != n and (exp or rowspan != 1):
                problems.append(_p('tokens', gn + ' instruction comment', 'comment spans %d instructions, expected %d; text %r' % (rowspan, n, ctext[:200])))
            elif exp or rowspan != 1:
                cmp(gn + ' instruction comment', exp, toks(ctext))
            else:
                for x in range(n):
                    cmp(gn + ' instruction comment', [], toks(' '.join(o['instrs'][k + x]['lines'])))
            k += n
        cmp(en + ' end comment', [t for par in e['end'] for t in par_src_tokens(par)], [t for p in o['end'] for t in toks(p)])

        # ---- width rule
        nowrap = False
        inblock = None
        for raw, kind in o['raw']:
            stats['lines'] += 1
            if kind == 'c':
                s = raw[1:].strip()
                # lines of a #LIST/#TABLE block written with <nowrap> are copied, not wrapped
                if inblock is None and s.startswith(('#LIST', '#TABLE')):
                    inblock = 'LIST#' if s.startswith('#LIST') else 'TABLE#'
                    nowrap = '<nowrap>' in s.split(' ')[0] or '<nowrap>' in s
            if len(raw) > W and kind != '@':
                stats['over'] += 1
                if kind == 'c':
                    tk = toks(raw[1:])
                    ok = len(tk) <= 1 or (inblock and nowrap) or (len(tk) == 2 and tk[0] == '.')
                    if not ok and o['regs']:
                        # first line of a register: the field (which may hold spaces) plus one word
                        for (field, desc) in o['regs']:
                            if raw[1:].strip().startswith(field) and len(toks(raw[1:].strip()[len(field):])) <= 1:
                                ok = True
                    if not ok:
                        problems.append(_p('width', en, 'comment line of %d characters (line width %d) holds more than one word: %r' % (len(raw), W, raw)))
                    else:
                        stats['over_justified'] += 1
                else:
                    if raw.lstrip().startswith(';'):
                        ctext = raw.lstrip()[1:].strip()
                    else:
                        ctext = split_op_comment(raw[6:])[1] or ''
                    prefix = len(raw) - len(ctext)
                    ok = len(toks(ctext)) <= 1 or (prefix + min_cw > W and len(ctext) <= min_cw)
                    if not ok:
                        problems.append(_p('width', en, 'instruction line of %d characters (line width %d) holds more than one comment word: %r' % (len(raw), W, raw)))
                    else:
                        stats['over_justified'] += 1
            if kind == 'c' and inblock and raw[1:].strip().endswith(inblock):
                inblock = None
                nowrap = False
    return problems, stats

# ------------------------------------------------------------------ skool2html entry page

VOID = {'meta', 'link', 'br', 'img', 'input', 'hr'}
BLOCKS = {'li', 'td', 'th', 'tr', 'ul', 'table', 'div', 'p', 'ol'}

class Node:
    __slots__ = ('tag', 'attrs', 'kids', 'parent')
    def __init__(self, tag, attrs, parent):
        self.tag, self.attrs, self.kids, self.parent = tag, dict(attrs), [], parent

    def cls(self):
        return self.attrs.get('class') or ''

    def text(self):
        out = []
        for k in self.kids:
            if isinstance(k, str):
                out.append(k)
            else:
                if k.tag in BLOCKS:
                    out.append(' ')
                out.append(k.text())
                if k.tag in BLOCKS:
                    out.append(' ')
        return ''.join(out)

    def find(self, tag, cls=None, deep=True):
        res = []
        for k in self.kids:
            if isinstance(k, str):
                continue
            if k.tag == tag and (cls is None or k.cls() == cls or (cls.endswith('*') and k.cls().startswith(cls[:-1]))):
                res.append(k)
            elif deep:
                res += k.find(tag, cls, True)
        return res

class _Tree(HTMLParser):
    def __init__(self):
        super().__init__(convert_charrefs=True)
        self.root = Node('root', [], None)
        self.cur = self.root

    def handle_starttag(self, tag, attrs):
        n = Node(tag, attrs, self.cur)
        self.cur.kids.append(n)
        if tag not in VOID:
            self.cur = n

    def handle_startendtag(self, tag, attrs):
        self.cur.kids.append(Node(tag, attrs, self.cur))

    def handle_endtag(self, tag):
        n = self.cur
        while n is not None and n.tag != tag:
            n = n.parent
        if n is not None and n.parent is not None:
            self.cur = n.parent

    def handle_data(self, data):
        self.cur.kids.append(data)

def check_html_single_page(entries, page):
    """The one page skool2html -1 writes: the same elements per entry, one entry after the other, in the order of the file."""
    problems = []
    stats = {'words': 0, 'instrs': 0, 'places': 0}
    t = _Tree()
    t.feed(page)
    t.close()
    descs = t.root.find('div', 'description')
    tabs = t.root.find('table', 'disassembly')
    if len(descs) != len(entries) or len(tabs) != len(entries):
        return [_p('structure', 'single page', 'expected %d title elements and disassembly tables, got %d and %d' % (len(entries), len(descs), len(tabs)))], stats
    for e, d, tb in zip(entries, descs, tabs):
        root = Node('root', [], None)
        root.kids = [d, tb]
        ps, st = check_html_entry(e, None, root)
        problems += ps
        for k in stats:
            stats[k] += st[k]
    return problems, stats

def check_html_entry(e, page, root=None):
    """e: document entry; page: text of the entry's HTML page (or root: the elements of the entry)."""
    problems = []
    stats = {'words': 0, 'instrs': 0, 'places': 0}
    en = 'entry %d' % e['addr']
    if root is None:
        t = _Tree()
        t.feed(page)
        t.close()
        root = t.root

    def cmp(place, exp, got):
        stats['places'] += 1
        stats['words'] += len(exp)
        d = first_diff(exp, got)
        if d:
            problems.append(_p('tokens', place, d))

    descs = root.find('div', 'description')
    if len(descs) != 1:
        problems.append(_p('structure', en, 'expected one title element, got %d' % len(descs)))
        return problems, stats
    cmp(en + ' title', ['%d:' % e['addr']] + toks(e['title']), toks(descs[0].text()))
    tabs = root.find('table', 'disassembly')
    if len(tabs) != 1:
        problems.append(_p('structure', en, 'expected one disassembly table, got %d' % len(tabs)))
        return problems, stats
    rows = tabs[0].find('tr', None, deep=False)
    if not rows:
        problems.append(_p('structure', en, 'no rows'))
        return problems, stats
    head = rows[0]
    det = head.find('div', 'details')
    pars = det[0].find('div', 'paragraph', deep=False) if det else []
    if len(pars) != len(e['desc']):
        problems.append(_p('structure', en + ' description', 'expected %d paragraphs, got %d' % (len(e['desc']), len(pars))))
    else:
        for k, (par, node) in enumerate(zip(e['desc'], pars)):
            cmp('%s description %d' % (en, k), par_flat_tokens(par), toks(node.text()))
    # registers: a prefix that starts with O/o selects the output table, any other prefix the input table, none keeps the previous
    exp_in, exp_out = [], []
    mode = 'I'
    for prefix, delims, name, rtext in e['regs']:
        if prefix:
            mode = prefix.upper()[0]
        (exp_out if mode == 'O' else exp_in).append((name, rtext))
    for cls, exp in (('input', exp_in), ('output', exp_out)):
        tt = head.find('table', cls)
        got = []
        for tb in tt:
            for tr in tb.find('tr', None, deep=False):
                r = tr.find('td', 'register', deep=False)
                d = tr.find('td', 'register-desc', deep=False)
                if r and d:
                    got.append((r[0].text(), d[0].text()))
        if len(got) != len(exp):
            problems.append(_p('structure', '%s %s registers' % (en, cls), 'expected %d registers, got %d' % (len(exp), len(got))))
            continue
        for k, ((name, rtext), (gn, gd)) in enumerate(zip(exp, got)):
            cmp('%s %s register %d name' % (en, cls, k), toks(name), toks(gn))
            cmp('%s %s register %d' % (en, cls, k), toks(rtext), toks(gd))
    # body rows
    body = rows[1:]
    i = 0

    def comment_row(place, exp_pars):
        nonlocal i
        is_c = i < len(body) and body[i].find('td', 'routine-comment', deep=False)
        if not exp_pars:
            return
        if not is_c:
            problems.append(_p('structure', place, 'expected a comment row with %d paragraphs, found none' % len(exp_pars)))
            return
        pp = body[i].find('div', 'paragraph')
        # paragraphs of nested tables/lists are not div.paragraph, so a plain deep search is right
        i += 1
        if len(pp) != len(exp_pars):
            problems.append(_p('structure', place, 'expected %d paragraphs, got %d' % (len(exp_pars), len(pp))))
            return
        for k, (par, node) in enumerate(zip(exp_pars, pp)):
            cmp('%s paragraph %d' % (place, k), par_flat_tokens(par), toks(node.text()))

    for gi, g in enumerate(e['groups']):
        gn = '%s group %d (%d)' % (en, gi, g['instrs'][0][0])
        comment_row(gn + ' mid-block comment', g['mid'])
        n = len(g['instrs'])
        for x, (a, op, hx) in enumerate(g['instrs']):
            if i >= len(body):
                problems.append(_p('instr', gn, 'instruction %d %r is not listed' % (a, op)))
                return problems, stats
            row = body[i]
            if row.find('td', 'routine-comment', deep=False):
                problems.append(_p('structure', gn, 'unexpected comment row before %d: %r' % (a, row.text()[:100])))
                return problems, stats
            i += 1
            ad = row.find('td', 'address-*', deep=False)
            ins = row.find('td', 'instruction', deep=False)
            com = row.find('td', 'comment-*', deep=False)
            stats['instrs'] += 1
            if len(ad) != 1 or len(ins) != 1 or ad[0].text().strip() != str(a) or ins[0].text() != op:
                problems.append(_p('instr', gn, 'expected %d %r, got %r %r' % (a, op, [c.text() for c in ad], [c.text() for c in ins])))
                return problems, stats
            if x == 0:
                if len(com) != 1:
                    problems.append(_p('structure', gn, 'expected one comment cell on the first instruction of the group, got %d' % len(com)))
                    continue
                rs = com[0].attrs.get('rowspan')
                if rs != str(n):
                    problems.append(_p('tokens', gn + ' instruction comment', 'comment cell spans %s rows, expected %d' % (rs, n)))
                cmp(gn + ' instruction comment', par_flat_tokens(comment_par(g)), toks(com[0].text()))
            elif com:
                problems.append(_p('tokens', gn + ' instruction comment', 'extra comment cell on instruction %d of the group: %r' % (x, com[0].text()[:100])))
    comment_row(en + ' end comment', e['end'])
    if i < len(body):
        problems.append(_p('structure', en, '%d unexpected rows after the last expected one: %r' % (len(body) - i, body[i].text()[:120])))
    return problems, stats
