"""Reference Z80 interpreter written from the instruction-set description (Zilog manual + the 'undocumented Z80'
notes for IXh/IXl, SLL, DDCB register copies, ED duplicates) and the Spectrum contention FAQ for the order of
machine cycles. No lookup tables: every result and flag is computed arithmetically. Does not import skoolkit.

step(regs, rd, port_in) executes ONE instruction (one iteration of a repeating block instruction, one 4-T
HALT cycle, a lone DD/FD prefix counts as its own instruction - the convention of the code under test) and returns
Result(regs, writes, ports, cycles, T).

Register file layout (30 slots): A F B C D E H L IXh IXl IYh IYl SP - I R A' F' B' C' D' E' H' L' PC T IFF IM HALT MEMPTR
"""

A, F, B, C, D, E, H, L, IXH, IXL, IYH, IYL, SP, _SP2, I, R = range(16)
PC, T, IFF, IM, HALT, MEMPTR = 24, 25, 26, 27, 28, 29

SF, ZF, YF, HF, XF, PF, NF, CF = 0x80, 0x40, 0x20, 0x10, 0x08, 0x04, 0x02, 0x01

def parity(v):
    v &= 0xFF
    v ^= v >> 4
    v ^= v >> 2
    v ^= v >> 1
    return 0 if v & 1 else PF

def sz(v):
    return (v & SF) | (0 if v & 0xFF else ZF)

def s8(v):
    return v - 256 if v & 0x80 else v

class Result:
    __slots__ = ('regs', 'writes', 'ports', 'cycles', 'T', 'repeat', 'name')

class CPU:
    def __init__(self, regs, rd, port_in, frame=69888, int_active=32):
        self.r = list(regs)
        self._rd = rd
        self.port_in = port_in
        self.frame = frame
        self.int_active = int_active
        self.writes = []
        self.wmap = {}
        self.ports = []
        self.cycles = []
        self.repeat = False
        self.name = ''

    # ---- bus
    def peek(self, a):
        a &= 0xFFFF
        if a in self.wmap:
            return self.wmap[a]
        return self._rd(a)

    def m1(self, a):
        self.cycles.append(('m', a & 0xFFFF, 4))
        r = self.r[R]
        self.r[R] = (r & 0x80) | ((r + 1) & 0x7F)
        return self.peek(a)

    def read(self, a):
        self.cycles.append(('m', a & 0xFFFF, 3))
        return self.peek(a)

    def write(self, a, v):
        a &= 0xFFFF
        self.cycles.append(('m', a, 3))
        if a >= 0x4000:                      # ROM is read-only
            self.writes.append((a, v & 0xFF))
            self.wmap[a] = v & 0xFF

    def internal(self, a, n):
        for _ in range(n):
            self.cycles.append(('m', a & 0xFFFF, 1))

    def ir(self):
        return (self.r[I] << 8) | self.r[R]

    def ir_internal(self, n):
        # the address on the bus during these internal cycles is I:R (R after the M1 increments)
        self.internal(self.ir(), n)

    def inp(self, port):
        port &= 0xFFFF
        self.cycles.append(('io', port, 4))
        v = self.port_in(port) & 0xFF
        self.ports.append(('in', port, v))
        return v

    def outp(self, port, v):
        port &= 0xFFFF
        self.cycles.append(('io', port, 4))
        self.ports.append(('out', port, v & 0xFF))

    # ---- register helpers
    def rp(self, hi):
        return (self.r[hi] << 8) | self.r[hi + 1]

    def set_rp(self, hi, v):
        self.r[hi] = (v >> 8) & 0xFF
        self.r[hi + 1] = v & 0xFF

    def bc(self): return self.rp(B)
    def de(self): return self.rp(D)
    def hl(self): return self.rp(H)

    def push(self, v):
        sp = (self.r[SP] - 1) & 0xFFFF
        self.write(sp, v >> 8)
        sp = (sp - 1) & 0xFFFF
        self.write(sp, v & 0xFF)
        self.r[SP] = sp

    def pop(self):
        sp = self.r[SP]
        lo = self.read(sp)
        hi = self.read(sp + 1)
        self.r[SP] = (sp + 2) & 0xFFFF
        return lo | (hi << 8)

    # ---- 8-bit ALU (flags from arithmetic)
    def add8(self, b, carry=0):
        a = self.r[A]
        res = a + b + carry
        f = sz(res & 0xFF) | (res & (YF | XF))
        if (a & 0xF) + (b & 0xF) + carry > 0xF:
            f |= HF
        if (~(a ^ b) & (a ^ res)) & 0x80:
            f |= PF
        if res > 0xFF:
            f |= CF
        self.r[A] = res & 0xFF
        self.r[F] = f

    def sub8(self, b, carry=0, store=True):
        a = self.r[A]
        res = a - b - carry
        r8 = res & 0xFF
        f = sz(r8) | NF
        if (a & 0xF) - (b & 0xF) - carry < 0:
            f |= HF
        if ((a ^ b) & (a ^ r8)) & 0x80:
            f |= PF
        if res < 0:
            f |= CF
        if store:
            f |= r8 & (YF | XF)
            self.r[A] = r8
        else:
            f |= b & (YF | XF)           # CP: undocumented bits come from the operand
        self.r[F] = f

    def logic(self, op, b):
        a = self.r[A]
        if op == 4:
            res = a & b
            f = HF
        elif op == 5:
            res = a ^ b
            f = 0
        else:
            res = a | b
            f = 0
        self.r[A] = res
        self.r[F] = f | sz(res) | parity(res) | (res & (YF | XF))

    def alu(self, op, b):
        c = self.r[F] & CF
        if op == 0: self.add8(b)
        elif op == 1: self.add8(b, c)
        elif op == 2: self.sub8(b)
        elif op == 3: self.sub8(b, c)
        elif op == 7: self.sub8(b, 0, False)
        else: self.logic(op, b)

    def inc8(self, v):
        res = (v + 1) & 0xFF
        f = (self.r[F] & CF) | sz(res) | (res & (YF | XF))
        if (v & 0xF) == 0xF:
            f |= HF
        if v == 0x7F:
            f |= PF
        self.r[F] = f
        return res

    def dec8(self, v):
        res = (v - 1) & 0xFF
        f = (self.r[F] & CF) | sz(res) | (res & (YF | XF)) | NF
        if (v & 0xF) == 0:
            f |= HF
        if v == 0x80:
            f |= PF
        self.r[F] = f
        return res

    def rot(self, op, v):
        c = self.r[F] & CF
        if op == 0:   # RLC
            co = v >> 7
            res = ((v << 1) | co) & 0xFF
        elif op == 1: # RRC
            co = v & 1
            res = (v >> 1) | (co << 7)
        elif op == 2: # RL
            co = v >> 7
            res = ((v << 1) | c) & 0xFF
        elif op == 3: # RR
            co = v & 1
            res = (v >> 1) | (c << 7)
        elif op == 4: # SLA
            co = v >> 7
            res = (v << 1) & 0xFF
        elif op == 5: # SRA
            co = v & 1
            res = (v >> 1) | (v & 0x80)
        elif op == 6: # SLL (undocumented): shifts 1 into bit 0
            co = v >> 7
            res = ((v << 1) | 1) & 0xFF
        else:         # SRL
            co = v & 1
            res = v >> 1
        self.r[F] = sz(res) | parity(res) | (res & (YF | XF)) | co
        return res

    def add16(self, a, b):
        res = a + b
        f = self.r[F] & (SF | ZF | PF)
        if (a & 0xFFF) + (b & 0xFFF) > 0xFFF:
            f |= HF
        if res > 0xFFFF:
            f |= CF
        f |= (res >> 8) & (YF | XF)
        self.r[F] = f
        return res & 0xFFFF

    def adc16(self, a, b):
        c = self.r[F] & CF
        res = a + b + c
        r16 = res & 0xFFFF
        f = ((r16 >> 8) & (SF | YF | XF)) | (0 if r16 else ZF)
        if (a & 0xFFF) + (b & 0xFFF) + c > 0xFFF:
            f |= HF
        if (~(a ^ b) & (a ^ r16)) & 0x8000:
            f |= PF
        if res > 0xFFFF:
            f |= CF
        self.r[F] = f
        return r16

    def sbc16(self, a, b):
        c = self.r[F] & CF
        res = a - b - c
        r16 = res & 0xFFFF
        f = ((r16 >> 8) & (SF | YF | XF)) | (0 if r16 else ZF) | NF
        if (a & 0xFFF) - (b & 0xFFF) - c < 0:
            f |= HF
        if ((a ^ b) & (a ^ r16)) & 0x8000:
            f |= PF
        if res < 0:
            f |= CF
        self.r[F] = f
        return r16

    def cond(self, y):
        f = self.r[F]
        return [not f & ZF, f & ZF, not f & CF, f & CF, not f & PF, f & PF, not f & SF, f & SF][y] and True or False

    # ---- decode / execute
    def step(self):
        r = self.r
        pc = r[PC]
        if r[HALT] and self.peek(pc) == 0x76:
            # a halted CPU keeps fetching (and discarding) the byte after the HALT: the address on the bus is PC+1
            self.m1(pc + 1)
            self.name = 'HALT'
            op = None
        else:
            op = self.m1(pc)
        if op is None:
            pass
        elif op == 0xCB:
            self.exec_cb(pc)
        elif op == 0xED:
            self.exec_ed(pc)
        elif op in (0xDD, 0xFD):
            self.exec_index(pc, op)
        else:
            self.exec_main(pc, op, None)
        res = Result()
        t = 0
        for c in self.cycles:
            t += c[2]
        r[T] += t
        res.regs = r
        res.writes = self.writes
        res.ports = self.ports
        res.cycles = self.cycles
        res.T = t
        res.repeat = self.repeat
        res.name = self.name
        return res

    # register access by 3-bit code; ix = None or IXH / IYH base index
    def get_r(self, code, ix=None):
        if code == 7:
            return self.r[A]
        if ix is not None and code in (4, 5):
            return self.r[ix + code - 4]
        return self.r[B + code] if code < 6 else None

    def set_r(self, code, v, ix=None):
        v &= 0xFF
        if code == 7:
            self.r[A] = v
        elif ix is not None and code in (4, 5):
            self.r[ix + code - 4] = v
        else:
            self.r[B + code] = v

    def hl_idx(self, ix):
        return H if ix is None else ix

    def exec_main(self, pc, op, ix):
        """ix: None, or index of IXh/IYh when a DD/FD prefix precedes (pc is the address of the prefix)."""
        r = self.r
        o = pc + (1 if ix is not None else 0)       # address of the opcode byte
        x, y, z = op >> 6, (op >> 3) & 7, op & 7
        p, q = y >> 1, y & 1
        hlx = self.hl_idx(ix)
        nxt = o + 1

        def disp_addr(internal_n=5):
            d = self.read(o + 1)
            self.internal(o + 1, internal_n)
            a = (self.rp(ix) + s8(d)) & 0xFFFF
            r[MEMPTR] = a
            return a

        if x == 1:
            if op == 0x76:                                   # HALT
                self.name = 'HALT'
                r[HALT] = 1
                r[PC] = pc & 0xFFFF
                return
            if z == 6:                                       # LD r,(HL) / (IX+d)
                if ix is None:
                    v = self.read(self.hl())
                    r[PC] = (o + 1) & 0xFFFF
                else:
                    v = self.read(disp_addr())
                    r[PC] = (o + 2) & 0xFFFF
                self.set_r(y, v)                             # H/L are the real ones with (IX+d)
                return
            if y == 6:                                       # LD (HL),r
                if ix is None:
                    self.write(self.hl(), self.get_r(z))
                    r[PC] = (o + 1) & 0xFFFF
                else:
                    a = disp_addr()
                    self.write(a, self.get_r(z))
                    r[PC] = (o + 2) & 0xFFFF
                return
            self.set_r(y, self.get_r(z, ix), ix)
            r[PC] = nxt & 0xFFFF
            return
        if x == 2:
            if z == 6:
                if ix is None:
                    v = self.read(self.hl())
                    r[PC] = (o + 1) & 0xFFFF
                else:
                    v = self.read(disp_addr())
                    r[PC] = (o + 2) & 0xFFFF
            else:
                v = self.get_r(z, ix)
                r[PC] = nxt & 0xFFFF
            self.alu(y, v)
            return
        if x == 0:
            if z == 0:
                if y == 0:                                   # NOP
                    r[PC] = nxt & 0xFFFF
                elif y == 1:                                 # EX AF,AF'
                    r[A], r[16] = r[16], r[A]
                    r[F], r[17] = r[17], r[F]
                    r[PC] = nxt & 0xFFFF
                elif y == 2:                                 # DJNZ
                    self.ir_internal(1)
                    d = self.read(o + 1)
                    r[B] = (r[B] - 1) & 0xFF
                    if r[B]:
                        self.internal(o + 1, 5)
                        r[PC] = (o + 2 + s8(d)) & 0xFFFF
                        r[MEMPTR] = r[PC]
                    else:
                        r[PC] = (o + 2) & 0xFFFF
                elif y == 3:                                 # JR
                    d = self.read(o + 1)
                    self.internal(o + 1, 5)
                    r[PC] = (o + 2 + s8(d)) & 0xFFFF
                    r[MEMPTR] = r[PC]
                else:                                        # JR cc
                    d = self.read(o + 1)
                    if self.cond(y - 4):
                        self.internal(o + 1, 5)
                        r[PC] = (o + 2 + s8(d)) & 0xFFFF
                        r[MEMPTR] = r[PC]
                    else:
                        r[PC] = (o + 2) & 0xFFFF
                return
            if z == 1:
                if q == 0:                                   # LD rp,nn
                    lo = self.read(o + 1)
                    hi = self.read(o + 2)
                    v = lo | (hi << 8)
                    if p == 3:
                        r[SP] = v
                    else:
                        self.set_rp(hlx if p == 2 else B + 2 * p, v)
                    r[PC] = (o + 3) & 0xFFFF
                else:                                        # ADD HL,rp
                    self.ir_internal(7)
                    a = self.rp(hlx)
                    b = r[SP] if p == 3 else self.rp(hlx if p == 2 else B + 2 * p)
                    r[MEMPTR] = (a + 1) & 0xFFFF
                    self.set_rp(hlx, self.add16(a, b))
                    r[PC] = nxt & 0xFFFF
                return
            if z == 2:
                if p < 2:
                    a = self.bc() if p == 0 else self.de()
                    if q == 0:                               # LD (BC)/(DE),A
                        self.write(a, r[A])
                        r[MEMPTR] = ((a + 1) & 0xFF) | (r[A] << 8)
                    else:
                        r[A] = self.read(a)
                        r[MEMPTR] = (a + 1) & 0xFFFF
                    r[PC] = nxt & 0xFFFF
                    return
                lo = self.read(o + 1)
                hi = self.read(o + 2)
                a = lo | (hi << 8)
                if p == 2:
                    if q == 0:                               # LD (nn),HL
                        self.write(a, r[hlx + 1])
                        self.write(a + 1, r[hlx])
                    else:
                        l_ = self.read(a)
                        h_ = self.read(a + 1)
                        r[hlx + 1], r[hlx] = l_, h_
                    r[MEMPTR] = (a + 1) & 0xFFFF
                else:
                    if q == 0:                               # LD (nn),A
                        self.write(a, r[A])
                        r[MEMPTR] = ((a + 1) & 0xFF) | (r[A] << 8)
                    else:
                        r[A] = self.read(a)
                        r[MEMPTR] = (a + 1) & 0xFFFF
                r[PC] = (o + 3) & 0xFFFF
                return
            if z == 3:                                       # INC/DEC rp
                self.ir_internal(2)
                dlt = 1 if q == 0 else -1
                if p == 3:
                    r[SP] = (r[SP] + dlt) & 0xFFFF
                else:
                    hi = hlx if p == 2 else B + 2 * p
                    self.set_rp(hi, (self.rp(hi) + dlt) & 0xFFFF)
                r[PC] = nxt & 0xFFFF
                return
            if z in (4, 5):                                  # INC/DEC r
                fn = self.inc8 if z == 4 else self.dec8
                if y == 6:
                    if ix is None:
                        a = self.hl()
                        r[PC] = (o + 1) & 0xFFFF
                    else:
                        a = disp_addr()
                        r[PC] = (o + 2) & 0xFFFF
                    v = self.read(a)
                    self.internal(a, 1)
                    self.write(a, fn(v))
                else:
                    self.set_r(y, fn(self.get_r(y, ix)), ix)
                    r[PC] = nxt & 0xFFFF
                return
            if z == 6:                                       # LD r,n
                if y == 6:
                    if ix is None:
                        n = self.read(o + 1)
                        self.write(self.hl(), n)
                        r[PC] = (o + 2) & 0xFFFF
                    else:
                        d = self.read(o + 1)
                        n = self.read(o + 2)
                        self.internal(o + 2, 2)
                        a = (self.rp(ix) + s8(d)) & 0xFFFF
                        r[MEMPTR] = a
                        self.write(a, n)
                        r[PC] = (o + 3) & 0xFFFF
                else:
                    n = self.read(o + 1)
                    self.set_r(y, n, ix)
                    r[PC] = (o + 2) & 0xFFFF
                return
            # z == 7
            a = r[A]
            f = r[F]
            if y == 0:      # RLCA
                c = a >> 7
                a = ((a << 1) | c) & 0xFF
                r[F] = (f & (SF | ZF | PF)) | c | (a & (YF | XF))
            elif y == 1:    # RRCA
                c = a & 1
                a = (a >> 1) | (c << 7)
                r[F] = (f & (SF | ZF | PF)) | c | (a & (YF | XF))
            elif y == 2:    # RLA
                c = a >> 7
                a = ((a << 1) | (f & CF)) & 0xFF
                r[F] = (f & (SF | ZF | PF)) | c | (a & (YF | XF))
            elif y == 3:    # RRA
                c = a & 1
                a = (a >> 1) | ((f & CF) << 7)
                r[F] = (f & (SF | ZF | PF)) | c | (a & (YF | XF))
            elif y == 4:    # DAA
                lo = a & 0xF
                adj = 0
                c = f & CF
                if (f & HF) or lo > 9:
                    adj |= 0x06
                if c or a > 0x99:
                    adj |= 0x60
                    c = CF
                if f & NF:
                    h = HF if (f & HF) and lo < 6 else 0
                    a = (a - adj) & 0xFF
                else:
                    h = HF if lo > 9 else 0
                    a = (a + adj) & 0xFF
                r[F] = sz(a) | parity(a) | (a & (YF | XF)) | (f & NF) | c | h
            elif y == 5:    # CPL
                a ^= 0xFF
                r[F] = (f & (SF | ZF | PF | CF)) | HF | NF | (a & (YF | XF))
            elif y == 6:    # SCF
                r[F] = (f & (SF | ZF | PF)) | CF | (a & (YF | XF))
            else:           # CCF
                r[F] = (f & (SF | ZF | PF)) | (HF if f & CF else 0) | ((f & CF) ^ CF) | (a & (YF | XF))
            r[A] = a
            r[PC] = nxt & 0xFFFF
            return
        # x == 3
        if z == 0:                                           # RET cc
            self.ir_internal(1)
            if self.cond(y):
                r[PC] = self.pop()
                r[MEMPTR] = r[PC]
            else:
                r[PC] = nxt & 0xFFFF
            return
        if z == 1:
            if q == 0:                                       # POP
                v = self.pop()
                if p == 3:
                    r[A], r[F] = v >> 8, v & 0xFF
                else:
                    self.set_rp(hlx if p == 2 else B + 2 * p, v)
                r[PC] = nxt & 0xFFFF
            elif p == 0:                                     # RET
                r[PC] = self.pop()
                r[MEMPTR] = r[PC]
            elif p == 1:                                     # EXX
                for k in (B, C, D, E, H, L):
                    r[k], r[k + 16] = r[k + 16], r[k]
                r[PC] = nxt & 0xFFFF
            elif p == 2:                                     # JP (HL)
                r[PC] = self.rp(hlx)
            else:                                            # LD SP,HL
                self.ir_internal(2)
                r[SP] = self.rp(hlx)
                r[PC] = nxt & 0xFFFF
            return
        if z == 2:                                           # JP cc,nn
            lo = self.read(o + 1)
            hi = self.read(o + 2)
            a = lo | (hi << 8)
            r[MEMPTR] = a
            r[PC] = a if self.cond(y) else (o + 3) & 0xFFFF
            return
        if z == 3:
            if y == 0:                                       # JP nn
                lo = self.read(o + 1)
                hi = self.read(o + 2)
                r[PC] = r[MEMPTR] = lo | (hi << 8)
            elif y == 2:                                     # OUT (n),A
                n = self.read(o + 1)
                self.outp(n | (r[A] << 8), r[A])
                r[MEMPTR] = ((n + 1) & 0xFF) | (r[A] << 8)
                r[PC] = (o + 2) & 0xFFFF
            elif y == 3:                                     # IN A,(n)
                n = self.read(o + 1)
                port = n | (r[A] << 8)
                r[MEMPTR] = (port + 1) & 0xFFFF
                r[A] = self.inp(port)
                r[PC] = (o + 2) & 0xFFFF
            elif y == 4:                                     # EX (SP),HL
                sp = r[SP]
                lo = self.read(sp)
                hi = self.read(sp + 1)
                self.internal(sp + 1, 1)
                self.write(sp + 1, r[hlx])
                self.write(sp, r[hlx + 1])
                self.internal(sp, 2)
                r[hlx], r[hlx + 1] = hi, lo
                r[MEMPTR] = lo | (hi << 8)
                r[PC] = nxt & 0xFFFF
            elif y == 5:                                     # EX DE,HL (never affected by a prefix)
                r[D], r[H] = r[H], r[D]
                r[E], r[L] = r[L], r[E]
                r[PC] = nxt & 0xFFFF
            elif y == 6:                                     # DI
                r[IFF] = 0
                r[PC] = nxt & 0xFFFF
            elif y == 7:                                     # EI
                r[IFF] = 1
                r[PC] = nxt & 0xFFFF
            return
        if z == 4:                                           # CALL cc,nn
            lo = self.read(o + 1)
            hi = self.read(o + 2)
            a = lo | (hi << 8)
            r[MEMPTR] = a
            if self.cond(y):
                self.internal(o + 2, 1)
                self.push((o + 3) & 0xFFFF)
                r[PC] = a
            else:
                r[PC] = (o + 3) & 0xFFFF
            return
        if z == 5:
            if q == 0:                                       # PUSH
                self.ir_internal(1)
                if p == 3:
                    v = (r[A] << 8) | r[F]
                else:
                    v = self.rp(hlx if p == 2 else B + 2 * p)
                self.push(v)
                r[PC] = nxt & 0xFFFF
            else:                                            # CALL nn (p == 0; DD/ED/FD handled elsewhere)
                lo = self.read(o + 1)
                hi = self.read(o + 2)
                a = lo | (hi << 8)
                self.internal(o + 2, 1)
                self.push((o + 3) & 0xFFFF)
                r[PC] = r[MEMPTR] = a
            return
        if z == 6:                                           # ALU n
            n = self.read(o + 1)
            self.alu(y, n)
            r[PC] = (o + 2) & 0xFFFF
            return
        # RST
        self.ir_internal(1)
        self.push(nxt & 0xFFFF)
        r[PC] = r[MEMPTR] = y * 8

    INDEXABLE = None

    def exec_index(self, pc, prefix):
        r = self.r
        ix = IXH if prefix == 0xDD else IYH
        op2 = self.peek(pc + 1)
        if op2 == 0xCB:
            self.m1(pc + 1)
            # DDCB d op: the displacement and the opcode are read as data (no M1, no R increment)
            d = self.read(pc + 2)
            op = self.read(pc + 3)
            self.internal(pc + 3, 2)
            a = (self.rp(ix) + s8(d)) & 0xFFFF
            r[MEMPTR] = a
            x, y, z = op >> 6, (op >> 3) & 7, op & 7
            v = self.read(a)
            self.internal(a, 1)
            if x == 1:                                       # BIT y,(IX+d)
                f = (r[F] & CF) | HF | ((a >> 8) & (YF | XF))
                if not v & (1 << y):
                    f |= ZF | PF
                elif y == 7:
                    f |= SF
                r[F] = f
            else:
                if x == 0:
                    res = self.rot(y, v)
                elif x == 2:
                    res = v & ~(1 << y) & 0xFF
                else:
                    res = v | (1 << y)
                self.write(a, res)
                if z != 6:
                    self.set_r(z, res)                       # undocumented register copy (real H/L, not IXh/IXl)
            r[PC] = (pc + 4) & 0xFFFF
            return
        if not self.indexable(op2):
            # the prefix has no effect on the next opcode: it is executed as a 4-T no-op of its own
            self.name = 'PREFIX'
            r[PC] = (pc + 1) & 0xFFFF
            return
        self.m1(pc + 1)
        self.exec_main(pc, op2, ix)

    @staticmethod
    def indexable(op):
        x, y, z = op >> 6, (op >> 3) & 7, op & 7
        if op in (0xE1, 0xE3, 0xE5, 0xE9, 0xF9):
            return True
        if x == 0:
            if z == 1:
                return (y & 1) == 1 or y == 4               # ADD IX,rp ; LD IX,nn
            if z == 2:
                return y in (4, 5)                           # LD (nn),IX ; LD IX,(nn)
            if z == 3:
                return y in (4, 5)                           # INC/DEC IX
            if z in (4, 5, 6):
                return y in (4, 5, 6)                        # INC/DEC/LD on IXh, IXl, (IX+d)
            return False
        if x == 1:
            if op == 0x76:
                return False
            return y in (4, 5, 6) or z in (4, 5, 6)
        if x == 2:
            return z in (4, 5, 6)
        return False

    def exec_cb(self, pc):
        r = self.r
        op = self.m1(pc + 1)
        x, y, z = op >> 6, (op >> 3) & 7, op & 7
        if z == 6:
            a = self.hl()
            v = self.read(a)
            self.internal(a, 1)
        else:
            v = self.get_r(z)
        if x == 1:
            f = (r[F] & CF) | HF
            if not v & (1 << y):
                f |= ZF | PF
            elif y == 7:
                f |= SF
            if z == 6:
                f |= (r[MEMPTR] >> 8) & (YF | XF)
            else:
                f |= v & (YF | XF)
            r[F] = f
        else:
            if x == 0:
                res = self.rot(y, v)
            elif x == 2:
                res = v & ~(1 << y) & 0xFF
            else:
                res = v | (1 << y)
            if z == 6:
                self.write(a, res)
            else:
                self.set_r(z, res)
        r[PC] = (pc + 2) & 0xFFFF

    def exec_ed(self, pc):
        r = self.r
        op = self.m1(pc + 1)
        x, y, z = op >> 6, (op >> 3) & 7, op & 7
        p, q = y >> 1, y & 1
        nxt = (pc + 2) & 0xFFFF
        if x == 1:
            if z == 0:                                       # IN r,(C) / IN F,(C)
                bc = self.bc()
                v = self.inp(bc)
                r[MEMPTR] = (bc + 1) & 0xFFFF
                if y != 6:
                    self.set_r(y, v)
                r[F] = (r[F] & CF) | sz(v) | parity(v) | (v & (YF | XF))
                r[PC] = nxt
            elif z == 1:                                     # OUT (C),r / OUT (C),0
                bc = self.bc()
                self.outp(bc, 0 if y == 6 else self.get_r(y))
                r[MEMPTR] = (bc + 1) & 0xFFFF
                r[PC] = nxt
            elif z == 2:
                self.ir_internal(7)
                a = self.hl()
                b = r[SP] if p == 3 else self.rp(B + 2 * p)
                r[MEMPTR] = (a + 1) & 0xFFFF
                self.set_rp(H, self.sbc16(a, b) if q == 0 else self.adc16(a, b))
                r[PC] = nxt
            elif z == 3:                                     # LD (nn),rp / LD rp,(nn)
                lo = self.read(pc + 2)
                hi = self.read(pc + 3)
                a = lo | (hi << 8)
                if q == 0:
                    v = r[SP] if p == 3 else self.rp(B + 2 * p)
                    self.write(a, v & 0xFF)
                    self.write(a + 1, v >> 8)
                else:
                    l_ = self.read(a)
                    h_ = self.read(a + 1)
                    v = l_ | (h_ << 8)
                    if p == 3:
                        r[SP] = v
                    else:
                        self.set_rp(B + 2 * p, v)
                r[MEMPTR] = (a + 1) & 0xFFFF
                r[PC] = (pc + 4) & 0xFFFF
            elif z == 4:                                     # NEG (and duplicates)
                a = r[A]
                r[A] = 0
                self.sub8(a)
                r[PC] = nxt
            elif z == 5:                                     # RETN / RETI (and duplicates)
                r[PC] = self.pop()
                r[MEMPTR] = r[PC]
            elif z == 6:                                     # IM
                r[IM] = [0, 0, 1, 2, 0, 0, 1, 2][y]
                r[PC] = nxt
            else:
                if y == 0:                                   # LD I,A
                    self.ir_internal(1)
                    r[I] = r[A]
                elif y == 1:                                 # LD R,A
                    self.ir_internal(1)
                    r[R] = r[A]
                elif y in (2, 3):                            # LD A,I / LD A,R
                    self.ir_internal(1)
                    v = r[I] if y == 2 else r[R]
                    r[A] = v
                    r[F] = (r[F] & CF) | sz(v) | (v & (YF | XF)) | (PF if r[IFF] else 0)
                elif y in (4, 5):                            # RRD / RLD
                    a = self.hl()
                    v = self.read(a)
                    self.internal(a, 4)
                    acc = r[A]
                    if y == 4:
                        nv = ((acc & 0x0F) << 4) | (v >> 4)
                        acc = (acc & 0xF0) | (v & 0x0F)
                    else:
                        nv = ((v << 4) & 0xF0) | (acc & 0x0F)
                        acc = (acc & 0xF0) | (v >> 4)
                    self.write(a, nv)
                    r[A] = acc
                    r[F] = (r[F] & CF) | sz(acc) | parity(acc) | (acc & (YF | XF))
                    r[MEMPTR] = (a + 1) & 0xFFFF
                # y 6, 7: ED 77 / ED 7F are 8-T no-ops
                r[PC] = nxt
            return
        if x == 2 and z <= 3 and y >= 4:
            self.block(pc, y, z)
            return
        # everything else in the ED page is an 8-T no-op
        self.name = 'EDNOP'
        r[PC] = nxt

    def block(self, pc, y, z):
        r = self.r
        inc = 1 if y in (4, 6) else -1
        rep = y >= 6
        nxt = (pc + 2) & 0xFFFF
        hl = self.hl()
        if z == 0:                                           # LDI/LDD/LDIR/LDDR
            v = self.read(hl)
            de = self.de()
            self.write(de, v)
            self.internal(de, 2)
            bc = (self.bc() - 1) & 0xFFFF
            self.set_rp(B, bc)
            self.set_rp(D, (de + inc) & 0xFFFF)
            self.set_rp(H, (hl + inc) & 0xFFFF)
            n = (v + r[A]) & 0xFF
            f = (r[F] & (SF | ZF | CF)) | (PF if bc else 0) | (n & XF) | (YF if n & 2 else 0)
            r[F] = f
            if rep and bc:
                self.internal(de, 5)
                self.repeat = True
                r[MEMPTR] = (pc + 1) & 0xFFFF
                r[PC] = pc & 0xFFFF
            else:
                r[PC] = nxt
        elif z == 1:                                         # CPI/CPD/CPIR/CPDR
            v = self.read(hl)
            self.internal(hl, 5)
            a = r[A]
            res = (a - v) & 0xFF
            h = HF if (a & 0xF) - (v & 0xF) < 0 else 0
            bc = (self.bc() - 1) & 0xFFFF
            self.set_rp(B, bc)
            self.set_rp(H, (hl + inc) & 0xFFFF)
            n = (res - (1 if h else 0)) & 0xFF
            r[F] = (r[F] & CF) | sz(res) | h | (PF if bc else 0) | NF | (n & XF) | (YF if n & 2 else 0)
            r[MEMPTR] = (r[MEMPTR] + inc) & 0xFFFF
            if rep and bc and res:
                self.internal(hl, 5)
                self.repeat = True
                r[MEMPTR] = (pc + 1) & 0xFFFF
                r[PC] = pc & 0xFFFF
            else:
                r[PC] = nxt
        elif z == 2:                                         # INI/IND/INIR/INDR
            self.ir_internal(1)
            bc = self.bc()
            v = self.inp(bc)
            self.write(hl, v)
            r[MEMPTR] = (bc + inc) & 0xFFFF
            b = (r[B] - 1) & 0xFF
            r[B] = b
            self.set_rp(H, (hl + inc) & 0xFFFF)
            k = v + ((r[C] + inc) & 0xFF)
            f = sz(b) | (b & (YF | XF)) | (NF if v & 0x80 else 0) | ((HF | CF) if k > 255 else 0) | parity((k & 7) ^ b)
            r[F] = f
            if rep and b:
                self.internal(hl, 5)
                self.repeat = True
                r[PC] = pc & 0xFFFF
            else:
                r[PC] = nxt
        else:                                                # OUTI/OUTD/OTIR/OTDR
            self.ir_internal(1)
            v = self.read(hl)
            b = (r[B] - 1) & 0xFF
            r[B] = b
            bc = self.bc()
            self.outp(bc, v)
            r[MEMPTR] = (bc + inc) & 0xFFFF
            self.set_rp(H, (hl + inc) & 0xFFFF)
            k = v + r[L]
            f = sz(b) | (b & (YF | XF)) | (NF if v & 0x80 else 0) | ((HF | CF) if k > 255 else 0) | parity((k & 7) ^ b)
            r[F] = f
            if rep and b:
                self.internal(bc, 5)
                self.repeat = True
                r[PC] = pc & 0xFFFF
            else:
                r[PC] = nxt

def step(regs, rd, port_in, frame=69888, int_active=32):
    return CPU(regs, rd, port_in, frame, int_active).step()
