"""Reference model of the frame-manipulation macros #COPY, #OVER and #PLOT, written from the SkoolKit
documentation (skool-macros: #COPY, #OVER, #PLOT, #FRAMES, Masks, Cropping, Numeric parameters).
Does not import skoolkit and shares no code with it: #OVER is decided pixel by pixel on the
background frame, not by shifting tiles.

A frame is a dict:
  {'tiles': rows of [attr, [8 bytes], [8 bytes] | None], 'scale', 'mask', 'crop': (x, y, w|None, h|None),
   'tindex', 'alpha'}
(tile rows top first, bit 7 of a byte leftmost; the tile array is the one the frame shows, i.e. after
the flip/rotate of the macro that created it).

What the documentation defines, and therefore what this model decides:

#COPY  "copies all or part of an existing frame into a new frame": tiles (x..x+width-1, y..y+height-1), default
       to the right and bottom edges; scale, mask type, tindex, alpha and the cropping specification are those of
       the existing frame unless given. The new frame is a copy: later changes to one are not changes to the other.
#PLOT  pixel (x, y) relative to the top-left corner of the frame, in tile-array pixels (the documented example
       plots "the second pixel from the left in the third row" of a #UDG frame whose scale is 4); value 0 resets,
       1 sets, 2 flips the bit.
#OVER  the foreground frame is placed with its top-left pixel at (8*x + xoffset, 8*y + yoffset) of the background
       ("tile coordinates ... pixel offsets by which to shift the foreground frame from the given tile coordinates").
       Only attribute and graphic bytes of the background change; its masks, size, scale, crop are untouched.
       rmode 0/1: every background pixel under a foreground pixel becomes (B|U)&M (foreground mask type 1),
       (B&M)|U (type 2), or B|U ("If the foreground frame has no mask, its contents are combined with those of the
       background frame by OR operations": mask type 0, or no mask bytes). Pixels not under the foreground stay.
       rmode 2/3: each graphic byte of each background UDG "over which a foreground UDG is superimposed" (= whose
       8x8 cell contains at least one foreground pixel) becomes byte($b, $f, $m).
       rmode 1/3: the attribute of each such background UDG becomes attr($b, $f).

What it does NOT define (Undefined is raised, and the generator is built never to ask for it):
  * coordinates outside the frame for #PLOT; #PLOT on a frame whose crop origin is not (0, 0) ("top-left corner of
    the frame" could be the crop's or the array's); values other than 0, 1, 2
  * a #COPY portion that leaves the existing frame; negative x, y
  * #OVER with the same frame as background and foreground
  * a foreground in which only some UDGs have mask bytes (which rule applies to a pixel shifted into a neighbour?)
  * $f in the attr expression when the background UDG lies under foreground UDGs with different attributes
    (pixel offsets not multiples of 8): the text speaks of "the foreground UDG"
  * $m for a background byte that is not completely covered by foreground pixels of UDGs with mask bytes, and $m
    when the foreground's mask type is 0 although its UDGs carry mask bytes (#COPY with mask=0)
  * expression values outside 0..255
Assumption made (listed in the property's ASSUMPTIONS): in the byte expression, with pixel offsets, $f is the
byte formed by the foreground pixels lying over the background byte, 0 where there is no foreground pixel.
"""

class Undefined(Exception):
    """The documentation does not define the requested behaviour."""

# ------------------------------------------------------------------ frames

def new_frame(tiles, scale, mask, crop, tindex, alpha):
    """tiles: rows of (attr, data, mask|None) in any sequence types; deep-copied."""
    return {'tiles': [[[t[0], list(t[1]), list(t[2]) if t[2] is not None else None] for t in row] for row in tiles],
            'scale': scale, 'mask': mask, 'crop': tuple(crop), 'tindex': tindex, 'alpha': alpha}

def render_tiles(frame):
    """Tile array in the immutable form vk.ref.c15_render expects."""
    return [[(t[0], list(t[1]), list(t[2]) if t[2] is not None else None) for t in row] for row in frame['tiles']]

def snapshot(frame):
    """Hashable picture of everything a frame holds (to detect changes)."""
    return (tuple(tuple((t[0], tuple(t[1]), tuple(t[2]) if t[2] is not None else None) for t in row) for row in frame['tiles']),
            frame['scale'], frame['mask'], tuple(frame['crop']), frame['tindex'], frame['alpha'])

def dims(frame):
    return len(frame['tiles'][0]), len(frame['tiles'])

# ------------------------------------------------------------------ expressions

# AST: ('n', int) | ('v', 'b'|'f'|'m') | ('op', symbol, left, right)
_OPS = {
    '+': lambda a, b: a + b, '-': lambda a, b: a - b, '*': lambda a, b: a * b, '%': lambda a, b: a % b,
    '&': lambda a, b: a & b, '|': lambda a, b: a | b, '^': lambda a, b: a ^ b,
    '>>': lambda a, b: a >> b, '<<': lambda a, b: a << b,
}

def evaluate(ast, env):
    kind = ast[0]
    if kind == 'n':
        return ast[1]
    if kind == 'v':
        return env[ast[1]]
    a, b = evaluate(ast[2], env), evaluate(ast[3], env)
    if ast[1] == '%' and b == 0:
        raise Undefined('modulo zero')
    if ast[1] in ('>>', '<<') and b < 0:
        raise Undefined('negative shift')
    return _OPS[ast[1]](a, b)

def uses(ast, var):
    if ast is None:
        return False
    if ast[0] == 'v':
        return ast[1] == var
    if ast[0] == 'op':
        return uses(ast[2], var) or uses(ast[3], var)
    return False

def _byte(v, what):
    if not 0 <= v <= 255:
        raise Undefined('%s expression gives %d' % (what, v))
    return v

# ------------------------------------------------------------------ #COPY

def copy(old, x=0, y=0, width=None, height=None, scale=None, mask=None, tindex=None, alpha=None, crop=None):
    cols, rows = dims(old)
    if width is None:
        width = cols - x
    if height is None:
        height = rows - y
    if x < 0 or y < 0 or width < 1 or height < 1 or x + width > cols or y + height > rows:
        raise Undefined('portion (%d,%d,%d,%d) is not inside the %dx%d frame' % (x, y, width, height, cols, rows))
    tiles = [row[x:x + width] for row in old['tiles'][y:y + height]]
    return new_frame(tiles,
                     old['scale'] if scale is None else scale,
                     old['mask'] if mask is None else mask,
                     old['crop'] if crop is None else crop,
                     old['tindex'] if tindex is None else tindex,
                     old['alpha'] if alpha is None else alpha)

# ------------------------------------------------------------------ #PLOT

def plot(frame, x, y, value=1):
    cols, rows = dims(frame)
    if not (0 <= x < 8 * cols and 0 <= y < 8 * rows):
        raise Undefined('pixel (%d,%d) is outside the frame' % (x, y))
    if value not in (0, 1, 2):
        raise Undefined('value %r' % (value,))
    if (frame['crop'][0] or 0) or (frame['crop'][1] or 0):
        raise Undefined('frame is cropped at the left or the top')
    data = frame['tiles'][y >> 3][x >> 3][1]
    bit = 0x80 >> (x & 7)
    if value == 0:
        data[y & 7] &= ~bit & 255
    elif value == 1:
        data[y & 7] |= bit
    else:
        data[y & 7] ^= bit

# ------------------------------------------------------------------ #OVER

def mask_presence(frame):
    """'all', 'none' or 'mixed': which UDGs of the frame carry mask bytes."""
    have = [t[2] is not None for row in frame['tiles'] for t in row]
    if all(have):
        return 'all'
    if not any(have):
        return 'none'
    return 'mixed'

def over(bg, fg, x, y, xoffset=0, yoffset=0, rmode=0, attr=None, byte=None, m_rule=None):
    """Superimpose fg on bg (bg is modified). attr/byte: expression ASTs (needed when rmode has bit 0 / bit 1).
    Returns the number of background UDGs over which a foreground UDG was superimposed.
    m_rule: None for the documented behaviour. The property module passes a function (column, row) -> int | None
    (background UDG position relative to the UDG that contains the foreground's top-left pixel) that overrides the
    value of $m, to test whether a described defect mechanism explains an observation; never used for a verdict."""
    if bg is fg:
        raise Undefined('same frame as background and foreground')
    if rmode not in (0, 1, 2, 3):
        raise Undefined('rmode %r' % (rmode,))
    if (rmode & 1 and attr is None) or (rmode & 2 and byte is None):
        raise Undefined('missing expression')
    presence = mask_presence(fg)
    if presence == 'mixed':
        raise Undefined('foreground with mask bytes on some UDGs only')
    masked = presence == 'all' and fg['mask'] in (1, 2)
    btiles, ftiles = bg['tiles'], fg['tiles']
    bcols, brows = dims(bg)
    fcols, frows = dims(fg)
    px, py = 8 * x + xoffset, 8 * y + yoffset
    fw, fh = 8 * fcols, 8 * frows
    m_ok = presence == 'none' or masked          # $m is defined at all for this foreground
    touched = 0
    for r in range(brows):
        if 8 * r + 8 <= py or 8 * r >= py + fh:
            continue
        for c in range(bcols):
            if 8 * c + 8 <= px or 8 * c >= px + fw:
                continue
            touched += 1
            tile = btiles[r][c]
            fattrs = set()
            newdata = []
            for k in range(8):
                j = 8 * r + k - py
                b = tile[1][k]
                fbyte = mbyte = inside = 0
                if 0 <= j < fh:
                    frow = ftiles[j >> 3]
                    for n in range(8):
                        i = 8 * c + n - px
                        if 0 <= i < fw:
                            ft = frow[i >> 3]
                            w = 0x80 >> n
                            inside |= w
                            fattrs.add(ft[0])
                            if ft[1][j & 7] & (0x80 >> (i & 7)):
                                fbyte |= w
                            if ft[2] is not None and ft[2][j & 7] & (0x80 >> (i & 7)):
                                mbyte |= w
                if rmode & 2:
                    forced = m_rule(c - (px >> 3), r - (py >> 3)) if m_rule is not None else None
                    if forced is not None:
                        mbyte = forced
                    elif uses(byte, 'm'):
                        if not m_ok:
                            raise Undefined('$m with a foreground of mask type 0 that carries mask bytes')
                        if presence == 'all' and inside != 255:
                            raise Undefined('$m for a background byte not completely under the foreground')
                    newdata.append(_byte(evaluate(byte, {'b': b, 'f': fbyte, 'm': mbyte}), 'byte'))
                else:
                    if masked and fg['mask'] == 1:
                        v = (b | fbyte) & mbyte
                    elif masked:
                        v = (b & mbyte) | fbyte
                    else:
                        v = b | fbyte
                    newdata.append((v & inside) | (b & ~inside & 255))
            if rmode & 1:
                if uses(attr, 'f') and len(fattrs) != 1:
                    raise Undefined('$f in attr under foreground UDGs with different attributes')
                fa = next(iter(fattrs)) if len(fattrs) == 1 else 0
                newattr = _byte(evaluate(attr, {'b': tile[0], 'f': fa}), 'attr')
            else:
                newattr = tile[0]
            tile[1][:] = newdata
            tile[0] = newattr
    return touched
