"""Shard-side recording API and tool runner used by every property module."""
import base64
import contextlib
import hashlib
import io
import json
import os
import random
import sys
import time
import traceback

from vk import paths

MAX_SAMPLES = 6
MAX_VIOLATIONS = 40

def h64(obj):
    if isinstance(obj, (bytes, bytearray)):
        b = bytes(obj)
    elif isinstance(obj, str):
        b = obj.encode('utf-8', 'surrogatepass')
    else:
        b = json.dumps(obj, sort_keys=True, default=repr).encode()
    return hashlib.blake2b(b, digest_size=8).hexdigest()

def b64(b):
    return base64.b64encode(bytes(b)).decode()

def unb64(s):
    return base64.b64decode(s)

class Shard:
    """Collects what one worker observed. Everything here ends up in the evidence file."""
    def __init__(self, prop, tier, seed, index, count, spec=None):
        self.prop = prop
        self.tier = tier
        self.seed = seed
        self.index = index
        self.count = count
        self.spec = spec
        self.evaluations = 0
        self.hashes = set()          # distinct non-trivial case hashes
        self.bulk_distinct = 0       # distinct non-trivial cases of enumerated, disjoint sub-spaces
        self.samples = []
        self.violations = []         # dicts: kind, what, finding (or None), replay
        self.nviolations = 0
        self.counters = {}
        self.hists = {}
        self.skipped = {}
        self.inconclusive = []
        self.deadline = None
        self.t0 = time.time()

    # --- workload helpers
    def rng(self, *key):
        return random.Random('/'.join(str(k) for k in (self.seed, self.prop) + key))

    def set_budget(self, seconds):
        # the soft budget is counted in CPU time of this worker, so that a loaded machine does not shrink the workload (and
        # with it what the monitors observe); a wall-clock cap of five times the budget keeps a starved worker bounded
        self.deadline = time.process_time() + seconds
        self.wall_deadline = time.time() + min(5 * seconds, seconds + 3000)

    def out_of_time(self):
        return self.deadline is not None and (time.process_time() > self.deadline or time.time() > self.wall_deadline)

    # --- recording
    def case(self, key, nontrivial=True, sample=None):
        """One evaluated case. key: anything hashable by h64 that identifies the case canonically."""
        self.evaluations += 1
        if nontrivial:
            self.hashes.add(h64(key))
        if sample is not None and len(self.samples) < MAX_SAMPLES:
            self.samples.append(sample)

    def bulk(self, evaluations, distinct_nontrivial):
        """An enumerated sub-space (disjoint from every other shard's)."""
        self.evaluations += evaluations
        self.bulk_distinct += distinct_nontrivial

    def sample(self, s):
        if len(self.samples) < MAX_SAMPLES:
            self.samples.append(s)

    def inc(self, name, n=1):
        self.counters[name] = self.counters.get(name, 0) + n

    def hist(self, name, key, n=1):
        d = self.hists.setdefault(name, {})
        key = str(key)
        d[key] = d.get(key, 0) + n

    def skip(self, reason):
        self.skipped[reason] = self.skipped.get(reason, 0) + 1

    def note_inconclusive(self, reason):
        if len(self.inconclusive) < 20:
            self.inconclusive.append(reason)

    def violation(self, what, replay, finding=None):
        """what: one-line description. replay: JSON-able dict sufficient to re-run the case.
        finding: id of a known-findings entry whose mechanism predicate matched, else None."""
        self.nviolations += 1
        if finding is not None:
            self.inc('known:' + finding)
            # keep one witness per finding only
            if any(v.get('finding') == finding for v in self.violations):
                return
        if len(self.violations) < MAX_VIOLATIONS:
            self.violations.append({'what': what[:2000], 'finding': finding, 'replay': replay})

    def result(self):
        return {
            'index': self.index,
            'evaluations': self.evaluations,
            'hashes': sorted(self.hashes),
            'bulk_distinct': self.bulk_distinct,
            'samples': self.samples,
            'violations': self.violations,
            'nviolations': self.nviolations,
            'counters': self.counters,
            'hists': self.hists,
            'skipped': self.skipped,
            'inconclusive': self.inconclusive,
            'wall_s': round(time.time() - self.t0, 3),
        }

# ------------------------------------------------------------------ tool runner

class ToolResult:
    __slots__ = ('out', 'err', 'code', 'exc', 'tb')
    def __init__(self, out, err, code, exc, tb):
        self.out, self.err, self.code, self.exc, self.tb = out, err, code, exc, tb

    @property
    def ok(self):
        return self.exc is None and self.code in (None, 0)

    def describe(self):
        if self.exc is not None:
            return 'uncaught %s' % self.exc
        return 'exit %s: %s' % (self.code, self.err.strip()[-300:])

class _Out(io.StringIO):
    """stdout replacement that also offers .buffer for tools writing bytes."""
    def __init__(self):
        super().__init__()
        self.buffer = io.BytesIO()

def run_tool(module, argv):
    """Run skoolkit.<module>.main(argv) in-process; capture stdout, stderr, exit status, exception."""
    import importlib
    mod = importlib.import_module('skoolkit.' + module)
    out, err = _Out(), _Out()
    code = None
    exc = tb = None
    old = sys.stdout, sys.stderr
    sys.stdout, sys.stderr = out, err
    try:
        mod.main([str(a) for a in argv])
    except SystemExit as e:
        code = e.code if isinstance(e.code, int) or e.code is None else 1
        if not isinstance(e.code, int) and e.code is not None:
            err.write(str(e.code))
    except Exception as e:  # uncaught exception = crash of the tool
        exc = '%s: %s' % (type(e).__name__, e)
        tb = traceback.format_exc()
    finally:
        sys.stdout, sys.stderr = old
    return ToolResult(out.getvalue(), err.getvalue(), code, exc, tb)

def innermost_frame(tb_text):
    """('file.py', 'func') of the innermost frame of a formatted traceback."""
    last = None
    for line in (tb_text or '').splitlines():
        line = line.strip()
        if line.startswith('File "'):
            try:
                fname = line.split('"')[1]
                func = line.rsplit(' in ', 1)[1]
                last = (os.path.basename(fname), func)
            except IndexError:
                pass
    return last

def write_file(name, data):
    mode = 'wb' if isinstance(data, (bytes, bytearray)) else 'w'
    with open(name, mode) as f:
        f.write(data)
    return name

def read_file(name, binary=True):
    with open(name, 'rb' if binary else 'r') as f:
        return f.read()

# ------------------------------------------------------------------ per-case wall-clock watchdog (inconclusive, never a verdict)

class CaseTimeout(Exception):
    pass

class time_limit:
    """with time_limit(s): ... raises CaseTimeout in the main thread after s seconds (SIGALRM). The C simulators
    poll signals inside their loops, so this also interrupts a run() that never reaches its stop address."""
    def __init__(self, seconds):
        self.seconds = int(max(1, seconds))

    def _fire(self, signum, frame):
        raise CaseTimeout()

    def __enter__(self):
        import signal
        self._old = signal.signal(signal.SIGALRM, self._fire)
        signal.alarm(self.seconds)

    def __exit__(self, *exc):
        import signal
        signal.alarm(0)
        signal.signal(signal.SIGALRM, self._old)
        return False
