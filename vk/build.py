"""Build the two C extension modules from /repo's *current* c/csimulator.c.

Output: /verif/.build/<sha>/<flavour>/{csimulator,ccmiosimulator}.cpython-312-x86_64-linux-gnu.so
flavour = plain (gcc -O2) | asan (clang -O1 -fsanitize=address,undefined)
"""
import hashlib
import os
import subprocess
import sys
import sysconfig

from vk import paths

SUFFIX = sysconfig.get_config_var('EXT_SUFFIX') or '.cpython-312-x86_64-linux-gnu.so'
INCLUDE = sysconfig.get_paths()['include']

def guard_on():
    return True

def source_sha():
    h = hashlib.sha256()
    with open(os.path.join(paths.REPO, 'c', 'csimulator.c'), 'rb') as f:
        h.update(f.read())
    return h.hexdigest()[:16]

def asan_runtime():
    r = subprocess.run(['clang', '-print-file-name=libclang_rt.asan-x86_64.so'], capture_output=True, text=True)
    return r.stdout.strip()

def build(flavour='plain', quiet=True):
    """Returns (dir, error). dir contains both .so files; error is None or compiler output."""
    sha = source_sha()
    outdir = os.path.join(paths.VERIF, '.build', sha, flavour)
    names = (('csimulator', []), ('ccmiosimulator', ['-DCONTENTION']))
    if all(os.path.isfile(os.path.join(outdir, n + SUFFIX)) for n, _ in names):
        return outdir, None
    os.makedirs(outdir, exist_ok=True)
    src = os.path.join(paths.REPO, 'c', 'csimulator.c')
    for name, extra in names:
        out = os.path.join(outdir, name + SUFFIX)
        tmp = out + '.%d.tmp' % os.getpid()
        if flavour == 'plain':
            cmd = ['gcc', '-O2', '-shared', '-fPIC', '-DSKOOLKIT_VERIF=1', '-I', INCLUDE] + extra + [src, '-o', tmp]
        else:
            cmd = ['clang', '-O1', '-g', '-shared', '-fPIC', '-fsanitize=address,undefined',
                   '-fno-sanitize-recover=undefined', '-fno-omit-frame-pointer', '-DSKOOLKIT_VERIF=1',
                   '-I', INCLUDE] + extra + [src, '-o', tmp]
        r = subprocess.run(cmd, capture_output=True, text=True)
        if r.returncode != 0:
            try:
                os.unlink(tmp)
            except OSError:
                pass
            return None, r.stderr[-4000:]
        os.replace(tmp, out)
    return outdir, None

if __name__ == '__main__':
    for fl in sys.argv[1:] or ['plain']:
        d, err = build(fl)
        if err:
            print('BUILD FAILED (%s):\n%s' % (fl, err))
            sys.exit(1)
        print(d)
