"""C17 G-MACRO: generator of skool macro texts (as trees of vk.ref.c17_macroref.N), their rendering in the
documented spellings, and the skool files that carry them. No skoolkit import.

A *chunk* is one self-contained macro text: a history of state-changing macros (#LET, #DEF, #PUSHS, #POKES,
#POPS) followed by / interleaved with macros that read that state. Chunks use chunk-unique variable, macro and
snapshot names and poke only a private 16-byte region (always restored or re-initialised), so that the
expansion of a chunk is the same however often and in whatever order the writers expand the comment fields
(the HTML writer expands titles several times and descriptions before titles).

Guards (see DESIGN.md C17): loop variables are tokens that occur nowhere else; strings with commas or
unbalanced brackets get the documented alternative delimiters; '/' '%' only with non-negative operands, '**'
with small exponents; '&&' '||' only as truth values or on 0/1 operands; operator mixes without parentheses
only where every common precedence convention agrees.
"""
import re

from vk.ref.c17_macroref import N, State, Env, Evaluator, Undefined

ALNUM = '0123456789abcdefghijklmnopqrstuvwxyzABCDEFGHIJKLMNOPQRSTUVWXYZ'
UPPER = 'ABCDEFGHIJKLMNOPQRSTUVWXYZ'
F_NONE = frozenset()
F_BARE = frozenset(ALNUM + ',($;=')      # after unbracketed integer parameters
F_NAME = frozenset(ALNUM + '$#')         # after #PUSHS[name]
F_UP = frozenset(UPPER)                  # after a bare macro name (#PC, #POPS)
F_PAREN = frozenset('(')                 # after a macro whose optional bracketed part is omitted
IDENT = frozenset(ALNUM + '_')

# words without the letters j, q, z (reserved for loop variables)
WORDS = ['the', 'sprite', 'buffer', 'HL', 'points', 'at', 'loop', 'counter', 'is', 'set', 'if', 'carry', 'table', 'of',
         'data', 'see', 'below', 'Note', 'code', 'a', 'I', 'score', 'end', 'marker', 'bit', '7', 'UDG', 'byte', 'INK', 'x', 'y',
         '0', '12', 'A=0', 'up', 'down', 'left', 'right', 'one', 'two', 'lives', '100', 'Yes', 'No', 'on', 'off']
PUNCT = ['.', ':', '-', '!', '?', '/', '|', '*', '+', '=', '%', '^', '~', '_', '@', "'", '"', ' & ', ' < ', ' > ', '<', '>', '&',
         ', ', ',', '(', ')', '[', ']', '(x)', '[y]', '  ']
LOOPVARS = ['j', 'q', 'z', 'jq', 'qz', 'zj', 'jj', 'qq', 'zz', 'jz', 'qj', 'zq']
NATURAL_LOOPVARS = ['n', 'm', 'i', 'k']
PARAM_NAMES = ['g', 'h', 'i', 'k', 'm', 'n', 'p', 'r', 's', 't', 'u', 'v', 'w', 'x', 'y', 'lo', 'hi', 'len', 'num', 'val']
# '-' is excluded: a negative loop value substituted into a parameter would contain it
ALT_DELIMS = '/|!@%^*_+=~:.?'
ALT_SEPS = '/|!@%^*_+=~:.? '

from html import escape as html_escape

class Tok:
    '''Rendered text + the characters that must not follow it (they would be read as part of its parameters).
    subst: the text is (or starts with) a placeholder that is replaced by a number or word before the macro to
    its left is parsed (loop variable, #DEF parameter, replacement field).'''
    __slots__ = ('text', 'forbid', 'subst')
    def __init__(self, text, forbid=F_NONE, subst=False):
        self.text = text
        self.forbid = forbid
        self.subst = subst

F_ALL = frozenset(ALNUM + ',($;=#')

def clash(prev, tok):
    '''True if tok may not directly follow prev.'''
    if not prev.forbid or not tok.text:
        return False
    if tok.subst:
        return True
    return tok.text[0] in prev.forbid

class Reject(Exception):
    """This tree cannot be rendered unambiguously (no admissible delimiter etc.); the generator retries."""

def paren_ok(s, o='(', c=')'):
    d = 0
    for ch in s:
        if ch == o:
            d += 1
        elif ch == c:
            d -= 1
            if d < 0:
                return False
    return d == 0

def bare_comma(s):
    d = 0
    for ch in s:
        if ch == '(':
            d += 1
        elif ch == ')':
            d -= 1
        elif ch == ',' and d == 0:
            return True
    return False

# ------------------------------------------------------------------ operator precedence used for rendering
PREC = {'||': 1, '&&': 2, '==': 3, '!=': 3, '<': 3, '>': 3, '<=': 3, '>=': 3, '|': 4, '^': 5, '&': 6, '<<': 7, '>>': 7,
        '+': 8, '-': 8, '*': 9, '/': 9, '%': 9, '**': 11}
CMP = ('==', '!=', '<', '>', '<=', '>=')
BITS = ('|', '^', '&')

class Renderer:
    """Renders a tree to macro text. Style choices are random; every choice is one the documentation allows.
    Rendering may insert Lit(' ') separators into sequences (so evaluate only after rendering)."""
    def __init__(self, rng, hazards=()):
        self.rng = rng
        self.hazards = set(hazards)
        self.stats = {}
        self.used_loopvars = []
        self.sparam_texts = set()

    def count(self, what):
        self.stats[what] = self.stats.get(what, 0) + 1

    # --------------------------------------------------------------- string parameters
    def delimit_single(self, s, rc, allow_paren=True, need_nonalnum=True):
        rng = self.rng
        opts = []
        if allow_paren and paren_ok(s):
            opts += ['('] * 4
        if paren_ok(s, '[', ']'):
            opts += ['[']
        if rc['brace'] == 0 and not rc['dollar'] and paren_ok(s, '{', '}'):
            opts += ['{']
        alts = [d for d in ALT_DELIMS if d not in s and not (rc['dollar'] and d == '_')]
        if alts:
            opts += ['alt']
        if not opts:
            raise Reject('no delimiter')
        o = rng.choice(opts)
        if o == 'alt':
            d = rng.choice(alts)
            self.count('delim:alt-single')
            return d + s + d
        self.count('delim:' + o)
        return o + s + {'(': ')', '[': ']', '{': '}'}[o]

    def delimit_multi(self, args, rc):
        rng = self.rng
        joined = ','.join(args)
        opts = []
        if not any(bare_comma(a) for a in args) and all(paren_ok(a) for a in args):
            opts += ['('] * 5
            if paren_ok(joined, '[', ']'):
                opts += ['[']
            if rc['brace'] == 0 and not rc['dollar'] and paren_ok(joined, '{', '}'):
                opts += ['{']
        everything = ''.join(args)
        ds = [d for d in ALT_DELIMS if d not in everything and not (rc['dollar'] and d == '_')]
        ss = [s for s in ALT_SEPS if s not in everything and not (rc['dollar'] and s == '_')]
        if any(m in everything for m in self.sparam_texts):
            # a string argument (words separated by spaces) will be substituted here
            ss = [s for s in ss if s != ' ']
        if not any(bare_comma(a) for a in args) and all(paren_ok(a) for a in args):
            # the comma as separator between alternative delimiters ('/,a,(b,c),/'): commas between parentheses are
            # retained when a comma-separated sequence is split (documented under "String parameters")
            ss = ss + [','] * (4 if ',' in everything else 1)
        if ds and ss:
            opts += ['alt'] * 2
        if not opts:
            raise Reject('no delimiter')
        o = rng.choice(opts)
        if o == 'alt':
            for _ in range(10):
                d, s = rng.choice(ds), rng.choice(ss)
                has_sparam = any(m in everything for m in self.sparam_texts)
                if rng.random() < 0.3 and d in ss and not has_sparam:
                    s = d
                if has_sparam and s == d:
                    # a string argument may be empty: with identical delimiter and separator the list would end early
                    continue
                j = s.join(args)
                if (j + s + d).find(s + d) == len(j):
                    self.count('delim:alt-multi' + ('-same' if s == d else '') + ('-space' if s == ' ' else ''))
                    return d + s + j + s + d
            raise Reject('no alt delimiter')
        self.count('delim:multi' + o)
        return o + joined + {'(': ')', '[': ']', '{': '}'}[o]

    # --------------------------------------------------------------- integers / expressions
    def number(self, e, rc, bare=False):
        v = e.v
        style = getattr(e, 'style', 'd')
        if v < 0:
            raise Reject('negative literal')
        if style == 'd':
            return str(v)
        w = getattr(e, 'w', 0)
        if style == 'H' or rc['dollar']:
            return '$' + '{:0{}X}'.format(v, w)
        return '$' + '{:0{}x}'.format(v, w)

    def sp(self):
        return ' ' if self.rng.random() < 0.15 else ''

    def expr(self, e, rc, parent=None, side=None):
        """Returns Tok; forbid is non-empty if the text ends with an open-ended macro or $name."""
        k = e.k
        if k == 'num':
            return Tok(self.number(e, rc))
        if k == 'grp':
            return Tok('(' + self.sp() + self.expr(e.a, rc).text + self.sp() + ')')
        if k == 'neg':
            t = self.expr(e.a, rc, 'neg')
            s = '-' + t.text
            if parent == '**' or parent == 'neg':
                return Tok('(' + s + ')')
            return Tok(s, t.forbid)
        if k in ('fld', 'var', 'par', 'mac'):
            if k == 'fld':
                t = Tok(self.field(e, rc))
            elif k == 'var':
                t = Tok(chr(0xE000 + e.id))
            elif k == 'par':
                t = self.param_ref(e, rc, expr=True)
            else:
                t = self.text(e.node, dict(rc, inexpr=True))
            if (parent == '**' and side == 'L') or getattr(e, 'paren', False) or parent == 'neg':
                return Tok('(' + t.text + ')')
            return t
        if k == 'bin':
            op = e.op
            a = self.expr(e.a, rc, op, 'L')
            b = self.expr(e.b, rc, op, 'R')
            sa, sb = a.text, b.text
            if a.forbid and not a.forbid.isdisjoint(' ' + op[0]):
                sa = '(' + sa + ')'
            s1, s2 = self.sp(), self.sp()
            if sb[0] in '-+':
                s2 = ' '
            s = sa + s1 + op + s2 + sb
            need = False
            if parent is not None and parent != 'neg':
                pp, pc = PREC[parent], PREC[op]
                if pc < pp or (pc == pp and (side == 'R' or op == '**' or op in CMP)):
                    need = True
                if (parent in CMP and op in BITS) or (parent in BITS and op in CMP):
                    need = True
                if parent == '**':
                    need = True
                if pc == pp and op != parent and PREC[op] in (3, 7):
                    need = True
            elif parent == 'neg':
                need = True
            if need:
                return Tok('(' + s + ')')
            return Tok(s, b.forbid)
        raise Reject('expr kind ' + k)

    def field(self, e, rc, spec=None):
        b = 1 << rc['brace']
        s = e.name
        key = getattr(e, 'key', None)
        if key is not None:
            s += '[%s]' % key
        if spec:
            s += ':' + spec
        return '{' * b + s + '}' * b

    def param_ref(self, e, rc, expr=False):
        if rc['defflags'] is None:
            raise Reject('parameter reference outside a definition')
        if e.name == 'b' and rc.get('strend'):
            return Tok('$b', IDENT)
        if rc['defflags'] & 1:
            spec = getattr(e, 'spec', None)
            return Tok('{' + e.name + (':' + spec if spec else '') + '}')
        if self.rng.random() < 0.3:
            return Tok('${' + e.name + '}')
        return Tok('$' + e.name, IDENT)

    def is_plain(self, e):
        return e is None or (e.k == 'num' and e.v >= 0)

    def ints(self, params, rc, names=None, force_brackets=False, allow_bare=True):
        """params: list of expr or None (blank); trailing None are omitted. Returns Tok."""
        params = list(params)
        while params and params[-1] is None:
            params.pop()
        kw = names is not None and any(n is not None for n in names[:len(params)])
        plain = all(self.is_plain(p) for p in params)
        if not params:
            if force_brackets or (self.rng.random() < 0.1 and not rc.get('nobrackets_empty')):
                return Tok('()')
            return Tok('', F_BARE | F_UP)
        bare = plain and allow_bare and not force_brackets and self.rng.random() < 0.5
        parts = []
        for i, p in enumerate(params):
            name = names[i] if names else None
            if p is None:
                parts.append('')
                continue
            t = self.expr(p, rc)
            s = t.text
            if t.forbid and not bare and i < len(params) - 1:
                s = '(' + s + ')'
            if name is not None:
                s = name + ('=' if bare else self.sp() + '=' + self.sp()) + s
            elif not bare:
                s = self.sp() + s + self.sp()
            parts.append(s)
        if bare:
            self.count('ints:bare' + ('-kw' if kw else ''))
            return Tok(','.join(parts), F_BARE)
        self.count('ints:bracketed' + ('-kw' if kw else ''))
        return Tok('(' + ','.join(parts) + ')')

    # --------------------------------------------------------------- text nodes
    def text(self, n, rc):
        return getattr(self, 'r_' + n.k)(n, rc)

    def r_lit(self, n, rc):
        return Tok(n.s)

    def r_var(self, n, rc):
        return Tok(chr(0xE000 + n.id), subst=True)

    def r_par(self, n, rc):
        t = self.param_ref(n, rc)
        t.subst = True
        if getattr(n, 'skind', 'i') == 's':
            # the argument text is substituted raw: it may end with an open-ended macro
            t.forbid = t.forbid | F_ALL
            self.sparam_texts.add(t.text)
        return t

    def r_fld(self, n, rc):
        return Tok(self.field(n, rc, n.spec), subst=True)

    def r_seq(self, n, rc):
        out = []
        items = []
        prev = None
        first = None
        for c in n.items:
            t = self.text(c, rc)
            if not t.text:
                items.append(c)
                continue
            if first is None:
                first = t
            if prev is not None and clash(prev, t):
                items.append(N('lit', s=' '))
                out.append(' ')
            items.append(c)
            out.append(t.text)
            prev = t
        n.items = items
        return Tok(''.join(out), prev.forbid if prev is not None else F_NONE, subst=first is not None and first.subst)

    def guard(self, node, tok):
        """Close an open-ended tail of a string parameter with a literal character (returns node, text)."""
        if tok.forbid:
            g = N('lit', s=self.rng.choice('.:!'))
            return N('seq', items=[node, g]), tok.text + g.s
        return node, tok.text

    def hashwrap(self, n, name, params_text, rc):
        if getattr(n, 'hash', False):
            self.count('hash')
            return name + '#' + self.delimit_single(params_text, rc)
        return name + params_text

    def r_eval(self, n, rc):
        h = getattr(n, 'hash', False)
        t = self.ints([n.e, n.base, n.width], rc, force_brackets=h)
        return Tok(self.hashwrap(n, '#EVAL', t.text, rc), t.forbid)

    def r_peek(self, n, rc):
        h = getattr(n, 'hash', False)
        t = self.ints([n.addr], rc, force_brackets=h)
        return Tok(self.hashwrap(n, '#PEEK', t.text, rc), t.forbid)

    def r_chr(self, n, rc):
        t = self.ints([n.e, n.flags], rc)
        return Tok('#CHR' + t.text, t.forbid)

    def r_space(self, n, rc):
        if n.e is None:
            if self.rng.random() < 0.3:
                return Tok('#SPACE()')
            return Tok('#SPACE', F_BARE | F_UP)
        t = self.ints([n.e], rc)
        return Tok('#SPACE' + t.text, t.forbid)

    def r_pc(self, n, rc):
        return Tok('#PC', F_UP)

    def r_pops(self, n, rc):
        return Tok('#POPS', F_UP)

    def r_pushs(self, n, rc):
        return Tok('#PUSHS' + n.name, F_NAME | F_UP)

    def r_pokes(self, n, rc):
        parts = []
        last = None
        for g in n.groups:
            last = self.ints(list(g), rc)
            parts.append(last.text)
        return Tok('#POKES' + ';'.join(parts), last.forbid | frozenset(';'))

    def r_str(self, n, rc):
        t = self.ints([n.addr, n.flags, n.length], rc)
        s = '#STR' + t.text
        if n.end is not None:
            e = self.expr(n.end, dict(rc, strend=True, defflags=rc['defflags'] if rc['defflags'] is not None else 0)).text
            return Tok(s + '(' + e + ')')
        return Tok(s, t.forbid | F_PAREN)

    def r_n(self, n, rc):
        t = self.ints([n.e, n.hwidth, n.dwidth, n.affix, n.hex], rc)
        s = '#N' + t.text
        if n.prefix is None and n.suffix is None and not getattr(n, 'empty_affix', False):
            return Tok(s, t.forbid | F_PAREN)
        forbid = F_NONE
        args = []
        if n.prefix is not None:
            # the digits follow the prefix directly
            n.prefix, ptext = self.guard(n.prefix, self.text(n.prefix, rc))
            args.append(ptext)
        if n.suffix is not None:
            at = self.text(n.suffix, rc)
            forbid |= at.forbid
            args.append(at.text)
        if n.suffix is not None and n.prefix is None:
            args.insert(0, '')
        if not args:
            return Tok(s + '()')
        return Tok(s + self.delimit_multi(args, rc), forbid)

    def r_if(self, n, rc):
        t = self.ints([n.e], rc)
        tt = self.text(n.t, rc)
        args = [tt.text]
        forbid = tt.forbid
        if n.f is not None:
            ft = self.text(n.f, rc)
            args.append(ft.text)
            forbid |= ft.forbid
        return Tok(self.hashwrap_strings(n, '#IF', t.text, self.delimit_multi(args, rc), rc), forbid)

    def hashwrap_strings(self, n, name, ints_text, strings_text, rc):
        if getattr(n, 'hash', False):
            self.count('hash')
            return name + '#' + self.delimit_single(ints_text + strings_text, rc)
        return name + ints_text + strings_text

    def r_map(self, n, rc):
        h = getattr(n, 'hash', False)
        t = self.ints([n.key], rc, force_brackets=h)
        dt = self.text(n.default, rc)
        args = [dt.text]
        forbid = dt.forbid
        for k, v in n.pairs:
            kt = self.expr(k, rc if h else dict(rc, nofields=True)).text
            if ':' in kt:
                raise Reject('colon in key')
            vt = self.text(v, rc)
            forbid |= vt.forbid
            args.append(kt + ':' + vt.text)
        return Tok(self.hashwrap_strings(n, '#MAP', t.text, self.delimit_multi(args, rc), rc), forbid)

    def loop_strings(self, n, rc):
        """Renders (var, body, sep, fsep) of #FOR/#FOREACH; chooses the variable name. Returns the delimited text."""
        body_t = self.text(n.body, rc)
        n.body, body = self.guard(n.body, body_t)
        args = [None, body]
        if n.sep is not None or n.fsep is not None:
            if n.sep is None:
                sep = ''
            else:
                st = self.text(n.sep, rc)
                n.sep, sep = self.guard(n.sep, st)
            args.append(sep)
        if n.fsep is not None:
            ft = self.text(n.fsep, rc)
            n.fsep, fsep = self.guard(n.fsep, ft)
            args.append(fsep)
        ph = chr(0xE000 + n.id)
        nrefs = body.count(ph)
        everything = ''.join(a for a in args if a)
        cands = list(LOOPVARS)
        self.rng.shuffle(cands)
        if getattr(n, 'natural', False):
            nat = list(NATURAL_LOOPVARS)
            self.rng.shuffle(nat)
            cands = nat + cands
        name = None
        escaped = html_escape(everything)
        for c in cands:
            if c in everything or c in escaped:
                # also not inside the entity a separator character becomes in HTML mode ('m' in '&amp;'): #FOR with
                # flag 4 replaces the name in the separator, which in HTML mode is still in escaped form (the listed
                # separator-escaping mechanism would then show as a mangled entity instead of a doubled one)
                continue
            if any(c in u or u in c for u in self.used_loopvars):
                continue
            trial = everything.replace(ph, c)
            # overlapping count of the candidate in the substituted text must equal the number of references
            cnt = sum(1 for i in range(len(trial)) if trial.startswith(c, i))
            if cnt != everything.count(ph):
                continue
            name = c
            break
        if name is None:
            raise Reject('no loop variable name')
        self.used_loopvars.append(name)
        self.count('loopvar:' + ('natural' if name in NATURAL_LOOPVARS else 'reserved'))
        if len(args) > 2 and ph in (args[2] + (args[3] if len(args) > 3 else '')):
            raise Reject('loop variable in separator')
        args[0] = name
        args = [a.replace(ph, name) for a in args]
        n.nrefs = nrefs
        return self.delimit_multi(args, rc)

    def r_for(self, n, rc):
        t = self.ints([n.start, n.stop, n.step, n.flags], rc)
        return Tok('#FOR' + t.text + self.loop_strings(n, rc))

    def r_foreach(self, n, rc):
        vals = [self.text(v, rc).text for v in n.values]
        if len(vals) == 1 and (vals[0].startswith(('EREF', 'REF', 'ENTRY', 'POKE')) or vals[0] == ''):
            raise Reject('special variable')
        return Tok('#FOREACH' + self.delimit_multi(vals, rc) + self.loop_strings(n, rc))

    def r_foreachspecial(self, n, rc):
        d = self.rng.choice(['(', '(', '['])
        return Tok('#FOREACH' + d + n.spec + {'(': ')', '[': ']'}[d] + self.loop_strings(n, rc))

    def r_foreachpoke(self, n, rc):
        s = 'POKE' + n.name
        if n.index is not None:
            if n.index[0] == 'i':
                s += '[%d]' % n.index[1]
            else:
                s += '[%s:%s]' % ('' if n.index[1] is None else n.index[1], '' if n.index[2] is None else n.index[2])
        d = self.rng.choice(['(', '(', '['])
        if d == '[' and n.index is not None:
            d = '('
        return Tok('#FOREACH' + d + s + {'(': ')', '[': ']'}[d] + self.loop_strings(n, rc))

    def r_while(self, n, rc):
        c = self.expr(n.cond, rc).text
        bt = self.text(n.body, rc)
        n.body, body = self.guard(n.body, bt)
        pad1, pad2 = self.rng.choice(['', ' ', '  ']), self.rng.choice(['', ' '])
        return Tok('#WHILE(' + c + ')' + self.delimit_single(pad1 + body + pad2, rc))

    def r_let(self, n, rc):
        if n.name.endswith('$'):
            vt = self.text(n.v, dict(rc, brace=rc['brace']))
            n.v, v = self.guard(n.v, vt)
        else:
            v = self.expr(n.e, rc).text
        if getattr(n, 'key', None) is not None:
            raise Reject('use letk')
        return Tok('#LET' + self.delimit_single(n.name + '=' + v, rc))

    def r_letk(self, n, rc):
        kt = self.expr(n.key, rc).text
        if '=' in kt or ']' in kt:
            raise Reject('key text')
        if n.name.endswith('$'):
            vt = self.text(n.v, rc)
            n.v, v = self.guard(n.v, vt)
        else:
            v = self.expr(n.e, rc).text
        return Tok('#LET' + self.delimit_single('%s[%s]=%s' % (n.name, kt, v), rc))

    def r_letd(self, n, rc):
        strings = n.name.endswith('$')
        args = [self.text(n.default, rc).text if strings else self.expr(n.default, rc).text]
        for k, v in n.pairs:
            kt = self.expr(k, dict(rc, nofields=True)).text
            if ':' in kt:
                raise Reject('colon in key')
            if v is None:
                args.append(kt)
            elif strings:
                args.append(kt + ':' + self.text(v, rc).text)
            else:
                vt = self.expr(v, dict(rc, nofields=True)).text
                args.append(kt + ':' + vt)
        if any('{' in a or '}' in a for a in args):
            raise Reject('brace in dictionary definition')
        return Tok('#LET' + self.delimit_single(n.name + '[]=' + self.delimit_multi(args, dict(rc, brace=1)), dict(rc, brace=1)))

    def r_letcfg(self, n, rc):
        return Tok('#LET' + self.delimit_single('cfg[%s]=%s' % (n.key, n.value), dict(rc, brace=1)))

    def r_format(self, n, rc):
        inner = dict(rc, brace=rc['brace'] + 1)
        parts = []
        forbid = F_NONE
        for i, p in enumerate(n.parts):
            if p.k == 'fld':
                parts.append(self.field(p, rc, p.spec))
            elif p.k == 'lit':
                parts.append(p.s)
            else:
                n.parts[i], ptext = self.guard(p, self.text(p, inner))
                parts.append(ptext)
        s = ''.join(parts)
        if n.case is None:
            body = self.delimit_single(s, rc, allow_paren=False)
            return Tok('#FORMAT' + body, forbid)
        ct = self.ints([n.case], rc)
        if ct.text == '':
            raise Reject('case')
        return Tok('#FORMAT' + ct.text + self.delimit_single(s, rc), forbid)

    def r_def(self, n, rc):
        flags = n.flags
        brc = dict(rc, defflags=flags, dollar=(flags & 1 == 0), brace=rc['brace'] + (1 if flags & 1 else 0))
        sig = n.name
        if n.iparams or n.sparams:
            ip = []
            for name, default in n.iparams:
                ip.append(name if default is None else '%s%s=%s%s' % (name, self.sp(), self.sp(), default))
            sig += '(' + ','.join(ip) + ')'
            if n.sparams:
                sp = []
                for name, default in n.sparams:
                    if default is None:
                        sp.append(name)
                    else:
                        dt = self.text(default, brc).text
                        if bare_comma(dt) or not paren_ok(dt) or dt != dt.strip():
                            raise Reject('string default')
                        sp.append(name + '=' + dt)
                sig += '(' + ','.join(sp) + ')'
        bt = self.text(n.body, brc)
        n.body_forbid = bt.forbid
        body = bt.text
        if body != body.strip() or not body:
            raise Reject('body edges')
        if body[0] == '(' and not n.sparams:
            raise Reject('body starts with a bracket')
        s = sig + ' ' + body
        pad = self.rng.choice(['', '', ' '])
        if getattr(n, 'explicit_flags', False) or flags:
            ft = self.ints([N('num', v=flags)], rc)
            return Tok('#DEF' + ft.text + self.delimit_single(pad + s + pad, dict(rc, brace=0, dollar=False)))
        return Tok('#DEF' + self.delimit_single(pad + s + pad, dict(rc, brace=0, dollar=False)))

    def r_call(self, n, rc):
        d = n.defn
        forbid = getattr(d, 'body_forbid', F_NONE)
        s = n.name
        if d.iparams:
            names = [kw for kw, e in n.iargs]
            t = self.ints([e for kw, e in n.iargs], rc, names=names, allow_bare=not any(names) or self.rng.random() < 0.5,
                          force_brackets=bool(d.sparams and n.sargs is not None and not [1 for kw, e in n.iargs if e is not None]))
            s += t.text
            tail = t.forbid
        else:
            tail = F_UP
        if not d.sparams:
            return Tok(s, forbid | tail)
        alloptional = all(default is not None for name, default in d.sparams)
        if n.sargs is None:
            return Tok(s, forbid | tail | F_PAREN)
        args = []
        for a in n.sargs:
            at = self.text(a, rc)
            forbid |= at.forbid
            args.append(at.text)
        if len(d.sparams) == 1:
            if alloptional:
                if not paren_ok(args[0]):
                    raise Reject('optional string needs parentheses')
                return Tok(s + '(' + args[0] + ')', forbid)
            return Tok(s + self.delimit_single(args[0], rc), forbid)
        if alloptional:
            if any(bare_comma(a) for a in args) or not all(paren_ok(a) for a in args):
                raise Reject('optional strings need parentheses')
            return Tok(s + '(' + ','.join(args) + ')', forbid)
        return Tok(s + self.delimit_multi(args, rc), forbid)

def new_rc():
    return {'brace': 0, 'dollar': False, 'defflags': None}

# ====================================================================== tree generator

def lit(s):
    return N('lit', s=s)

def num(v, style='d', w=0):
    return N('num', v=v, style=style, w=w)

class ChunkGen:
    """Generates one chunk tree. cid: chunk-unique number; region: (address, 16) private bytes; ro: read-only
    facts about the file (rodata range, strings, global variables/macros)."""
    def __init__(self, rng, cid, region, ro, base_state, opts, hazard=None):
        self.rng = rng
        self.cid = cid
        self.region = region
        self.ro = ro
        self.opts = opts
        self.hazard = hazard
        self.ivars = {}         # name -> 'nn' | 'any'
        self.svars = []
        self.idicts = {}        # name -> list of keys
        self.sdicts = {}
        self.defs = []          # def nodes defined so far
        self.loops = []         # loop variables in scope: dict(id, numeric, nn)
        self.params = []        # def parameters in scope: (name, kind, nn)
        self.next_loop_id = 0
        self.in_def = None
        self.features = set()
        self.uses_pc = False
        self.nvar = 0
        self.cfg_custom = ro['cfg_mode'] == 'custom'
        self.pushed = []
        self.readonly = set()   # names defined by @expand (file-global): never reassigned by a chunk
        for name, cls in ro.get('g_ivars', {}).items():
            self.ivars[name] = cls
            self.readonly.add(name)
        for name in ro.get('g_svars', []):
            self.svars.append(name)
            self.readonly.add(name)
        self.defs.extend(ro.get('g_defs', []))
        self.plain_mode = 0     # > 0: no & < > in literals and no macro that expands to an HTML entity (value is stored in a string variable)

    # --------------------------------------------------------------- names
    def newname(self, kind):
        self.nvar += 1
        base = self.rng.choice(['a', 'c', 'v', 'cnt', 'x', 'tmp', 'w', 'p', 'acc'])
        return '%s%d%s%d' % (base, self.cid, 'abcdefghi'[self.nvar % 9], self.nvar) + ('$' if kind == 's' else '')

    def macname(self):
        self.nvar += 1
        n = self.cid * 40 + self.nvar
        s = ''
        while True:
            s = 'ABCDEFGHIKLMNOPRSTUVWXY'[n % 23] + s
            n //= 23
            if not n:
                break
        return '#Z' + s

    def snapname(self):
        self.nvar += 1
        return self.rng.choice(['s', 'snap', 'p', '$', 'x#', 'a1']) + str(self.cid) + 'abcdefgh'[self.nvar % 8]

    # --------------------------------------------------------------- literals
    def words(self, lo=1, hi=3, punct=0.3, plain=False):
        rng = self.rng
        out = []
        for i in range(rng.randint(lo, hi)):
            if i:
                out.append(' ')
            out.append(rng.choice(WORDS))
            if not plain and rng.random() < punct:
                out.append(rng.choice(PUNCT))
        s = ''.join(out)
        if self.in_def is not None or self.params:
            s = s.replace('$', '')
        return s

    def lit_text(self, plain=False, lo=1, hi=3):
        s = self.words(lo, hi, plain=plain or self.plain_mode > 0)
        return lit(s)

    def br(self):
        pairs = [('', ''), ('[', ']'), ('(', ')'), ('v=', ''), ('', '.')]
        if not self.plain_mode:
            pairs += [('<', '>'), ('<', '')]
        return self.rng.choice(pairs)

    def plain_word(self):
        return self.rng.choice(['up', 'down', 'left', 'right', 'one', 'two', 'Yes', 'No', 'on', 'off', 'x', 'y', '0', '1', '12', 'A', 'ok'])

    # --------------------------------------------------------------- expressions
    def small(self):
        rng = self.rng
        r = rng.random()
        if r < 0.5:
            return rng.randint(0, 12)
        if r < 0.8:
            return rng.randint(0, 300)
        return rng.choice([255, 256, 1000, 4095, 32768, 65535, 65536, 100000, 0])

    def gen_num(self, v=None):
        rng = self.rng
        if v is None:
            v = self.small()
        r = rng.random()
        if r < 0.65:
            return num(v)
        return num(v, rng.choice('Hh'), rng.choice([0, 0, 2, 4]))

    def addr_ro(self):
        a, ln = self.ro['rodata']
        return a + self.rng.randrange(ln)

    def atom(self, depth, want='any'):
        """An operand. want: 'nn' (non-negative by construction) or 'any'."""
        rng = self.rng
        choices = ['num'] * 5
        if self.ivars and not self.nofields():
            choices += ['fld'] * 4
        if self.idicts and not self.nofields():
            choices += ['dict'] * 2
        if not self.nofields():
            choices += ['builtin']
        if self.loops and any(l['numeric'] for l in self.loops):
            choices += ['var'] * 5
        if any(p[1] == 'i' for p in self.params):
            choices += ['par'] * 5
        if depth > 0:
            choices += ['mac'] * 3
        c = rng.choice(choices)
        if c == 'num':
            return self.gen_num(), 'nn'
        if c == 'fld':
            names = [n for n, s in self.ivars.items() if want == 'any' or s == 'nn']
            if names:
                name = rng.choice(names)
                self.features.add('field-in-expr')
                return N('fld', name=name), self.ivars[name]
            return self.gen_num(), 'nn'
        if c == 'dict':
            name = rng.choice(sorted(self.idicts))
            keys = self.idicts[name]
            key = rng.choice(keys) if keys and rng.random() < 0.7 else rng.randint(0, 9)
            self.features.add('dict-field')
            return N('fld', name=name, key=key), 'any'
        if c == 'builtin':
            self.features.add('builtin-field')
            r = rng.random()
            if r < 0.3:
                return N('fld', name='base'), 'nn'
            if r < 0.5:
                return N('fld', name='case'), 'nn'
            if r < 0.7:
                return N('fld', name='mode', key=rng.choice(['base', 'case'])), 'nn'
            return N('fld', name='vars', key=rng.choice(self.ro['cmdvar_names'] + ['undefd'])), 'nn'
        if c == 'var':
            l = rng.choice([l for l in self.loops if l['numeric']])
            l['refs'] = l.get('refs', 0) + 1
            return N('var', id=l['id'], paren=not l['nn']), ('nn' if l['nn'] else 'any')
        if c == 'par':
            p = rng.choice([p for p in self.params if p[1] == 'i'])
            return N('par', name=p[0], paren=not p[2]), ('nn' if p[2] else 'any')
        # macro yielding a canonical integer
        return self.int_macro(depth - 1)

    def nofields(self):
        return False

    def int_macro(self, depth):
        rng = self.rng
        self.features.add('macro-in-expr')
        r = rng.random()
        if r < 0.35:
            return N('mac', node=N('peek', addr=self.gen_addr_expr(depth))), 'nn'
        if r < 0.55:
            e, s = self.gen_expr(depth, want='any')
            return N('mac', node=N('eval', e=e, base=None, width=None), paren=True), s
        if r < 0.65 and self.allow_pc():
            self.uses_pc = True
            return N('mac', node=N('pc')), 'nn'
        if r < 0.8:
            c, _ = self.gen_cond(depth)
            a, b = rng.randint(0, 50), rng.randint(0, 50)
            return N('mac', node=N('if', e=c, t=lit(str(a)), f=lit(str(b)))), 'nn'
        if r < 0.9:
            k, _ = self.gen_expr(0, want='any')
            keys = rng.sample(range(0, 8), rng.randint(1, 3))
            pairs = [(self.gen_num(kv), lit(str(rng.randint(0, 99)))) for kv in keys]
            return N('mac', node=N('map', key=k, default=lit(str(rng.randint(0, 9))), pairs=pairs)), 'nn'
        # #FOR producing a sum/product chain
        a = rng.randint(0, 5)
        b = a + rng.randint(0, 4)
        lid = self.new_loop_id()
        self.features.add('for-sum-in-expr')
        return N('mac', node=N('for', start=num(a), stop=num(b), step=None, flags=None, id=lid, body=N('var', id=lid),
                                 sep=lit(rng.choice('+*')), fsep=None), paren=True), 'nn'

    def allow_pc(self):
        return self.in_def is None and not getattr(self, 'in_global', False)

    def gen_addr_expr(self, depth):
        rng = self.rng
        r = rng.random()
        a, ln = self.region
        if r < 0.35:
            return self.gen_num(a + rng.randrange(ln))
        if r < 0.6:
            return self.gen_num(self.addr_ro())
        if r < 0.7:
            c = self.rng.choice(self.ro['code_addrs'])
            return self.gen_num(c)
        if r < 0.85:
            off = rng.randrange(ln)
            return N('bin', op='+', a=self.gen_num(a), b=self.gen_num(off))
        nn_loops = [l for l in self.loops if l['numeric'] and l['nn'] and l.get('max', 99) < 8]
        if nn_loops:
            l = rng.choice(nn_loops)
            l['refs'] = l.get('refs', 0) + 1
            return N('bin', op='+', a=self.gen_num(a), b=N('var', id=l['id']))
        return self.gen_num(a + rng.randrange(ln))

    def gen_expr(self, depth, want='any', size=None):
        """Returns (expr, sign class)."""
        rng = self.rng
        if size is None:
            size = rng.choice([0, 1, 1, 2, 2, 3])
        if size == 0:
            return self.atom(depth, want)
        op = rng.choice(['+', '+', '-', '*', '*', '/', '%', '**', '&', '|', '^', '<<', '>>', 'cmp', 'neg', 'grp'])
        if op == 'cmp':
            return self.gen_cmp(depth)
        if op == 'neg':
            if want == 'nn':
                return self.gen_expr(depth, want, size - 1)
            a, _ = self.gen_expr(depth, 'any', size - 1)
            return N('neg', a=a), 'any'
        if op == 'grp':
            a, s = self.gen_expr(depth, want, size - 1)
            return N('grp', a=a), s
        ls = rng.randint(0, size - 1)
        rs = size - 1 - ls
        if op in ('+', '*'):
            a, sa = self.gen_expr(depth, want, ls)
            b, sb = self.gen_expr(depth, want, rs)
            return N('bin', op=op, a=a, b=b), ('nn' if sa == sb == 'nn' else 'any')
        if op == '-':
            if want == 'nn':
                # literal operands ordered so that the result is not negative
                x, y = sorted([self.small(), self.small()])
                return N('bin', op='-', a=self.gen_num(y), b=self.gen_num(x)), 'nn'
            a, sa = self.gen_expr(depth, 'any', ls)
            b, sb = self.gen_expr(depth, 'any', rs)
            return N('bin', op='-', a=a, b=b), 'any'
        if op in ('/', '%'):
            a, _ = self.gen_expr(depth, 'nn', ls)
            b = self.gen_num(rng.choice([1, 2, 3, 7, 8, 10, 16, 100, 256]))
            return N('bin', op=op, a=a, b=b), 'nn'
        if op == '**':
            a = self.gen_num(rng.randint(0, 12)) if rng.random() < 0.6 else self.atom(depth, want)[0]
            b = self.gen_num(rng.randint(0, 4))
            if want == 'nn' and a.k != 'num':
                a = self.gen_num(rng.randint(0, 12))
            return N('bin', op='**', a=a, b=b), ('nn' if a.k == 'num' else 'any')
        if op in ('&', '|', '^'):
            a, _ = self.gen_expr(depth, 'nn', ls)
            b, _ = self.gen_expr(depth, 'nn', rs)
            return N('bin', op=op, a=a, b=b), 'nn'
        a, _ = self.gen_expr(depth, 'nn', ls)
        b = self.gen_num(rng.randint(0, 8))
        return N('bin', op=op, a=a, b=b), 'nn'

    def gen_cmp(self, depth):
        rng = self.rng
        a, _ = self.gen_expr(depth, 'any', rng.choice([0, 0, 1]))
        b, _ = self.gen_expr(depth, 'any', rng.choice([0, 0, 1]))
        return N('bin', op=rng.choice(CMP), a=a, b=b), 'nn'

    def gen_cond(self, depth):
        """Expression used for its truth value."""
        rng = self.rng
        r = rng.random()
        self.features.add('condition')
        if r < 0.45:
            return self.gen_cmp(depth)
        if r < 0.7:
            a, _ = self.gen_cond(depth) if rng.random() < 0.5 else self.gen_cmp(depth)
            b, _ = self.gen_cmp(depth)
            self.features.add('boolean-op')
            return N('bin', op=rng.choice(['&&', '||']), a=a, b=b), 'nn'
        if r < 0.8:
            # && / || on arbitrary integers: only the truth value is defined
            a, _ = self.gen_expr(depth, 'any', 1)
            b, _ = self.gen_expr(depth, 'any', 0)
            self.features.add('boolean-op')
            return N('bin', op=rng.choice(['&&', '||']), a=a, b=b), 'any'
        return self.gen_expr(depth, 'any')

    def gen_value_expr(self, depth, want='any'):
        """Expression used for its value: Boolean operators only on 0/1 operands."""
        rng = self.rng
        if rng.random() < 0.08:
            a, _ = self.gen_cmp(depth)
            b, _ = self.gen_cmp(depth)
            self.features.add('boolean-op')
            return N('bin', op=rng.choice(['&&', '||']), a=N('grp', a=a) if rng.random() < 0.5 else a, b=b), 'nn'
        return self.gen_expr(depth, want)

    # --------------------------------------------------------------- pure text macros
    def new_loop_id(self):
        self.next_loop_id += 1
        return self.cid * 64 % 4096 + self.next_loop_id

    def gen_pure(self, depth, inloop=False):
        """A side-effect-free text node (macro or literal)."""
        rng = self.rng
        if depth <= 0:
            return self.leaf()
        kinds = ['eval'] * 5 + ['n'] * 4 + ['if'] * 4 + ['map'] * 3 + ['for'] * 4 + ['foreach'] * 3 + ['peek'] * 3 + ['chr'] * 2 + \
                ['space', 'str', 'str', 'seq', 'seq', 'lit']
        if self.svars or self.ivars or self.idicts or self.sdicts:
            kinds += ['format'] * 5
        else:
            kinds += ['format']
        if self.allow_pc():
            kinds += ['pc']
        if [d for d in self.defs if d.pure]:
            kinds += ['call'] * 5
        k = rng.choice(kinds)
        return getattr(self, 'g_' + k)(depth)

    def leaf(self):
        rng = self.rng
        r = rng.random()
        if self.loops and r < 0.4:
            l = rng.choice(self.loops)
            l['refs'] = l.get('refs', 0) + 1
            return N('var', id=l['id'])
        sp = [p for p in self.params]
        if sp and r < 0.6:
            p = rng.choice(sp)
            if p[1] == 's' and self.loops:
                return self.lit_text()
            return N('par', name=p[0], skind=p[1])
        return self.lit_text()

    def g_lit(self, depth):
        return self.lit_text()

    def g_seq(self, depth):
        rng = self.rng
        items = []
        for i in range(rng.randint(2, 3)):
            if rng.random() < 0.4:
                items.append(self.lit_text(hi=2))
            else:
                items.append(self.gen_pure(depth - 1) if rng.random() < 0.5 else self.gen_pure(depth))
        return N('seq', items=items)

    def g_eval(self, depth):
        rng = self.rng
        self.features.add('EVAL')
        e, s = self.gen_value_expr(depth - 1)
        base = width = None
        if rng.random() < 0.6:
            base = self.gen_num(rng.choice([2, 10, 16, 16]))
        if rng.random() < 0.4 and s == 'nn':
            width = self.gen_num(rng.choice([1, 2, 4, 8, 16]))
        n = N('eval', e=e, base=base, width=width)
        if s != 'nn':
            n.width = None
        if rng.random() < 0.25 and self.contains_mac(e) and not self.loops and not self.params:
            n.hash = True
            self.features.add('hash')
        return n

    def contains_mac(self, e):
        if e is None:
            return False
        if e.k == 'mac':
            return e.node.k in ('peek', 'eval', 'pc')
        return any(self.contains_mac(getattr(e, a, None)) for a in ('a', 'b')) if e.k in ('bin', 'neg', 'grp') else False

    def g_n(self, depth):
        rng = self.rng
        self.features.add('N')
        e, _ = self.gen_value_expr(depth - 1, 'nn')
        n = N('n', e=e, hwidth=None, dwidth=None, affix=None, hex=None, prefix=None, suffix=None)
        if rng.random() < 0.4:
            n.hwidth = self.gen_num(rng.choice([1, 2, 3, 4, 6]))
        if rng.random() < 0.4:
            n.dwidth = self.gen_num(rng.choice([1, 2, 3, 5]))
        if rng.random() < 0.5:
            n.hex = self.gen_num(rng.choice([0, 1, 1]))
        if rng.random() < 0.45:
            n.affix = self.gen_num(1)
            r = rng.random()
            pre = lit(rng.choice(['0x', '$', 'hx', 'hex ', '&' if not self.plain_mode else 'x'])) if depth <= 1 or rng.random() < 0.7 else self.gen_pure(depth - 1)
            suf = lit(rng.choice(['h', 'H', ' hex', '.'])) if depth <= 1 or rng.random() < 0.7 else self.gen_pure(depth - 1)
            if self.in_def is not None:
                pre = lit(rng.choice(['0x', 'hex ']))
            if r < 0.5:
                n.prefix = pre
            elif r < 0.7:
                n.suffix = suf
            elif r < 0.95:
                n.prefix, n.suffix = pre, suf
            else:
                n.empty_affix = True
        elif rng.random() < 0.1:
            n.affix = self.gen_num(0)
        return n

    def g_if(self, depth):
        rng = self.rng
        self.features.add('IF')
        c, _ = self.gen_cond(depth - 1)
        t = self.gen_pure(depth - 1)
        f = self.gen_pure(depth - 1) if rng.random() < 0.75 else None
        return N('if', e=c, t=t, f=f)

    def g_map(self, depth):
        rng = self.rng
        self.features.add('MAP')
        k, _ = self.gen_value_expr(depth - 1)
        if rng.random() < 0.6:
            # make hits likely
            k = N('bin', op='%', a=N('grp', a=k) if k.k != 'num' else k, b=self.gen_num(rng.choice([2, 3, 4, 5])))
            if self.expr_sign(k.a) != 'nn':
                k = self.gen_num(rng.randint(0, 4))
        keys = rng.sample(range(0, 6), rng.randint(1, 4))
        pairs = []
        for kv in keys:
            ke = self.gen_num(kv) if rng.random() < 0.7 else N('bin', op='+', a=self.gen_num(kv - kv // 2), b=self.gen_num(kv // 2))
            pairs.append((ke, self.gen_pure(depth - 1) if rng.random() < 0.4 else lit(self.plain_word())))
        n = N('map', key=k, default=self.gen_pure(depth - 1) if rng.random() < 0.3 else lit(rng.choice(['?', 'none', '-', ''])), pairs=pairs)
        if rng.random() < 0.12 and not self.loops and not self.params and self.in_def is None and not self.plain_mode:
            # 'keys may also be expressed using skool macros, but then the entire parameter string must be enclosed by a #() macro'
            n.hash = True
            n.key = self.gen_num(rng.randint(0, 5))
            n.default = lit(rng.choice(['?', 'none']))
            n.pairs = [(N('mac', node=N('eval', e=N('bin', op='+', a=self.gen_num(kv), b=self.gen_num(0)), base=None, width=None)) if rng.random() < 0.5
                        else N('mac', node=N('if', e=self.gen_num(1), t=lit(str(kv)), f=None)), lit(self.plain_word())) for kv in keys]
            self.features.add('hash')
            self.features.add('MAP-macro-keys')
        return n

    def expr_sign(self, e):
        """Conservative static sign class of an expression tree."""
        k = e.k
        if k == 'num':
            return 'nn'
        if k == 'grp':
            return self.expr_sign(e.a)
        if k == 'fld':
            if getattr(e, 'key', None) is not None and e.name not in ('mode', 'vars'):
                return 'any'
            return self.ivars.get(e.name, 'nn' if e.name in ('base', 'case', 'mode', 'vars') else 'any')
        if k == 'var':
            for l in self.loops:
                if l['id'] == e.id:
                    return 'nn' if l['nn'] else 'any'
            return 'any'
        if k == 'par':
            for p in self.params:
                if p[0] == e.name:
                    return 'nn' if p[2] else 'any'
            return 'any'
        if k == 'mac':
            return 'nn' if e.node.k in ('peek', 'pc', 'if', 'map', 'for') else 'any'
        if k == 'bin':
            if e.op in ('+', '*'):
                return 'nn' if self.expr_sign(e.a) == 'nn' and self.expr_sign(e.b) == 'nn' else 'any'
            if e.op in ('-',):
                return 'any'
            if e.op == '**':
                return self.expr_sign(e.a)
            return 'nn'
        return 'any'

    def g_for(self, depth):
        rng = self.rng
        self.features.add('FOR')
        lid = self.new_loop_id()
        r = rng.random()
        literal_bounds = True
        if r < 0.6:
            a = rng.randint(0, 6)
            cnt = rng.randint(1, 5)
            step = rng.choice([1, 1, 1, 2, 3])
            b = a + (cnt - 1) * step + (rng.randint(0, step - 1) if rng.random() < 0.2 else 0)
            start, stop = self.gen_num(a), self.gen_num(b)
            stepn = None if step == 1 and rng.random() < 0.7 else self.gen_num(step)
            nn = True
            mx = b
        elif r < 0.8:
            # descending / negative
            a = rng.randint(-3, 8)
            cnt = rng.randint(1, 5)
            step = rng.choice([1, 2])
            b = a - (cnt - 1) * step
            start = self.gen_num(a) if a >= 0 else N('neg', a=self.gen_num(-a))
            stop = self.gen_num(b) if b >= 0 else N('neg', a=self.gen_num(-b))
            stepn = N('neg', a=self.gen_num(step))
            nn = b >= 0
            mx = a
        else:
            # bounds from expressions (state-dependent)
            start, _ = self.gen_expr(depth - 1, 'nn', 1)
            stop = N('bin', op='+', a=N('grp', a=start) if start.k == 'bin' else start, b=self.gen_num(rng.randint(0, 4)))
            start = self.clone(start)
            stepn = None
            nn = False
            mx = 99
            literal_bounds = False
        flags = None
        fl = 0
        if rng.random() < 0.35:
            fl = rng.choice([1, 2, 3, 4, 5, 6, 7])
            flags = self.gen_num(fl)
        loop = {'id': lid, 'numeric': True, 'nn': nn, 'max': mx}
        self.loops.append(loop)
        body = self.gen_body(depth - 1, loop)
        self.loops.pop()
        sep = fsep = None
        if rng.random() < 0.7:
            sep = self.gen_sep(depth - 1)
            if rng.random() < 0.4:
                fsep = self.gen_sep(depth - 1, final=True)
        elif rng.random() < 0.15:
            fsep = self.gen_sep(depth - 1, final=True)
        n = N('for', start=start, stop=stop, step=stepn, flags=flags, id=lid, body=body, sep=sep, fsep=fsep)
        if literal_bounds and not self.loops and self.in_def is None and rng.random() < 0.5:
            n.natural = True
        return n

    def clone(self, e):
        if e is None:
            return None
        c = N(e.k, **{k: v for k, v in e.__dict__.items() if k != 'k'})
        for a in ('a', 'b'):
            if hasattr(c, a) and isinstance(getattr(c, a), N):
                setattr(c, a, self.clone(getattr(c, a)))
        return c

    def gen_sep(self, depth, final=False):
        rng = self.rng
        if self.hazard == 'esc' and rng.random() < 0.7:
            self.features.add('hazard:escaped-char-in-separator')
            self.hazard_hit = True
            return lit(rng.choice([' < ', '<', ' & ', '&', ' > ', '>', ' <> ']))
        r = rng.random()
        if final:
            if r < 0.2:
                self.features.add('blank-final-separator')
                return lit('')          # present but blank: honoured as written ("defaults to sep" applies to an omitted one only)
            return lit(rng.choice([' and ', ' or ', ' & '.replace('&', '+'), '; '.replace(';', ':'), ' - ']))
        if r < 0.75:
            return lit(rng.choice([', ', ',', ' ', '/', '-', ' | ', ':', '; '.replace(';', '.'), '+', ' ']))
        if depth > 0 and r < 0.85 and not self.plain_mode:
            return N('seq', items=[self.g_chr_safe(), lit('')]) if rng.random() < 0.5 else N('space', e=None if rng.random() < 0.5 else self.gen_num(rng.randint(1, 3)))
        return lit('')

    def g_chr_safe(self):
        return N('chr', e=self.gen_num(self.rng.choice([44, 45, 47, 58, 124, 183, 8226])), flags=None)

    def gen_body(self, depth, loop):
        """Loop body: must reference the loop variable at least once (else the loop is trivial but still legal)."""
        rng = self.rng
        for _ in range(4):
            before = loop.get('refs', 0)
            r = rng.random()
            if r < 0.25:
                b1, b2 = self.br()
                body = N('seq', items=[lit(b1), N('var', id=loop['id']), lit(b2)])
                loop['refs'] = before + 1
            elif r < 0.5:
                body = self.gen_pure(max(depth, 1))
            else:
                body = N('seq', items=[self.gen_pure(max(depth, 1)), self.lit_text(hi=1) if rng.random() < 0.3 else lit('')])
            if loop.get('refs', 0) > before or rng.random() < 0.1:
                return body
        return N('var', id=loop['id'])

    def g_foreachspecial(self, depth):
        """#FOREACH over a special variable that names entries of the file: ENTRY[types], REFaddr, EREFaddr. The expected
        values come from what the generator knows about the file it is writing."""
        rng = self.rng
        fm = self.ro['filemap']
        lid = self.new_loop_id()
        k = rng.random()
        if k < 0.45 or not fm['ref']:
            types = rng.choice(['', 'c', 'b', 't', 'bc', 'tb', 'cbt', 'g', 'w'])
            spec = 'ENTRY' + types
            expected = [str(a) for a, ctl in fm['entries'] if not types or ctl in types]
            self.features.add('FOREACH-ENTRY')
        elif k < 0.75:
            a = rng.choice(sorted(fm['ref']) + [e for e, ctl in fm['entries'][:2]])
            spec = 'REF' + (str(a) if rng.random() < 0.7 else '$%04X' % a)
            expected = [str(x) for x in fm['ref'].get(a, [])]
            self.features.add('FOREACH-REF')
        else:
            a = rng.choice(sorted(fm['eref']) + fm['instructions'][:3])
            spec = 'EREF' + (str(a) if rng.random() < 0.7 else '$%04x' % a)
            expected = [str(x) for x in fm['eref'].get(a, [])]
            self.features.add('FOREACH-EREF')
        loop = {'id': lid, 'numeric': True, 'nn': True, 'max': 65535}
        self.loops.append(loop)
        body = self.gen_body(depth - 1, loop)
        self.loops.pop()
        sep = fsep = None
        if rng.random() < 0.8:
            sep = self.gen_sep(depth - 1)
            if rng.random() < 0.4:
                fsep = self.gen_sep(depth - 1, final=True)
        return N('foreachspecial', spec=spec, expected=expected, id=lid, body=body, sep=sep, fsep=fsep)

    def g_foreach(self, depth):
        rng = self.rng
        if self.ro.get('filemap') and not self.hazard and rng.random() < 0.25:
            return self.g_foreachspecial(depth)
        self.features.add('FOREACH')
        lid = self.new_loop_id()
        numeric = rng.random() < 0.5
        cnt = rng.randint(1, 4)
        if numeric:
            vals = [lit(str(rng.randint(0, 40))) for _ in range(cnt)]
        else:
            vals = [lit(self.plain_word()) for _ in range(cnt)]
            if self.hazard == 'esc' and rng.random() < 0.6:
                vals[rng.randrange(cnt)] = lit(rng.choice(['a&b', 'x<y', 'p>r', '<b>']))
                self.features.add('hazard:escaped-char-in-foreach-value')
                self.hazard_hit = True
        if len(vals) == 1 and vals[0].k == 'lit' and vals[0].s.upper().startswith(('E', 'R', 'P')):
            vals[0] = lit('x' + vals[0].s)
            numeric = False
        loop = {'id': lid, 'numeric': numeric, 'nn': numeric, 'max': 40}
        self.loops.append(loop)
        body = self.gen_body(depth - 1, loop)
        self.loops.pop()
        sep = fsep = None
        if rng.random() < 0.7:
            sep = self.gen_sep(depth - 1)
            if rng.random() < 0.4:
                fsep = self.gen_sep(depth - 1, final=True)
        return N('foreach', values=vals, id=lid, body=body, sep=sep, fsep=fsep)

    def g_peek(self, depth):
        self.features.add('PEEK')
        return N('peek', addr=self.gen_addr_expr(depth - 1))

    def g_chr(self, depth):
        rng = self.rng
        if self.plain_mode:
            return self.lit_text()
        self.features.add('CHR')
        r = rng.random()
        if r < 0.25:
            return N('chr', e=self.gen_num(rng.choice([94, 96, 127])), flags=self.gen_num(rng.choice([2, 3])))
        code = rng.choice([33, 36, 38, 42, 48, 60, 62, 64, 65, 90, 97, 122, 126, 163, 169, 174, 255, 256, 960, 8364, 8593, 9731, 94, 96])
        flags = None if rng.random() < 0.5 else self.gen_num(rng.choice([0, 1, 1]))
        if self.in_def is not None and code == 36:
            code = 37
        return N('chr', e=self.gen_num(code), flags=flags)

    def g_space(self, depth):
        rng = self.rng
        if self.plain_mode:
            return self.lit_text()
        self.features.add('SPACE')
        if rng.random() < 0.3:
            return N('space', e=None)
        e = self.gen_num(rng.randint(1, 9))
        if rng.random() < 0.3:
            e = N('bin', op='+', a=e, b=self.gen_num(rng.randint(0, 3)))
        return N('space', e=e)

    def g_pc(self, depth):
        self.features.add('PC')
        self.uses_pc = True
        return N('pc')

    def g_str(self, depth):
        rng = self.rng
        self.features.add('STR')
        s = rng.choice(self.ro['strings'])
        flags = rng.choice([0, 0, 1, 2, 3, 4, 5, 7])
        if self.plain_mode:
            flags &= 3
        n = N('str', addr=self.gen_num(s['addr']), flags=None, length=None, end=None)
        if s['kind'] == 'end':
            n.flags = self.gen_num(flags | 8)
            eb = s['endbyte']
            n.end = N('bin', op=rng.choice(['==', '==', '>=']) if eb == 255 else '==', a=N('par', name='b'), b=self.gen_num(eb))
            if self.in_def is not None:
                return self.lit_text()
        elif s['kind'] == 'len' or rng.random() < 0.25:
            ln = rng.randint(0, len(s['text']))
            n.flags = self.gen_num(flags)
            n.length = self.gen_num(ln)
        elif flags or rng.random() < 0.3:
            n.flags = self.gen_num(flags)
        return n

    def g_format(self, depth):
        rng = self.rng
        self.features.add('FORMAT')
        parts = []
        nf = 0
        lower_ok = True
        for i in range(rng.randint(1, 4)):
            r = rng.random()
            if r < 0.3:
                parts.append(lit(self.words(1, 2, plain=rng.random() < 0.5).replace('{', '').replace('}', '')))
            else:
                f = self.gen_field()
                if f is not None:
                    parts.append(f)
                    nf += 1
        case = None
        r = rng.random()
        if r < 0.25:
            case = self.gen_num(rng.choice([1, 2]))
            self.features.add('FORMAT-case')
            # no & < > ' " in text that is case-converted: inside a loop they are HTML entities by then (see finding
            # C17-loop-apostrophe-entity-uppercased-in-html)
            parts = [p for p in parts if p.k == 'fld' or not set(p.s) & set('&<>\'"')]
        elif r < 0.5:
            case = self.gen_num(0)
        if case is None or case.v == 0:
            if depth > 1 and rng.random() < 0.3 and not self.loops and not self.params:
                parts.insert(rng.randint(0, len(parts)), self.g_eval(depth - 1))
        if not parts:
            parts = [lit('x')]
        return N('format', case=case, parts=parts)

    def gen_field(self):
        rng = self.rng
        pool = []
        for name in self.ivars:
            pool.append(('i', name, None))
        for name, keys in self.idicts.items():
            pool.append(('i', name, rng.choice(keys) if keys and rng.random() < 0.7 else rng.randint(0, 9)))
        for name in self.svars:
            pool.append(('s', name, None))
        for name, keys in self.sdicts.items():
            pool.append(('s', name, rng.choice(keys) if keys and rng.random() < 0.7 else rng.randint(0, 9)))
        pool.append(('i', 'base', None))
        pool.append(('i', 'case', None))
        pool.append(('i', 'mode', rng.choice(['base', 'case'])))
        pool.append(('i', 'vars', rng.choice(self.ro['cmdvar_names'] + ['nosuch'])))
        kind, name, key = rng.choice(pool)
        if kind == 'i':
            spec = rng.choice(['', '', 'd', 'X', 'x', '02X', '04x', 'b', '08b', '03d', '+d', ',', '^7', '*^6', '5', '05'])
            if self.hazard == 'fmt-angle' and rng.random() < 0.8:
                spec = rng.choice(['>5', '<5', '>04', '*<6', '0>4'])
                self.features.add('hazard:angle-bracket-in-format-spec')
                self.hazard_hit = True
        else:
            spec = rng.choice(['', '', 's', '.2', '^9', '7', '.1s'])
            if self.hazard == 'fmt-angle' and rng.random() < 0.8:
                spec = rng.choice(['>9', '<9', '->8'])
                self.features.add('hazard:angle-bracket-in-format-spec')
                self.hazard_hit = True
        self.features.add('format-field')
        return N('fld', name=name, key=key, spec=spec)

    def g_call(self, depth):
        if self.plain_mode:
            return self.lit_text()
        d = self.rng.choice([d for d in self.defs if d.pure])
        return self.make_call(d, depth)

    def make_call(self, d, depth):
        rng = self.rng
        self.features.add('DEF-call')
        iargs = []
        nreq = len([1 for nm, df in d.iparams if df is None])
        npos = len(d.iparams)
        # optional trailing arguments may be omitted
        while npos > nreq and rng.random() < 0.4:
            npos -= 1
        usekw = d.iparams and rng.random() < 0.4
        kwstart = rng.randint(0, npos) if usekw else npos
        given = []
        for i, (nm, df) in enumerate(d.iparams[:npos]):
            want = 'nn' if d.nn_params else 'any'
            e, s = self.gen_value_expr(max(depth - 1, 0), want)
            if d.nn_params and self.expr_sign(e) != 'nn':
                e = self.gen_num()
            if d.small_params:
                e = self.gen_num(rng.randint(0, 6))
            given.append((nm, e))
        if usekw:
            self.features.add('keyword-args')
            pos = given[:kwstart]
            kws = given[kwstart:]
            # keyword arguments may skip optional parameters and come in any order
            kws = [g for g in kws if d.iparams[[p[0] for p in d.iparams].index(g[0])][1] is None or rng.random() < 0.7]
            rng.shuffle(kws)
            iargs = [(None, e) for nm, e in pos] + [(nm, e) for nm, e in kws]
        else:
            iargs = [(None, e) for nm, e in given]
            # a blank optional positional argument takes its default
            for i in range(nreq, len(iargs) - 1):
                if rng.random() < 0.2:
                    iargs[i] = (None, None)
        sargs = None
        if d.sparams:
            nsreq = len([1 for nm, df in d.sparams if df is None])
            ns = len(d.sparams)
            while ns > nsreq and rng.random() < 0.4:
                ns -= 1
            if ns == 0:
                sargs = None
            else:
                sargs = []
                for i in range(ns):
                    if rng.random() < 0.15:
                        sargs.append(lit(''))
                    else:
                        sargs.append(lit(rng.choice(['', '', ' ']) + ' '.join(self.plain_word() for _ in range(rng.randint(1, 2))) + rng.choice(['', '', ' ', '  '])))
        return N('call', name=d.name, defn=d, iargs=iargs, sargs=sargs)

    # --------------------------------------------------------------- statements (state-changing)
    def stmt_let_int(self, depth):
        rng = self.rng
        self.features.add('LET-int')
        own = sorted(set(self.ivars) - self.readonly)
        if own and rng.random() < 0.35:
            name = rng.choice(own)
        else:
            name = self.newname('i')
        want = rng.choice(['nn', 'nn', 'any'])
        e, s = self.gen_value_expr(depth - 1, want)
        if want == 'nn' and self.expr_sign(e) != 'nn':
            s = 'any'
        prev = self.ivars.get(name)
        n = N('let', name=name, e=e)
        self.after = lambda: self.ivars.__setitem__(name, 'nn' if (s == 'nn' and self.expr_sign(e) == 'nn' and prev in (None, 'nn')) else 'any')
        return n

    def stmt_let_str(self, depth):
        rng = self.rng
        self.features.add('LET-str')
        own = [v for v in self.svars if v not in self.readonly]
        if own and rng.random() < 0.3:
            name = rng.choice(own)
        else:
            name = self.newname('s')
        parts = []
        for i in range(rng.randint(1, 3)):
            r = rng.random()
            if r < 0.5:
                parts.append(lit(self.words(1, 2, plain=True)))
            elif r < 0.75 and depth > 1:
                self.plain_mode += 1
                p = self.gen_pure(depth - 1)
                self.plain_mode -= 1
                parts.append(p)
            else:
                f = self.gen_field()
                if f is not None and not (f.name == name):
                    parts.append(f)
        if not parts:
            parts = [lit('v')]
        if self.hazard == 'let-space':
            parts = [lit(rng.choice([' ', '  ']))] + parts if rng.random() < 0.5 else parts + [lit(' ')]
            self.features.add('hazard:let-string-edge-space')
            self.hazard_hit = True
        else:
            # no whitespace at the edges of the value (see finding C17-let-string-edge-whitespace)
            if parts[0].k == 'lit':
                parts[0] = lit(parts[0].s.lstrip() or 'v')
            if parts[-1].k == 'lit':
                parts[-1] = lit(parts[-1].s.rstrip() or 'v')
            if parts[0].k not in ('lit', 'fld'):
                parts.insert(0, lit('='))
            if parts[-1].k not in ('lit', 'fld'):
                parts.append(lit('.'))
        n = N('let', name=name, v=N('seq', items=parts))
        self.after = lambda: (name in self.svars) or self.svars.append(name)
        return n

    def stmt_let_dict(self, depth):
        rng = self.rng
        strings = rng.random() < 0.5
        name = self.newname('s' if strings else 'i')
        self.features.add('LET-dict')
        keys = rng.sample(range(0, 10), rng.randint(0, 4))
        pairs = []
        for kv in keys:
            ke = self.gen_num(kv) if rng.random() < 0.7 else N('bin', op='*', a=self.gen_num(1), b=num(kv))
            if rng.random() < 0.2:
                pairs.append((num(kv), None))
            elif strings:
                pairs.append((ke, lit(self.plain_word())))
            else:
                pairs.append((ke, self.gen_num() if rng.random() < 0.8 else N('bin', op='-', a=self.gen_num(rng.randint(0, 5)), b=self.gen_num(rng.randint(0, 9)))))
        default = lit(rng.choice(['?', 'none', '', 'n/a'.replace('n', 'N')])) if strings else self.gen_num(rng.choice([0, 0, 1, 255]))
        n = N('letd', name=name, default=default, pairs=pairs)
        self.after = lambda: (self.sdicts if strings else self.idicts).__setitem__(name, list(keys))
        return n

    def stmt_let_key(self, depth):
        rng = self.rng
        pool = [(n, 'i') for n in self.idicts] + [(n, 's') for n in self.sdicts]
        if not pool:
            return self.stmt_let_dict(depth)
        name, kind = rng.choice(sorted(pool))
        self.features.add('LET-dict-key')
        kv = rng.randint(0, 9)
        key = self.gen_num(kv) if rng.random() < 0.6 else N('bin', op='+', a=self.gen_num(kv), b=self.gen_num(0))
        if kind == 's':
            n = N('letk', name=name, key=key, v=lit(self.plain_word()))
            self.after = lambda: self.sdicts[name].append(kv)
        else:
            e, _ = self.gen_value_expr(depth - 1)
            n = N('letk', name=name, key=key, e=e)
            self.after = lambda: self.idicts[name].append(kv)
        return n

    def stmt_def(self, depth):
        rng = self.rng
        self.features.add('DEF')
        flags = rng.choice([0, 0, 0, 1, 1, 2, 3])
        name = self.macname()
        ni = rng.choice([0, 1, 1, 2, 2, 3])
        names = rng.sample(PARAM_NAMES, ni + 2)
        iparams = []
        opt = False
        for i in range(ni):
            if opt or rng.random() < 0.3:
                opt = True
                iparams.append((names[i], rng.randint(0, 9)))
            else:
                iparams.append((names[i], None))
        ns = rng.choice([0, 0, 0, 1, 1, 2])
        sparams = []
        sopt = False
        self.in_def = flags
        saved_loops, self.loops = self.loops, []
        nn_params = rng.random() < 0.6
        small_params = rng.random() < 0.3
        self.params = [(nm, 'i', nn_params) for nm, df in iparams]
        for i in range(ns):
            nm = names[ni + i]
            if sopt or rng.random() < 0.4:
                sopt = True
                r = rng.random()
                if r < 0.4 and iparams:
                    default = N('par', name=rng.choice(iparams)[0])
                elif r < 0.5:
                    default = lit('')
                else:
                    default = lit(self.plain_word())
                sparams.append((nm, default))
            else:
                sparams.append((nm, None))
        self.params += [(nm, 's', False) for nm, df in sparams]
        own = sorted(set(self.ivars) - self.readonly)
        impure = rng.random() < 0.25 and own and flags & 2 == 0 and not getattr(self, 'globals_only', False)
        if impure:
            # documented example: #DEF1(#ADD(amount) #LET(count={{count}}+{amount}))
            var = rng.choice(own)
            if self.params and self.params[0][1] == 'i':
                rhs = N('bin', op='+', a=N('fld', name=var), b=N('par', name=self.params[0][0], paren=not nn_params))
            else:
                rhs = N('bin', op='+', a=N('fld', name=var), b=self.gen_num(rng.randint(1, 5)))
            body = N('seq', items=[N('let', name=var, e=rhs)])
            self.ivars[var] = 'any' if not nn_params else self.ivars[var]
            self.features.add('DEF-impure')
        else:
            items = []
            for i in range(rng.randint(1, 2)):
                items.append(self.gen_pure(max(depth - 1, 1)))
            # the body is stripped and (flags & 2) its expansion too: keep solid characters at the edges
            body = N('seq', items=[lit(rng.choice(['<', '[', 'r=', '*', '']))] + items + [lit(rng.choice(['>', ']', '.', '*']))])
            if body.items[0].s == '' and items[0].k in ('lit', 'space', 'chr', 'str', 'var', 'par', 'seq', 'if', 'map', 'for', 'foreach', 'format', 'call'):
                body.items[0] = lit('=')
            if flags & 2 and rng.random() < 0.6:
                # 'strip leading and trailing whitespace from the output of the defined macro': give the output real edge spaces
                def edge():
                    sp_ = [p for p in self.params if p[1] == 's']
                    if sp_ and rng.random() < 0.5:
                        return N('par', name=rng.choice(sp_)[0], skind='s')
                    c, _ = self.gen_cmp(0)
                    return N('if', e=c, t=lit(rng.choice([' yes ', ' on', 'y  '])), f=lit(rng.choice([' no ', 'off ', '  n'])))
                if rng.random() < 0.7:
                    body.items.insert(0, edge())
                if rng.random() < 0.7:
                    body.items.append(edge())
                self.features.add('DEF-strip-edges')
        self.params = []
        self.loops = saved_loops
        self.in_def = None
        d = N('def', name=name, flags=flags, iparams=iparams, sparams=sparams, body=body, pure=not impure,
              nn_params=nn_params, small_params=small_params, explicit_flags=rng.random() < 0.3 or (not iparams) or impure)
        self.after = lambda: self.defs.append(d)
        return d

    def stmt_while(self, depth):
        rng = self.rng
        self.features.add('WHILE')
        name = self.newname('i')
        k = rng.randint(0, 5)
        init = N('let', name=name, e=self.gen_num(k))
        up = rng.random() < 0.3
        if up:
            limit = k + rng.randint(0, 4)
            init = N('let', name=name, e=self.gen_num(k))
            cond = N('bin', op=rng.choice(['<', '!=']), a=N('fld', name=name), b=self.gen_num(limit))
            update = N('let', name=name, e=N('bin', op='+', a=N('fld', name=name), b=self.gen_num(1)))
        else:
            cond = N('bin', op='>', a=N('fld', name=name), b=self.gen_num(0))
            if rng.random() < 0.3:
                cond = N('fld', name=name)
            update = N('let', name=name, e=N('bin', op='-', a=N('fld', name=name), b=self.gen_num(1)))
        self.ivars[name] = 'nn'
        out = rng.choice(['eval', 'format', 'pure'])
        if out == 'eval':
            core = N('eval', e=N('fld', name=name), base=None, width=None)
        elif out == 'format':
            core = N('format', case=self.gen_num(0), parts=[N('fld', name=name, key=None, spec=rng.choice(['', '02X', 'b']))])
        else:
            core = N('seq', items=[lit('['), self.gen_pure(max(depth - 1, 1)), lit(']')])
        items = [core, update] if rng.random() < 0.7 else [update, core]
        if rng.random() < 0.5:
            items.insert(1, lit(' '))
        body = N('seq', items=[lit(rng.choice(['', ' ']))] + items + [lit(rng.choice(['', ' ', '|']))])
        self.after = lambda: None
        return N('seq', items=[init, N('while', cond=cond, body=body)])

    def stmt_pokes(self, depth, within_push):
        rng = self.rng
        self.features.add('POKES')
        a, ln = self.region
        groups = []
        for i in range(rng.randint(1, 3)):
            off = rng.randrange(ln)
            byte = rng.randint(0, 255)
            length = step = None
            r = rng.random()
            if r < 0.3:
                length = rng.randint(1, 4)
                if rng.random() < 0.5:
                    step = rng.randint(1, 3)
                while off + (length - 1) * (step or 1) >= ln:
                    off = rng.randrange(ln)
                    length = max(1, length - 1)
            addr = self.gen_num(a + off) if rng.random() < 0.8 else N('bin', op='+', a=self.gen_num(a), b=self.gen_num(off))
            be = self.gen_num(byte)
            if rng.random() < 0.15 and self.ivars:
                nm = [n for n, s in self.ivars.items() if s == 'nn']
                if nm:
                    be = N('bin', op='&', a=N('fld', name=rng.choice(nm)), b=self.gen_num(255))
            groups.append((addr, be, None if length is None else self.gen_num(length), None if step is None else self.gen_num(step)))
        self.after = lambda: None
        return N('pokes', groups=groups)

    def reads(self, depth):
        """A few reads of the private region / whole string."""
        rng = self.rng
        a, ln = self.region
        items = []
        for i in range(rng.randint(1, 3)):
            off = rng.randrange(ln)
            items.append(N('peek', addr=self.gen_num(a + off)))
            items.append(lit(rng.choice([' ', ',', '/', ' '])))
        if rng.random() < 0.3:
            lid = self.new_loop_id()
            lo = rng.randrange(ln - 3)
            items.append(N('for', start=self.gen_num(a + lo), stop=self.gen_num(a + lo + rng.randint(0, 3)), step=None, flags=None, id=lid,
                           body=N('peek', addr=N('var', id=lid)), sep=lit(','), fsep=None))
        return items

    # --------------------------------------------------------------- whole chunk
    CFG_FORMATS = {
        'poke': ['POKE {addr},{byte}', '{addr}:{byte}', 'P({addr})={byte}', '${addr:04X},${byte:02X}'],
        'pokes': ['FOR n={start} TO {end}: POKE n,{byte}: NEXT n', '{start}-{end}:{byte}', '[{start}..{end}]={byte}'],
        'pokes-step': ['FOR n={start} TO {end} STEP {step}: POKE n,{byte}: NEXT n', '{start}-{end}/{step}:{byte}'],
    }

    def sep_item(self, items, p=0.6):
        if self.rng.random() < p:
            items.append(lit(self.rng.choice([' ', ' ', ' / ', ': ', ' - ', '. '])))

    def add_stmt(self, items, node):
        items.append(node)
        after, self.after = getattr(self, 'after', None), None
        if after:
            after()

    def pick_depth(self):
        return self.rng.choice([1, 2, 2, 3, 3, 4, 4])

    def gen_poke_list(self, items, name):
        rng = self.rng
        self.features.add('FOREACH-POKE')
        index = None
        r = rng.random()
        if r < 0.2:
            index = ('i', rng.randint(0, 2))
        elif r < 0.45:
            a = rng.choice([None, 0, 1])
            b = rng.choice([None, 1, 2, 3])
            index = ('s', a, b)
        lid = self.new_loop_id()
        body = N('seq', items=[lit(rng.choice(['', '[', '<'])), N('var', id=lid), lit(rng.choice(['', ']', '>']))])
        sep = lit(rng.choice(['; '.replace(';', '|'), ' / ', ', ']))
        fsep = lit(' and ') if rng.random() < 0.3 else None
        items.append(N('foreachpoke', name=name, index=index, id=lid, body=body, sep=sep, fsep=fsep))

    def gen_mem(self, items, depth):
        rng = self.rng
        a, ln = self.region
        push = rng.random() < 0.7
        if push:
            self.features.add('PUSHS-POPS')
            named = rng.random() < 0.7
            name = self.snapname() if named else ''
            use_list = named and rng.random() < 0.6
            if use_list and self.cfg_custom:
                for key in ('poke', 'pokes', 'pokes-step'):
                    items.append(N('letcfg', key=key, value=rng.choice(self.CFG_FORMATS[key])))
                self.features.add('LET-cfg')
            if rng.random() < 0.5:
                items.extend(self.reads(depth))
            items.append(N('pushs', name=name))
            items.append(self.stmt_pokes(depth, True))
            items.extend(self.reads(depth))
            if use_list and rng.random() < 0.6:
                self.gen_poke_list(items, name)
            if rng.random() < 0.3:
                self.features.add('PUSHS-nested')
                name2 = self.snapname()
                items.append(N('pushs', name=name2))
                items.append(self.stmt_pokes(depth, True))
                items.extend(self.reads(depth))
                items.append(N('pops'))
                items.extend(self.reads(depth))
            if rng.random() < 0.3:
                items.append(self.stmt_pokes(depth, True))
            items.append(N('pops'))
            items.append(lit(rng.choice([' ', ' restored: ', '/'])))
            items.extend(self.reads(depth))
            if use_list and rng.random() < 0.6:
                self.gen_poke_list(items, name)
        else:
            self.features.add('POKES-unsaved')
            items.append(N('pokes', groups=[(self.gen_num(a), self.gen_num(rng.randint(0, 255)), self.gen_num(ln), None)]))
            items.append(self.stmt_pokes(depth, False))
            items.extend(self.reads(depth))

    def generate(self):
        rng = self.rng
        items = []
        hz = self.hazard
        plan = rng.choice(['pure', 'vars', 'vars', 'vars', 'mem', 'mixed', 'mixed'])
        if hz == 'let-space':
            plan = 'vars'
        self.plan = plan
        if hz == 'quote-upper':
            # an apostrophe in the output string of a loop, case-converted by #FORMAT
            lid = self.new_loop_id()
            fmt = N('format', case=self.gen_num(rng.choice([2, 2, 1])), parts=[lit(rng.choice(["it's ", "player's ", "'", 'say "x" '])), N('var', id=lid)])
            if rng.random() < 0.5:
                loop = N('foreach', values=[lit(self.plain_word()) for _ in range(rng.randint(1, 3))], id=lid, body=fmt, sep=lit(', '), fsep=None)
            else:
                loop = N('for', start=self.gen_num(1), stop=self.gen_num(rng.randint(1, 3)), step=None, flags=None, id=lid, body=fmt, sep=lit(' '), fsep=None)
            self.features.add('hazard:quote-in-loop-output-case-converted')
            self.hazard_hit = True
            self.plan = 'pure'
            return N('seq', items=[lit(self.words(1, 2, plain=True) + ' '), loop])
        if plan in ('vars', 'mixed'):
            kinds = ['let_int'] * 5 + ['let_str'] * 3 + ['let_dict'] * 2 + ['let_key'] * 2 + ['def'] * 4 + ['while'] * 2
            nst = rng.randint(1, 4)
            for i in range(nst):
                k = rng.choice(kinds)
                if hz == 'let-space' and i == 0:
                    k = 'let_str'
                d = self.pick_depth()
                node = getattr(self, 'stmt_' + k)(d)
                self.add_stmt(items, node)
                if hz == 'let-space' and i == 0:
                    items += [lit('['), N('format', case=num(0), parts=[N('fld', name=node.name, key=None, spec='')]), lit(']')]
                if k == 'def' and not node.pure:
                    # call the impure macro (statement level) and read the variable it changes
                    for j in range(rng.randint(1, 2)):
                        items.append(self.make_call(node, 1))
                        items.append(lit(rng.choice([' ', '.'])))
                    var = node.body.items[0].name
                    items.append(N('eval', e=N('fld', name=var), base=None, width=None))
                elif rng.random() < 0.45:
                    self.sep_item(items)
                    items.append(self.gen_pure(self.pick_depth()))
                self.sep_item(items, 0.3)
        if plan in ('mem', 'mixed'):
            self.gen_mem(items, self.pick_depth())
        for i in range(rng.randint(1, 3) if plan != 'mem' else rng.randint(0, 1)):
            self.sep_item(items)
            items.append(self.gen_pure(self.pick_depth()))
        return N('seq', items=items)


def tree_depth(n):
    """Macro nesting depth of a tree (literals and references count 0)."""
    if n is None or not isinstance(n, N):
        return 0
    k = n.k
    kids = []
    for key, v in n.__dict__.items():
        if key in ('k', 'defn'):
            continue
        if isinstance(v, N):
            kids.append(v)
        elif isinstance(v, (list, tuple)):
            for x in v:
                if isinstance(x, N):
                    kids.append(x)
                elif isinstance(x, (list, tuple)):
                    kids.extend(y for y in x if isinstance(y, N))
    d = max([tree_depth(c) for c in kids] or [0])
    if k in ('lit', 'seq', 'var', 'par', 'fld', 'num', 'bin', 'neg', 'grp', 'mac'):
        return d
    return d + 1

class Chunk:
    def __init__(self, cid, text, tree, gen, stats):
        self.cid = cid
        self.text = text
        self.tree = tree
        self.features = sorted(gen.features)
        self.uses_pc = gen.uses_pc
        self.hazard = gen.hazard if getattr(gen, 'hazard_hit', False) else None
        self.plan = gen.plan
        self.depth = tree_depth(tree)
        self.stats = stats

def evaluate(tree, base_state, opts, pc):
    st = base_state.copy()
    ev = Evaluator(st, opts['base'], opts['case'], opts['cmdvars'], pc)
    out = ev.text(tree, Env())
    return out, st, ev

def make_chunk(rng, cid, region, ro, base_state, opts, hazard=None, tries=60):
    """Returns a Chunk whose expansion is defined, idempotent and leaves the snapshot stack balanced."""
    last = None
    for attempt in range(tries):
        g = ChunkGen(rng, cid, region, ro, base_state, opts, hazard)
        try:
            tree = g.generate()
            r = Renderer(rng)
            text = r.text(tree, new_rc()).text
            if re.search('[\ue000-\uf8ff]', text):
                raise Reject('unresolved loop variable placeholder')
            if '\n' in text:
                raise Reject('newline')
            if hazard and not getattr(g, 'hazard_hit', False):
                raise Reject('hazard not exercised')
            if tree_depth(tree) > 4:
                raise Reject('nested deeper than the quantifier of the property (4)')
            # the value must be defined, and the same when the text is expanded again on the state it left behind
            # (the writers expand some fields more than once), at every address the text can be attached to
            for pc in (ro['code_addrs'] if g.uses_pc else [12345]):
                out1, st, ev = evaluate(tree, base_state, opts, pc)
                if st.stack:
                    raise Reject('unbalanced snapshot stack')
                ev2 = Evaluator(st, opts['base'], opts['case'], opts['cmdvars'], pc)
                out2 = ev2.text(tree, Env())
                if out1 != out2 or st.stack:
                    raise Reject('not idempotent')
                if len(text) > 1500 or len(out1) > 3000:
                    raise Reject('too long')
            return Chunk(cid, text, tree, g, r.stats)
        except (Reject, Undefined) as e:
            last = e
            continue
    raise RuntimeError('could not generate a chunk (last: %r)' % (last,))

# ====================================================================== skool file

INSTRUCTIONS = [('NOP', [0]), ('RET', [0xC9]), ('XOR A', [0xAF]), ('INC B', [0x04]), ('LD A,%d', [0x3E, None]), ('LD B,%d', [0x06, None]),
                ('DEC C', [0x0D]), ('CPL', [0x2F])]

STR_ALPHABET = 'ABCDEFGHIKLMNOPRSTUVWXYabcdefghiklmnoprstuvwxy0123456789  .!?-:'

class Slot:
    def __init__(self, kind, pc):
        self.kind = kind
        self.pc = pc
        self.cid = None
        self.pid = None

def gen_strings(rng, mem, addr):
    strings = []
    lines = []
    for i in range(6):
        n = rng.randint(1, 12)
        text = ''.join(rng.choice(STR_ALPHABET) for _ in range(n))
        if rng.random() < 0.5:
            text = rng.choice(['', ' ', '  ']) + text + rng.choice(['', ' ', '   '])
        if rng.random() < 0.4:
            k = rng.randrange(len(text) + 1)
            text = text[:k] + ' ' * rng.randint(2, 4) + text[k:]
        kind = ['zero', 'bit7', 'end', 'zero', 'bit7', 'end'][i]
        data = [ord(c) for c in text]
        if kind == 'zero':
            lines.append((addr, 'DEFM "%s",0' % text, len(data) + 1))
            stored = data + [0]
            strings.append({'addr': addr, 'text': text, 'kind': 'zero'})
        elif kind == 'bit7':
            last = text[-1]
            lines.append((addr, ('DEFM "%s","%s"+128' % (text[:-1], last)) if len(text) > 1 else 'DEFM "%s"+128' % last, len(data)))
            stored = data[:-1] + [data[-1] | 128]
            strings.append({'addr': addr, 'text': text, 'kind': 'bit7'})
        else:
            eb = rng.choice([255, 255, 13, 1])
            lines.append((addr, 'DEFM "%s",%d' % (text, eb), len(data) + 1))
            stored = data + [eb]
            strings.append({'addr': addr, 'text': text, 'kind': 'end', 'endbyte': eb})
        mem[addr:addr + len(stored)] = bytes(stored)
        addr += len(stored)
    return strings, lines

PLAIN = ['Plain text.', 'Nothing here', 'Routine', 'Data block', 'Used by the routine above']

def make_file(rng, nchunks, hazard=None, nentries=None, forced_opts=None):
    """Builds one skool file carrying nchunks chunks. Returns dict(skool, slots, chunks, opts, argv_common, base_state)."""
    opts = {'base': rng.choice([0, 0, 10, 16, 16]), 'case': rng.choice([0, 0, 1, 2]), 'cmdvars': {'foo': rng.randint(0, 9), 'bar': rng.choice([255, 300, 65535])}}
    if forced_opts:
        opts.update(forced_opts)
    mem = bytearray(65536)
    CODE0, RO, TEXT, PRIV = 30000, 40000, 41000, 50000
    # --- entries with instruction lists
    if nentries is None:
        nentries = max(1, (nchunks * 3 + 13) // 14)
    entries = []
    refs = []
    addr = CODE0
    code_addrs = []
    for e in range(nentries):
        ctl = rng.choice('ccb')
        ins = []
        for i in range(rng.randint(2, 4)):
            if ctl == 'c':
                op, enc = rng.choice(INSTRUCTIONS)
                enc = list(enc)
                if None in enc:
                    v = rng.randint(0, 255)
                    op = op % v
                    enc[enc.index(None)] = v
            else:
                vals = [rng.randint(0, 255) for _ in range(rng.randint(1, 4))]
                op, enc = 'DEFB ' + ','.join(map(str, vals)), vals
            ins.append((addr, op, enc))
            mem[addr:addr + len(enc)] = bytes(enc)
            code_addrs.append(addr)
            addr += len(enc)
        if ctl == 'c' and rng.random() < 0.6:
            # a jump or call to an instruction of an earlier code entry (its first instruction or an entry point inside it)
            targets = [(x[0], pe) for pe in entries if pe['ctl'] == 'c' for x in pe['ins']]
            for _ in range(rng.randint(1, 2)):
                if targets:
                    t, pe = rng.choice(targets)
                    opn, code = rng.choice([('CALL', 0xCD), ('JP', 0xC3), ('CALL NZ,', 0xC4), ('JP Z,', 0xCA)])
                    op = '%s%s%d' % (opn, '' if opn.endswith(',') else ' ', t)
                    enc = [code, t & 0xFF, t >> 8]
                    ins.append((addr, op, enc))
                    mem[addr:addr + 3] = bytes(enc)
                    code_addrs.append(addr)
                    addr += 3
                    refs.append((ins[0][0], t, pe['ins'][0][0]))
        entries.append({'ctl': ctl, 'ins': ins})
    filemap = {'entries': [(e['ins'][0][0], e['ctl']) for e in entries] + [(RO, 'b'), (TEXT, 't'), (PRIV, 'b')],
               'instructions': [x[0] for e in entries for x in e['ins']], 'ref': {}, 'eref': {}}
    for src, t, te in refs:
        filemap['eref'].setdefault(t, set()).add(src)
        filemap['ref'].setdefault(te, set()).add(src)
    filemap['ref'] = {k: sorted(v) for k, v in filemap['ref'].items()}
    filemap['eref'] = {k: sorted(v) for k, v in filemap['eref'].items()}
    ro_len = 64
    for i in range(ro_len):
        mem[RO + i] = rng.choice([0, 1, 127, 128, 255, rng.randint(0, 255), rng.randint(0, 255)])
    strings, strlines = gen_strings(rng, mem, TEXT)
    for c in range(nchunks):
        for i in range(16):
            mem[PRIV + 16 * c + i] = rng.randint(0, 255)
    ro = {'rodata': (RO, ro_len), 'strings': strings, 'code_addrs': code_addrs, 'cmdvar_names': sorted(opts['cmdvars']),
          'cfg_mode': rng.choice(['default', 'custom']), 'filemap': filemap}
    base_state = State(mem)
    # --- globals defined by @expand (read-only for the chunks): #LET and #DEF that precede every comment field
    expands = []
    if rng.random() < 0.6 and not hazard:
        for attempt in range(20):
            try:
                gg = ChunkGen(rng, 900 + attempt, (RO, 16), ro, base_state, opts)
                gg.globals_only = True
                gg.in_global = True
                nodes = []
                for k in rng.sample(['let_int', 'let_int', 'let_str', 'def'], rng.randint(1, 3)):
                    gg.in_def = None
                    node = getattr(gg, 'stmt_' + k)(2)
                    gg.add_stmt(nodes, node)
                if gg.uses_pc:
                    raise Reject('pc in a global')
                st = base_state.copy()
                texts = []
                r = Renderer(rng)
                for node in nodes:
                    t = r.text(N('seq', items=[node]), new_rc()).text
                    if re.search('[\ue000-\uf8ff]', t) or t != t.strip():
                        raise Reject('placeholder')
                    texts.append(t)
                    Evaluator(st, opts['base'], opts['case'], opts['cmdvars'], 0).text(node, Env())
                base_state = st
                expands = texts
                ro['g_ivars'] = dict(gg.ivars)
                ro['g_svars'] = list(gg.svars)
                ro['g_defs'] = list(gg.defs)
                break
            except (Reject, Undefined):
                continue
    # --- chunks
    chunks = []
    for c in range(nchunks):
        chunks.append(make_chunk(rng, c, (PRIV + 16 * c, 16), ro, base_state, opts, hazard))
    # --- slots
    slots = []
    for e in entries:
        first = e['ins'][0][0]
        last = e['ins'][-1][0]
        e['title'] = Slot('title', first)
        e['desc'] = [Slot('description', first) for _ in range(rng.randint(1, 2))]
        e['regs'] = [Slot('register', first) for _ in range(rng.randint(0, 2))]
        e['start'] = Slot('start-comment', first) if e['regs'] and rng.random() < 0.6 else None
        e['mid'] = {}
        e['com'] = {}
        for i, (a, op, enc) in enumerate(e['ins']):
            if i and rng.random() < 0.5:
                e['mid'][a] = Slot('mid-block', a)
            if rng.random() < 0.8:
                e['com'][a] = Slot('instruction', a)
        e['end'] = Slot('end-comment', last) if rng.random() < 0.6 else None
        slots += [e['title']] + e['desc'] + e['regs'] + ([e['start']] if e['start'] else []) + list(e['mid'].values()) + list(e['com'].values()) + ([e['end']] if e['end'] else [])
    order = list(slots)
    rng.shuffle(order)
    if len(order) < nchunks:
        raise RuntimeError('not enough slots')
    npl = {}
    for c, s in zip(range(nchunks), order):
        s.cid = c
    rest = order[nchunks:]
    for s in rest:
        if rng.random() < 0.75:
            # place an existing chunk a second/third time, preferably at a different kind of position
            cands = [c for c in range(nchunks) if npl.get(c, 1) < 3]
            if not cands:
                break
            c = rng.choice(cands)
            s.cid = c
            npl[c] = npl.get(c, 1) + 1
    pid = 0
    for s in slots:
        if s.cid is not None:
            s.pid = pid
            pid += 1

    def txt(s, plain=None):
        if s is None or s.cid is None:
            return plain if plain is not None else rng.choice(PLAIN)
        pre = rng.choice(['', '', 'See ', 'x '])
        post = rng.choice(['', '', ' end', '.'])
        return '%s:s%d_%d:%s:e%d_%d:%s' % (pre, s.cid, s.pid, chunks[s.cid].text, s.cid, s.pid, post)

    lines = ['@start']
    for x in expands:
        lines.append('@expand=' + x)
    regnames = ['A', 'HL', 'BC', 'DE', 'IX']
    for e in entries:
        lines.append('; ' + txt(e['title']))
        lines.append(';')
        for i, d in enumerate(e['desc']):
            if i:
                lines.append('; .')
            lines.append('; ' + txt(d))
        if e['regs']:
            lines.append(';')
            for i, r in enumerate(e['regs']):
                lines.append('; %s %s' % (regnames[i], txt(r)))
            if e['start']:
                lines.append(';')
                lines.append('; ' + txt(e['start']))
        for i, (a, op, enc) in enumerate(e['ins']):
            if a in e['mid']:
                lines.append('; ' + txt(e['mid'][a]))
            c = e['com'].get(a)
            lines.append('%s%05d %s%s' % (e['ctl'] if i == 0 else ' ', a, op, ' ; ' + txt(c) if c is not None else ''))
        if e['end']:
            lines.append('; ' + txt(e['end']))
        lines.append('')
    lines.append('; Read-only data')
    for i in range(0, ro_len, 8):
        lines.append('%s%05d DEFB %s' % ('b' if i == 0 else ' ', RO + i, ','.join(str(b) for b in mem[RO + i:RO + i + 8])))
    lines.append('')
    lines.append('; Messages')
    for i, (a, op, ln) in enumerate(strlines):
        lines.append('%s%05d %s' % ('t' if i == 0 else ' ', a, op))
    lines.append('')
    lines.append('; Private regions')
    for c in range(nchunks):
        a = PRIV + 16 * c
        lines.append('%s%05d DEFB %s' % ('b' if c == 0 else ' ', a, ','.join(str(b) for b in mem[a:a + 16])))
    lines.append('')
    argv = []
    if opts['base'] == 10:
        argv.append('-D')
    elif opts['base'] == 16:
        argv.append('-H')
    if opts['case'] == 1:
        argv.append('-l')
    elif opts['case'] == 2:
        argv.append('-u')
    for k, v in sorted(opts['cmdvars'].items()):
        argv += ['--var', '%s=%d' % (k, v)]
    return {'skool': '\n'.join(lines) + '\n', 'slots': [s for s in slots if s.cid is not None], 'chunks': chunks, 'opts': opts, 'argv': argv,
            'base_state': base_state, 'ro': ro}
