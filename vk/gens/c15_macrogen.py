"""Builds image-macro texts (#UDG, #UDGARRAY, #SCR, #FONT) together with the memory contents they read and
the tile array the SkoolKit documentation says they denote. No skoolkit import.

Only forms whose documented meaning is unambiguous are produced: rectangular arrays with exactly
width x height tiles, scale >= 1, crop origin inside the image, tindex 0..15, alpha -1 or 0..255.
"""
from vk.gens import c15_imggen

class Mem:
    """64K memory image with a bump allocator."""
    def __init__(self, rng, base, limit=65536, random_fill=True):
        self.rng = rng
        self.mem = bytearray(rng.randbytes(65536)) if random_fill else bytearray(65536)
        self.base = base
        self.top = base
        self.limit = limit

    def alloc(self, n):
        a = self.top
        if a + n > self.limit:
            raise MemoryError('generator ran out of address space')
        self.top += n
        return a

    def room(self):
        return self.limit - self.top

def _fmt_params(rng, first, names, values, defaults):
    """first: text of the leading required parameter(s); names/values/defaults: the optional ones."""
    nondefault = [i for i, (v, d) in enumerate(zip(values, defaults)) if v != d]
    style = rng.choice(('pos', 'kw', 'mix'))
    if not nondefault:
        if rng.random() < 0.2 and names:
            # spell out one default explicitly
            i = rng.randrange(len(names))
            if defaults[i] is not None and defaults[i] >= 0:
                return first + ',' * (i + 1) + str(values[i]) if style == 'pos' else '%s,%s=%d' % (first, names[i], values[i])
        return first
    if style == 'pos':
        last = nondefault[-1]
        parts = []
        for i in range(last + 1):
            if values[i] == defaults[i] and (rng.random() < 0.6 or values[i] is None or values[i] < 0):
                parts.append('')
            else:
                parts.append(str(values[i]))
        return first + ',' + ','.join(parts)
    if style == 'kw':
        order = list(nondefault)
        rng.shuffle(order)
        return first + ',' + ','.join('%s=%d' % (names[i], values[i]) for i in order)
    # positional up to a point, keywords for the rest
    cut = rng.randint(0, nondefault[-1])
    parts = []
    for i in range(cut):
        parts.append('' if values[i] == defaults[i] and (values[i] is None or values[i] < 0 or rng.random() < 0.5) else str(values[i]))
    kws = ['%s=%d' % (names[i], values[i]) for i in nondefault if i >= cut]
    rng.shuffle(kws)
    return first + ''.join(',' + p for p in parts) + ''.join(',' + k for k in kws)

def fmt_crop(rng, crop):
    x, y, w, h = crop
    vals = [x, y, w, h]
    defaults = [0, 0, None, None]
    if vals == defaults:
        return '' if rng.random() < 0.9 else '{}'
    if rng.random() < 0.3:
        names = ('x', 'y', 'width', 'height')
        items = ['%s=%d' % (n, v) for n, v, d in zip(names, vals, defaults) if v != d]
        rng.shuffle(items)
        return '{' + ','.join(items) + '}'
    last = max(i for i in range(4) if vals[i] != defaults[i])
    parts = []
    for i in range(last + 1):
        if vals[i] is None or (vals[i] == defaults[i] and rng.random() < 0.5):
            parts.append('')
        else:
            parts.append(str(vals[i]))
    return '{' + ','.join(parts) + '}'

def _store_tile(mem, addr, step, data, inc=0):
    for k in range(8):
        mem.mem[addr + k * step] = (data[k] - inc) & 255

def _place(mem, nbytes_step):
    return mem.alloc(7 * nbytes_step + 1)

def udg_macro(rng, mem, frame):
    """frame: a 1x1 frame spec from c15_imggen. Returns macro text without the '#UDG' prefix and filename."""
    attr, dhex, mhex = frame['tiles'][0]
    data = bytes.fromhex(dhex)
    step = rng.choice((1, 1, 2, 5, 32, 256 if mem.room() > 6000 else 3))
    inc = rng.choice((0, 0, 0, 1, 255, rng.randrange(256)))
    addr = _place(mem, step)
    _store_tile(mem, addr, step, data, inc)
    mask = frame['mask']
    mtxt = ''
    has_mask = False
    if mhex is not None:
        mstep = rng.choice((step, step, 1, 3))
        maddr = _place(mem, mstep)
        _store_tile(mem, maddr, mstep, bytes.fromhex(mhex))
        mtxt = ':%d' % maddr if mstep == step and rng.random() < 0.7 else ':%d,%d' % (maddr, mstep)
        has_mask = mask != 0
    names = ('attr', 'scale', 'step', 'inc', 'flip', 'rotate', 'mask', 'tindex', 'alpha')
    values = [attr, frame['scale'], step, inc, frame['flip'], frame['rotate'], mask, frame['tindex'], frame['alpha']]
    defaults = [56, 4, 1, 0, 0, 0, 1, 0, -1]
    text = _fmt_params(rng, str(addr), names, values, defaults) + mtxt + fmt_crop(rng, frame['crop'])
    tiles = [[(attr, list(data), list(bytes.fromhex(mhex)) if has_mask else None)]]
    return text, tiles

def udgarray_macro(rng, mem, frame):
    """Returns text without '#UDGARRAY' prefix and filename, and the denoted tile array (before flip/rotate)."""
    cols, rows = frame['cols'], frame['rows']
    flat = frame['tiles']
    n = len(flat)
    mask = frame['mask']
    gstep = rng.choice((1, 1, 1, 2, 3))
    ginc = rng.choice((0, 0, 0, 7, 255))
    gattr = rng.choice((56, flat[0][0], rng.randrange(256)))
    all_masked = all(m is not None for _, _, m in flat)
    none_masked = all(m is None for _, _, m in flat)
    same_attr = len({a for a, _, _ in flat}) == 1
    identical = len({(a, d, m) for a, d, m in flat}) == 1
    forms = ['each']
    if all_masked or none_masked or not mask:
        forms += ['range3', 'range4']
    if identical and n > 1:
        forms += ['repeat', 'repeat']
    form = rng.choice(forms)
    if form == 'each':
        use_attr_addrs = rng.random() < 0.15
    else:
        use_attr_addrs = (not same_attr) or rng.random() < 0.2
    attr_txt = ''
    specs = []
    with_masks = mask != 0 and not none_masked
    if form in ('range3', 'range4', 'repeat'):
        step = gstep
        size = 7 * step + 1
        mpart = ''
        if form == 'repeat':
            a0 = mem.alloc(size)
            addrs = [a0] * n
            maddrs = [None] * n
            spec = '%dx%d' % (a0, n)
            if with_masks:
                m0 = mem.alloc(size)
                maddrs = [m0] * n
                mpart = ':%dx%d' % (m0, n)
        else:
            h = size + rng.choice((0, 0, 1, 8))
            v = h * cols + (rng.choice((0, 3, 16)) if form == 'range4' else 0)
            a0 = mem.alloc(v * rows)
            addrs = [a0 + c * h + r * v for r in range(rows) for c in range(cols)]
            spec = '%d-%d-%d' % (a0, addrs[-1], h) if form == 'range3' else '%d-%d-%d-%d' % (a0, addrs[-1], h, v)
            maddrs = [None] * n
            if with_masks:
                m0 = mem.alloc(v * rows)
                maddrs = [m0 + c * h + r * v for r in range(rows) for c in range(cols)]
                mpart = ':' + ('%d-%d-%d' % (m0, maddrs[-1], h) if form == 'range3' else '%d-%d-%d-%d' % (m0, maddrs[-1], h, v))
        if use_attr_addrs:
            extra = ',%d' % rng.randrange(256) if rng.random() < 0.2 else ''
            tile_attrs = None
        else:
            sattr = flat[0][0]
            extra = ',%d' % sattr if (sattr != gattr or rng.random() < 0.2) else ''
            tile_attrs = [sattr] * n
        specs.append(spec + extra + mpart)
        for i, (a, d, m) in enumerate(flat):
            _store_tile(mem, addrs[i], step, bytes.fromhex(d), ginc)
            if maddrs[i] is not None:
                _store_tile(mem, maddrs[i], step, bytes.fromhex(m))
    else:
        tile_attrs = []
        for a, d, m in flat:
            step = rng.choice((gstep, gstep, 1, 4))
            inc = rng.choice((ginc, ginc, 0, 100))
            addr = _place(mem, step)
            _store_tile(mem, addr, step, bytes.fromhex(d), inc)
            tattr = a if not use_attr_addrs else rng.choice((a, gattr))
            parts = [tattr, step, inc]
            defaults = [gattr, gstep, ginc]
            last = max([i for i in range(3) if parts[i] != defaults[i]] or [-1])
            if last < 0 and rng.random() < 0.1:
                last = 0
            spec = str(addr)
            if last >= 0:
                spec += ',' + ','.join(str(parts[i]) if parts[i] != defaults[i] or rng.random() < 0.5 else '' for i in range(last + 1))
            if m is not None and (mask != 0 or rng.random() < 0.5):
                mstep = rng.choice((step, step, 1, 2))
                maddr = _place(mem, mstep)
                _store_tile(mem, maddr, mstep, bytes.fromhex(m))
                spec += ':%d' % maddr if mstep == step and rng.random() < 0.7 else ':%d,%d' % (maddr, mstep)
            specs.append(spec)
            tile_attrs.append(tattr)
    if use_attr_addrs:
        ab = mem.alloc(n)
        for i, (a, _, _) in enumerate(flat):
            mem.mem[ab + i] = a
        if n == 1:
            attr_txt = '[%d]' % ab
        elif rng.random() < 0.5:
            attr_txt = '[%d-%d]' % (ab, ab + n - 1)
        else:
            cut = rng.randint(1, n - 1)
            attr_txt = '[%d-%d;%d-%d]' % (ab, ab + cut - 1, ab + cut, ab + n - 1)
        tile_attrs = [a for a, _, _ in flat]
    names = ('attr', 'scale', 'step', 'inc', 'flip', 'rotate', 'mask', 'tindex', 'alpha')
    values = [gattr, frame['scale'], gstep, ginc, frame['flip'], frame['rotate'], mask, frame['tindex'], frame['alpha']]
    defaults = [56, 2, 1, 0, 0, 0, 1, 0, -1]
    text = _fmt_params(rng, str(cols), names, values, defaults) + '(' + ';'.join(specs) + ')' + attr_txt + fmt_crop(rng, frame['crop'])
    tiles = []
    for i, (a, d, m) in enumerate(flat):
        mm = list(bytes.fromhex(m)) if (m is not None and mask != 0) else None
        tiles.append((tile_attrs[i], list(bytes.fromhex(d)), mm))
    return text, [tiles[i:i + cols] for i in range(0, n, cols)]

def scr_macro(rng, mem, frame, default_addresses=False, max_third=3):
    """frame gives the tile array (no masks, no flip/rotate); it is stored in display-file layout."""
    cols, rows = frame['cols'], frame['rows']
    x = rng.randint(0, 32 - cols)
    y = rng.randint(0, 8 * max_third - rows)
    if default_addresses:
        df, af = 16384, 22528
    else:
        thirds = (y + rows - 1) // 8 + 1
        df = mem.alloc(2048 * thirds)
        af = mem.alloc(32 * (y + rows))
    tiles = c15_imggen.tiles_of(frame)
    for r in range(rows):
        for c in range(cols):
            a, d, _ = tiles[r][c]
            R, C = y + r, x + c
            mem.mem[af + 32 * R + C] = a
            for k in range(8):
                mem.mem[df + 2048 * (R // 8) + 32 * (R % 8) + 256 * k + C] = d[k]
    # w/h may exceed what is left of the screen: the documented screen is 32x24 tiles, the result is clamped
    w = cols if x + cols < 32 or rng.random() < 0.5 else cols + rng.randint(0, 3)
    h = rows if y + rows < 24 or rng.random() < 0.5 else rows + rng.randint(0, 3)
    names = ('scale', 'x', 'y', 'w', 'h', 'df', 'af', 'tindex', 'alpha')
    values = [frame['scale'], x, y, w, h, df, af, frame['tindex'], frame['alpha']]
    defaults = [1, 0, 0, 32, 24, 16384, 22528, 0, -1]
    nd = [i for i in range(9) if values[i] != defaults[i]]
    style = rng.choice(('pos', 'kw'))
    if not nd:
        text = ''
    elif style == 'pos':
        text = ','.join(str(values[i]) if values[i] != defaults[i] or (values[i] >= 0 and rng.random() < 0.5) else '' for i in range(nd[-1] + 1))
    else:
        rng.shuffle(nd)
        text = ','.join('%s=%d' % (names[i], values[i]) for i in nd)
    text += fmt_crop(rng, frame['crop'])
    return text, [[(a, list(d), None) for a, d, _ in row] for row in tiles], (x, y)

FONT_CHARS = 'ABCDEFGHIJKLMNOPQRSTUVWXYZabcdefghijklmnopqrstuvwxyz0123456789'

def font_macro(rng, mem, frame):
    """frame: a 1-row frame spec with a single attribute; tile i becomes character i of the text."""
    cols = frame['cols']
    attr = frame['tiles'][0][0]
    base = mem.alloc(96 * 8)
    use_chars = rng.random() < 0.3
    if use_chars:
        codes = list(range(32, 32 + cols))
    else:
        codes = [ord(c) for c in rng.sample(FONT_CHARS, min(cols, len(FONT_CHARS)))]
        cols = len(codes)
    tiles = []
    for i, code in enumerate(codes):
        d = bytes.fromhex(frame['tiles'][i][1])
        for k in range(8):
            mem.mem[base + 8 * (code - 32) + k] = d[k]
        tiles.append((attr, list(d), None))
    names = ('chars', 'attr', 'scale', 'tindex', 'alpha')
    values = [cols if use_chars else 0, attr, frame['scale'], frame['tindex'], frame['alpha']]
    defaults = [0, 56, 2, 0, -1]
    text = _fmt_params(rng, str(base), names, values, defaults)
    if not use_chars:
        text += '(' + ''.join(chr(c) for c in codes) + ')'
    text += fmt_crop(rng, frame['crop'])
    return text, [tiles]
