"""Generator of frame-manipulation macros (#COPY, #OVER, #PLOT) and of the #FRAMES macros that render the
result. No skoolkit import, no reference-model import: it reads the current frames as plain data
({'tiles': rows of [attr, data, mask|None], 'scale', 'mask', 'crop', 'tindex', 'alpha'}) so that it only asks
for what the documentation defines (see vk.ref.c15_overlay for the list of undefined input classes):

  #COPY   portion inside the old frame; scale 1..4, mask 0..2, tindex 0..15, alpha 0..255 or omitted; CROP omitted
          only when the old frame's crop origin also lies inside the new frame
  #OVER   x, y from "foreground completely left of / above the background" to "completely right of / below";
          xoffset, yoffset 0..7 and beyond (8..19), never negative (only the tile coordinates are documented
          to accept negative values); rmode 0..3; foreground with mask bytes on all UDGs or on none; $f in attr
          only when every foreground attribute that can meet a background UDG is the same; $m only when aligned
          to tiles with an all-masked foreground of mask type 1/2, or with a foreground without mask bytes;
          expressions fully parenthesised (operator precedence is not documented), decimal constants, values 0..255
  #PLOT   pixel inside the frame, value 0/1/2 or omitted; only frames whose crop origin is (0, 0)
"""
from vk.gens import c15_imggen as G
from vk.gens import c15_macrogen as MG

# ------------------------------------------------------------------ reading frames (plain data)

def dims(f):
    return len(f['tiles'][0]), len(f['tiles'])

def presence(f):
    have = [t[2] is not None for row in f['tiles'] for t in row]
    return 'all' if all(have) else ('none' if not any(have) else 'mixed')

def attrs(f):
    return {t[0] for row in f['tiles'] for t in row}

def full_size(f):
    c, r = dims(f)
    return 8 * c * f['scale'], 8 * r * f['scale']

def size(f):
    """Rendered (width, height), or None when the crop origin is outside the frame."""
    fw, fh = full_size(f)
    x, y, w, h = f['crop']
    x, y = x or 0, y or 0
    if x >= fw or y >= fh:
        return None
    return min(w or fw, fw - x), min(h or fh, fh - y)

# ------------------------------------------------------------------ parameter texts

def _ints(rng, required, optional, defaults, names, force_paren=False):
    """required: list of ints; optional: list of int|None (None = omitted, must then equal the default None)."""
    nondef = [i for i, (v, d) in enumerate(zip(optional, defaults)) if v != d]
    style = rng.choice(('pos', 'kw', 'mix'))
    parts = [str(v) for v in required]
    if nondef or (optional and rng.random() < 0.15):
        if style == 'pos' or not nondef:
            last = nondef[-1] if nondef else rng.randrange(len(optional))
            for i in range(last + 1):
                v = optional[i]
                if i == 0 and not required and v is not None:
                    parts.append(str(v))        # never start with an empty parameter
                elif v is None or (v == defaults[i] and rng.random() < 0.5):
                    parts.append('')
                else:
                    parts.append(str(v))
            while parts and parts[-1] == '' and len(parts) > len(required):
                parts.pop()
        elif style == 'kw':
            order = list(nondef)
            rng.shuffle(order)
            parts += ['%s=%d' % (names[len(required) + i], optional[i]) for i in order]
        else:
            cut = rng.randint(0, nondef[-1])
            for i in range(cut):
                v = optional[i]
                if i == 0 and not required and v is not None:
                    parts.append(str(v))
                else:
                    parts.append('' if v is None or (v == defaults[i] and rng.random() < 0.5) else str(v))
            kws = ['%s=%d' % (names[len(required) + i], optional[i]) for i in nondef if i >= cut]
            rng.shuffle(kws)
            parts += kws
    text = ','.join(parts)
    if not text:
        return ''
    if '-' in text or force_paren or rng.random() < 0.3:
        return '(' + text + ')'
    return text

def expr_text(rng, ast, top=True):
    """Fully parenthesised text of an expression AST."""
    if ast[0] == 'n':
        return str(ast[1])
    if ast[0] == 'v':
        return '$' + ast[1]
    sp = ' ' if rng.random() < 0.1 else ''
    t = expr_text(rng, ast[2], False) + sp + ast[1] + sp + expr_text(rng, ast[3], False)
    return t if top else '(' + t + ')'

def N(v):
    return ('n', v)

def V(name):
    return ('v', name)

def O(sym, a, b):
    return ('op', sym, a, b)

def gen_byte_expr(rng, allow_f, allow_m):
    b, f, m = V('b'), V('f'), V('m')
    k = N(rng.choice((0, 255, 85, 170, 15, 240, rng.randrange(256))))
    pool = [k, b, O('^', b, N(255)), O('-', N(255), b), O('&', b, k), O('|', b, k), O('^', b, k),
            O('&', O('<<', b, N(1)), N(255)), O('>>', b, N(rng.randint(1, 7))), O('&', O('*', b, N(3)), N(255)),
            O('%', b, N(rng.choice((16, 100, 255))))]
    if allow_f:
        pool += [f, O('|', b, f), O('&', b, f), O('^', b, f), O('&', O('+', b, f), N(255)), O('|', O('>>', f, N(1)), b),
                 O('^', f, N(255)), O('&', b, O('^', f, N(255))), O('|', O('&', b, k), f), f, O('|', b, f), O('^', b, f)]
    if allow_m:
        if rng.random() < 0.5:
            pool = []
        pool += [m, O('&', b, m), O('^', b, m), O('|', b, O('^', m, N(255)))]
        if allow_f:
            pool += [O('&', O('|', b, f), m), O('|', O('&', b, m), f), O('^', O('&', b, m), f), O('|', O('&', f, m), O('&', b, O('^', m, N(255)))),
                     O('&', O('|', b, f), m), O('|', O('&', b, m), f)]
    return rng.choice(pool)

def gen_attr_expr(rng, allow_f):
    b, f = V('b'), V('f')
    k = N(rng.choice((56, 7, 71, 0, 255, rng.randrange(256), rng.randrange(128))))
    pool = [k, k, b, O('|', b, N(64)), O('^', b, N(64)), O('&', b, N(127)), O('|', b, N(128)), O('^', b, N(rng.randrange(1, 256))),
            O('|', O('&', b, N(192)), O('|', O('<<', O('&', b, N(7)), N(3)), O('&', O('>>', b, N(3)), N(7)))),
            O('&', O('+', b, N(1)), N(255)), O('|', O('&', b, N(248)), N(rng.randrange(8)))]
    if allow_f:
        pool += [f, f, O('|', O('&', b, N(56)), O('&', f, N(7))), O('|', O('&', b, N(248)), O('&', f, N(7))), O('|', O('&', f, N(56)), O('&', b, N(199))),
                 O('|', f, N(64)), O('^', b, f), O('&', O('+', b, f), N(255)), O('|', O('&', b, N(56)), O('&', f, N(71)))]
    return rng.choice(pool)

def _names_text(rng, a, b, allow_square=True):
    if allow_square and rng.random() < 0.1:
        return '[%s,%s]' % (a, b)
    return '(%s,%s)' % (a, b)

# ------------------------------------------------------------------ operations

def gen_copy(rng, frames, new, old=None, for_plot=False, force_mask=None):
    old = old or rng.choice(sorted(frames))
    f = frames[old]
    cols, rows = dims(f)
    if rng.random() < 0.4:
        x = y = 0
        width = height = None
    else:
        x, y = rng.randrange(cols), rng.randrange(rows)
        width = rng.choice((None, rng.randint(1, cols - x)))
        height = rng.choice((None, rng.randint(1, rows - y)))
    ncols = cols - x if width is None else width
    nrows = rows - y if height is None else height
    scale = None
    if rng.random() < 0.4:
        ok = [s for s in (1, 2, 3, 4) if 64 * ncols * nrows * s * s <= 40000] or [1]
        scale = rng.choice(ok)
    nscale = f['scale'] if scale is None else scale
    if 64 * ncols * nrows * nscale * nscale > 60000:
        scale = nscale = 1
    mask = rng.choice((None, None, None, 0, 1, 2)) if force_mask is None else force_mask
    tindex = rng.choice((None, None, None, 0, rng.randrange(16)))
    alpha = rng.choice((None, None, None, 0, 255, rng.randrange(256)))
    fw, fh = 8 * ncols * nscale, 8 * nrows * nscale
    ox, oy = f['crop'][0] or 0, f['crop'][1] or 0
    crop = None
    if for_plot:
        crop = rng.choice(([0, 0, None, None], [0, 0, rng.randint(1, fw), None], [0, 0, None, rng.randint(1, fh)]))
        if list(f['crop'][:2]) == [0, 0] and rng.random() < 0.5:
            crop = None
    elif ox >= fw or oy >= fh or rng.random() < 0.35:
        crop = G._crop(rng, fw, fh, nscale)
    text = _ints(rng, [], [x, y, width, height, scale, mask, tindex, alpha], [0, 0, None, None, None, None, None, None],
                 ('x', 'y', 'width', 'height', 'scale', 'mask', 'tindex', 'alpha'))
    ctext = ''
    if crop is not None:
        if list(crop) == [0, 0, None, None]:
            # an explicit specification that spells the defaults ("{}" might be read as "omitted")
            ctext = rng.choice(('{0,0}', '{x=0}', '{0}', '{y=0,x=0}', '{,0}'))
        else:
            ctext = MG.fmt_crop(rng, crop)
    return {'op': 'copy', 'old': old, 'new': new, 'x': x, 'y': y, 'width': width, 'height': height, 'scale': scale, 'mask': mask,
            'tindex': tindex, 'alpha': alpha, 'crop': crop, 'text': '#COPY%s%s%s' % (text, ctext, _names_text(rng, old, new, allow_square=bool(text or ctext)))}

def gen_over(rng, frames, bg=None, fg=None):
    names = sorted(frames)
    cands = [n for n in names if presence(frames[n]) != 'mixed']
    if fg is None:
        if not cands:
            return None
        # prefer small foregrounds
        small = [n for n in cands if dims(frames[n])[0] * dims(frames[n])[1] <= 6]
        masked = [n for n in cands if presence(frames[n]) == 'all' and frames[n]['mask'] in (1, 2)]
        if masked and rng.random() < 0.45:
            fg = rng.choice(masked)
        else:
            fg = rng.choice(small if small and rng.random() < 0.7 else cands)
    if bg is None:
        others = [n for n in names if n != fg]
        if not others:
            return None
        big = [n for n in others if min(dims(frames[n])) >= 2]
        bg = rng.choice(big if big and rng.random() < 0.8 else others)
    B, F = frames[bg], frames[fg]
    bc, br = dims(B)
    fc, fr = dims(F)
    place = rng.choices(('inside', 'any', 'edge', 'outside'), (45, 35, 15, 5))[0]
    def coord(bn, fn):
        if place == 'inside' and bn >= fn:
            return rng.randint(0, bn - fn)
        if place == 'edge':
            return rng.choice((-fn + 1, bn - 1, 0, bn - fn, -1))
        if place == 'outside':
            return rng.choice((-fn - 1, -fn, bn, bn + 1))
        return rng.randint(-fn + 1, bn - 1)
    x, y = coord(bc, fc), coord(br, fr)
    k = rng.choices(('aligned', 'shift', 'shiftx', 'shifty', 'beyond'), (30, 40, 10, 10, 10))[0]
    xo = yo = 0
    if k == 'shift':
        xo, yo = rng.randint(0, 7), rng.randint(0, 7)
    elif k == 'shiftx':
        xo = rng.randint(1, 7)
    elif k == 'shifty':
        yo = rng.randint(1, 7)
    elif k == 'beyond':
        xo, yo = rng.choice((0, 8, 16, rng.randint(8, 19), rng.randint(0, 7))), rng.choice((0, 8, rng.randint(8, 19), rng.randint(0, 7)))
    rmode = rng.randrange(4)
    aligned = xo % 8 == 0 and yo % 8 == 0
    pres = presence(F)
    allow_f_attr = aligned or len(attrs(F)) == 1
    allow_m = pres == 'none' or (aligned and pres == 'all' and F['mask'] in (1, 2))
    attr = gen_attr_expr(rng, allow_f_attr) if rmode & 1 else None
    byte = gen_byte_expr(rng, True, allow_m) if rmode & 2 else None
    text = _ints(rng, [x, y], [xo, yo, rmode], [0, 0, 0], ('x', 'y', 'xoffset', 'yoffset', 'rmode'))
    if attr is not None:
        text += '(' + expr_text(rng, attr) + ')'
    if byte is not None:
        text += '(' + expr_text(rng, byte) + ')'
    return {'op': 'over', 'bg': bg, 'fg': fg, 'x': x, 'y': y, 'xoffset': xo, 'yoffset': yo, 'rmode': rmode, 'attr': attr, 'byte': byte,
            'place': place, 'text': '#OVER%s%s' % (text, _names_text(rng, bg, fg))}

def plot_targets(frames):
    return [n for n in sorted(frames) if not (frames[n]['crop'][0] or 0) and not (frames[n]['crop'][1] or 0)]

def gen_plots(rng, frames, name=None):
    """A burst of #PLOT macros on one frame."""
    if name is None:
        t = plot_targets(frames)
        if not t:
            return []
        name = rng.choice(t)
    f = frames[name]
    cols, rows = dims(f)
    out = []
    style = rng.choice(('random', 'line', 'corners'))
    n = rng.randint(1, 8)
    pts = []
    if style == 'corners':
        pts = [(0, 0), (8 * cols - 1, 0), (0, 8 * rows - 1), (8 * cols - 1, 8 * rows - 1), (7, 7), (min(8, 8 * cols - 1), min(8, 8 * rows - 1))]
        rng.shuffle(pts)
        pts = pts[:n]
    elif style == 'line':
        y = rng.randrange(8 * rows)
        x0 = rng.randrange(8 * cols)
        pts = [(x, y) for x in range(x0, min(8 * cols, x0 + n))]
    else:
        pts = [(rng.randrange(8 * cols), rng.randrange(8 * rows)) for _ in range(n)]
    fixed = rng.choice((None, None, 0, 1, 2))
    for x, y in pts:
        v = fixed if fixed is not None else rng.randrange(3)
        if v == 1 and rng.random() < 0.6:
            text = _ints(rng, [x, y], [], [], ('x', 'y'))
        else:
            text = _ints(rng, [x, y], [v], [1], ('x', 'y', 'value'))
        out.append({'op': 'plot', 'frame': name, 'x': x, 'y': y, 'value': v, 'text': '#PLOT%s(%s)' % (text, name)})
    return out

def gen_render(rng, frames, fname, name=None, multi=False, exclude=()):
    """A #FRAMES macro. Returns None when nothing suitable exists."""
    ok = [n for n in sorted(frames) if n not in exclude and size(frames[n]) is not None]
    if name is not None and name not in ok:
        return None
    if not ok:
        return None
    first = name or rng.choice(ok)
    specs = [(first, rng.choice((None, None, 5, 100)), 0, 0)]
    if multi:
        W0, H0 = size(frames[first])
        rest = [n for n in ok if n != first and size(frames[n])[0] <= W0 and size(frames[n])[1] <= H0]
        rng.shuffle(rest)
        for n in rest[:rng.randint(1, 2)]:
            w, h = size(frames[n])
            specs.append((n, rng.choice((None, 10, 300)), rng.choice((0, W0 - w, rng.randint(0, W0 - w))), rng.choice((0, H0 - h, rng.randint(0, H0 - h)))))
        if len(specs) < 2:
            return None
    parts = []
    for n, delay, xo, yo in specs:
        s = n
        if delay is not None or xo or yo or rng.random() < 0.1:
            s += ',%s' % ('' if delay is None else delay)
            if xo or yo or rng.random() < 0.2:
                s += ',%d,%d' % (xo, yo)
        parts.append(s)
    return {'op': 'render', 'frames': [(n, xo, yo) for n, _, xo, yo in specs], 'fname': fname,
            'text': '#FRAMES(%s)(%s)' % (';'.join(parts), fname if rng.random() < 0.7 else fname + '.png')}
